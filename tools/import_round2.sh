#!/bin/bash
# copies finished round-2 outputs from /tmp/seed-out2 into /verif/seeded (r2-Cxx-k / B-area-k)
for d in /tmp/seed-out2/*; do
  n=$(basename $d)
  [ -f $d/patch.diff ] || continue
  case $n in
    B-*) t=/verif/seeded/$n; [ -f $d/notes.md ] || continue;;
    C*) t=/verif/seeded/r2-$n; [ -f $d/demo.py ] && [ -f $d/notes.md ] || continue;;
    *) continue;;
  esac
  if [ ! -d $t ]; then mkdir -p $t; cp $d/patch.diff $d/notes.md $t/; [ -f $d/demo.py ] && cp $d/demo.py $t/; echo "imported $n"; fi
done
