#!/venv/bin/python
"""dumpreader.py <repo> <function-qualname-substring>: the decoder body as the extractor sees it (after inlining / guard
normalisation) and the reader grammar extracted from it; debugging aid"""
import ast, sys, os
sys.path.insert(0, os.path.dirname(os.path.dirname(os.path.abspath(__file__))))
from sa.srcmodel import Model
from sa.inline import inline_reader_helpers
from sa.tlv import normalise_guards
from sa.tlvcheck import extracted
m = Model(sys.argv[1])
pat = sys.argv[2]
for q, fi in m.functions.items():
    if pat in q and not isinstance(fi.node, ast.Lambda):
        print("=====", q)
        try:
            body = normalise_guards(inline_reader_helpers(m, fi, normalise_guards))
            print(ast.unparse(ast.Module(body=body, type_ignores=[])))
        except Exception as e:
            print("inline failed:", type(e).__name__, e)
ex = extracted(m)
for c, res in list(ex.rres.items()) + [("<envelope>", ex.envelope), ("<control>", ex.ctl_generic)]:
    if res is not None and pat in (res.func or ""):
        print("----- grammar", c, res.func)
        for n in res.nodes:
            print("   ", n.brief())
for c, err in ex.errors.items():
    if pat in c or pat in str(err):
        print("ERR", c, err)
