#!/bin/bash
# usage: tryseed.sh <patch.diff> <Cxx> [<Cyy> ...]   -- applies the patch to /repo, runs the quick checks, reverts
set -u
patch=$1; shift
cd /repo || exit 9
if ! git diff --quiet; then echo "REPO DIRTY"; exit 9; fi
if ! git apply "$patch"; then echo "PATCH DOES NOT APPLY: $patch"; exit 8; fi
for p in "$@"; do
  out=$(cd /verif && /venv/bin/python sa/run.py "$p" 2>&1); rc=$?
  echo "== $p rc=$rc  $(echo "$out" | grep -c '^VIOLATION') violation line(s)"
  echo "$out" | grep -E '^(VIOLATION|  rule|ANALYSIS-ERROR|KNOWN)' | head -${SEED_LINES:-12}
done
git checkout -- . ; git status --short | head -3
