#!/venv/bin/python
"""Prints, for the named seeds, every check that fired or errored (from meta.json written by seedmatrix.py)."""
import json, sys, os
S = os.path.join(os.path.dirname(os.path.dirname(os.path.abspath(__file__))), "seeded")
for s in sys.argv[1:]:
    m = json.load(open(os.path.join(S, s, "meta.json")))
    print(f"== {s}  breaks={m['property']} confirmed={m['confirmed']}")
    for c, r in sorted(m.get("detected_by", {}).items()):
        print(f"   {c} FIRED {r}")
    for c, e in sorted(m.get("analysis_errors", {}).items()):
        print(f"   {c} ERROR {e}")
