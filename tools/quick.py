#!/venv/bin/python
"""quick.py <seed-regex> Cxx [Cyy ...]: runs the named checks against every matching seed (scratch copies, in parallel) and
prints exit code + rules; does not touch meta.json / MATRIX.md."""
import os, re, shutil, subprocess, sys, tempfile
from concurrent.futures import ThreadPoolExecutor
V = os.path.dirname(os.path.dirname(os.path.abspath(__file__)))
pat, checks = sys.argv[1], sys.argv[2:]
seeds = sorted(s for s in os.listdir(f"{V}/seeded") if re.search(pat, s) and os.path.exists(f"{V}/seeded/{s}/patch.diff"))

def one(seed):
    d = tempfile.mkdtemp(prefix="q-", dir="/tmp")
    try:
        subprocess.run(f"git -C /repo archive HEAD | tar -x -C {d} && cd {d} && git apply {V}/seeded/{seed}/patch.diff", shell=True, check=True, capture_output=True)
        out = []
        for c in checks:
            p = subprocess.run(f"/venv/bin/python {V}/sa/run.py {c} --repo {d}", shell=True, cwd=V, capture_output=True, text=True, errors="replace", env=dict(os.environ, VERIF_EVIDENCE_DIR=f"{d}/_ev"))
            rules = sorted(set(re.findall(r"^  rule ([A-Za-z0-9_()-]+)", p.stdout, re.M)))
            err = [l[:160] for l in p.stdout.splitlines() if l.startswith("ANALYSIS-ERROR")]
            out.append(f"{c}:{p.returncode}{' ' + ','.join(rules) if rules else ''}{' ' + err[0] if err else ''}")
        return seed, out
    finally:
        shutil.rmtree(d, ignore_errors=True)

with ThreadPoolExecutor(14) as ex:
    for seed, out in ex.map(one, seeds):
        print(f"{seed:28s} " + " | ".join(out))
