#!/bin/sh
# every registered check on /repo's working tree, one status line each (evidence is rewritten)
cd "$(dirname "$0")/.."
for c in C01 C02 C03 C04 C05 C06 C07 C08 C09 C10 C11 C12 C13 C15 C16 C17 C18 C19; do
  /venv/bin/python sa/run.py $c > /tmp/cleanrun.$c.out 2>&1; rc=$?
  echo "$c rc=$rc $(grep -m1 "^\[$c\]\|^ANALYSIS-ERROR" /tmp/cleanrun.$c.out)"
done
