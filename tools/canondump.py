#!/venv/bin/python
"""canondump.py <seed>: applies the seed to a scratch copy and prints what the canonicalisation / flattening passes did."""
import os, subprocess, sys, tempfile, shutil
V = os.path.dirname(os.path.dirname(os.path.abspath(__file__)))
sys.path.insert(0, V)
seed = sys.argv[1]
d = tempfile.mkdtemp(prefix="q-", dir="/tmp")
try:
    subprocess.run(f"git -C /repo archive HEAD | tar -x -C {d} && cd {d} && git apply {V}/seeded/{seed}/patch.diff", shell=True, check=True)
    from sa.srcmodel import Model
    m = Model(d)
    print("canonical:", m.canonical)
    print("flattened:", m.flattened)
    if len(sys.argv) > 2:
        import ast
        print(ast.unparse(m.modules[sys.argv[2]].tree)[: int(sys.argv[3]) if len(sys.argv) > 3 else 3000])
finally:
    shutil.rmtree(d, ignore_errors=True)
