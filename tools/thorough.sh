#!/bin/sh
# thorough tier of every registered check (verdict on /repo + checker self-test on every recorded variant), one status line each
# usage: thorough.sh [Cxx ...]   (default: all 18)
cd "$(dirname "$0")/.."
[ $# -gt 0 ] || set -- C01 C02 C03 C04 C05 C06 C07 C08 C09 C10 C11 C12 C13 C15 C16 C17 C18 C19
for c in "$@"; do
  /venv/bin/python sa/run.py $c --tier thorough > thor.$c.out 2>&1; rc=$?
  echo "$c rc=$rc $(grep -m1 "self-test" thor.$c.out)"
  grep -i "unexpected" thor.$c.out | grep -v "0 unexpected" | head -20
done
