#!/bin/bash
# usage: import_round.sh <outdir> <prefix-for-breaking-seeds>   e.g. import_round.sh /tmp/seed-out3 r3
# copies finished sub-agent outputs into /verif/seeded (<prefix>-Cxx-k for breaking seeds, B*-k as they are)
out=$1; pre=$2
for d in $out/*; do
  n=$(basename $d)
  [ -f $d/patch.diff ] || continue
  case $n in
    B*) t=/verif/seeded/$n; [ -f $d/notes.md ] || continue;;
    C*) t=/verif/seeded/$pre-$n; [ -f $d/demo.py ] && [ -f $d/notes.md ] || continue;;
    *) continue;;
  esac
  if [ ! -d $t ]; then mkdir -p $t; cp $d/patch.diff $d/notes.md $t/; [ -f $d/demo.py ] && cp $d/demo.py $t/; echo "imported $n"; fi
done
