#!/venv/bin/python
"""Confirms every seeded change and runs every registered check against it, in scratch copies of /repo.

For each /verif/seeded/<id>/patch.diff:
  1. export /repo HEAD into a scratch dir (outside /repo and /verif), apply the patch
  2. (sub-agent seeds) run the repository's test suite against the scratch copy, run demo.py with and without the patch
  3. run every check with --repo <scratch> and record exit code and the rules that fired
  4. write meta.json next to the patch; remove the scratch dir
Then writes /verif/seeded/MATRIX.md.
"""
import json
import os
import re
import shutil
import subprocess
import sys
import tempfile
from concurrent.futures import ProcessPoolExecutor

VERIF = os.path.dirname(os.path.dirname(os.path.abspath(__file__)))
SEEDED = os.path.join(VERIF, "seeded")
PY = "/venv/bin/python"


def sh(cmd, cwd=None, env=None, timeout=900):
    e = dict(os.environ)
    e.pop("SANSLDAP_REPO", None)
    if env:
        e.update(env)
    p = subprocess.run(cmd, shell=True, cwd=cwd, env=e, capture_output=True, text=True, errors="replace", timeout=timeout)
    return p.returncode, p.stdout + p.stderr


def checks():
    man = json.load(open(os.path.join(VERIF, "MANIFEST.json")))
    return [c["property_id"] for c in man["checks"]]


def one(seed):
    d = os.path.join(SEEDED, seed)
    patch = os.path.join(d, "patch.diff")
    scratch = tempfile.mkdtemp(prefix=f"sm-{seed}-", dir="/tmp")
    res = {"seed": seed}
    try:
        rc, out = sh(f"git -C /repo archive HEAD | tar -x -C {scratch}")
        clean = tempfile.mkdtemp(prefix=f"smc-{seed}-", dir="/tmp")
        sh(f"git -C /repo archive HEAD | tar -x -C {clean}")
        rc, out = sh(f"git apply {patch}", cwd=scratch)
        res["applies"] = rc == 0
        if rc != 0:
            res["apply_error"] = out[-300:]
            return res
        demo = os.path.join(d, "demo.py")
        if seed.startswith(("B-", "B3-", "B4-", "B5-", "B6-", "B7-", "B8-", "B9-", "B10-", "B11-", "benign-")):
            rc, out = sh(f"{PY} -m pytest -q -p no:cacheprovider -x --timeout=900 {scratch}/tests", cwd=scratch, env={"PYTHONPATH": f"{scratch}/src"})
            res["tests_pass_with_change"] = rc == 0
        if os.path.exists(demo):
            rc, out = sh(f"{PY} -m pytest -q -p no:cacheprovider -x --timeout=900 {scratch}/tests", cwd=scratch, env={"PYTHONPATH": f"{scratch}/src"})
            res["tests_pass_with_change"] = rc == 0
            res["tests_tail"] = out.strip().splitlines()[-1] if out.strip() else ""
            rc1, o1 = sh(f"{PY} {demo}", cwd=scratch, env={"PYTHONPATH": f"{scratch}/src"}, timeout=600)
            for _again in range(2):
                if rc1 != 0:
                    break
                # a demo whose outcome depends on set/dict order (hash seed) may pass by chance: it demonstrates the break if it fails in any run
                rc1, o1 = sh(f"{PY} {demo}", cwd=scratch, env={"PYTHONPATH": f"{scratch}/src"}, timeout=600)
            rc0, o0 = sh(f"{PY} {demo}", cwd=clean, env={"PYTHONPATH": f"{clean}/src"}, timeout=600)
            res["demo_fails_with_change"] = rc1 != 0
            res["demo_passes_without_change"] = rc0 == 0
        det = {}
        for c in checks():
            # evidence files are rewritten by the run; keep the committed ones intact by pointing the run at a scratch evidence dir
            rc, out = sh(f"{PY} {VERIF}/sa/run.py {c} --repo {scratch}", cwd=VERIF, env={"VERIF_EVIDENCE_DIR": os.path.join(scratch, "_evidence")})
            rules = sorted(set(re.findall(r"^  rule ([A-Za-z0-9_()-]+)", out, re.M)))
            msg = [l.strip() for l in out.splitlines() if l.startswith("  rule ")][:2]
            err = [l for l in out.splitlines() if l.startswith("ANALYSIS-ERROR")]
            det[c] = {"rc": rc, "rules": rules, "first": msg, "analysis_error": err[:1]}
        res["checks"] = det
        shutil.rmtree(clean, ignore_errors=True)
    finally:
        shutil.rmtree(scratch, ignore_errors=True)
    return res


def one_safe(seed):
    try:
        return one(seed)
    except Exception as e:       # one seed's harness trouble (a demo printing undecodable bytes, a timeout) must not lose the whole run
        return {"seed": seed, "applies": None, "harness_error": f"{type(e).__name__}: {e}"[:300]}


def main():
    seeds = sorted(s for s in os.listdir(SEEDED) if os.path.exists(os.path.join(SEEDED, s, "patch.diff")))
    if len(sys.argv) > 1:
        seeds = [s for s in seeds if s in sys.argv[1:]]
    with ProcessPoolExecutor(max_workers=14) as ex:
        results = list(ex.map(one_safe, seeds))
    rows = []
    for r in results:
        seed = r["seed"]
        d = os.path.join(SEEDED, seed)
        meta_path = os.path.join(d, "meta.json")
        meta = {}
        if os.path.exists(meta_path):
            try:
                meta = json.load(open(meta_path))
            except Exception:
                meta = {}
        if seed.startswith("regress"):
            target = open(os.path.join(d, "props.txt")).read().strip()
        elif seed.startswith(("r2-", "r3-", "r4-", "r5-", "r6-", "r7-", "r8-", "r9-", "r10-", "r11-")):
            target = seed.split("-")[1]
        elif seed.startswith(("B-", "B3-", "B4-", "B5-", "B6-", "B7-", "B8-", "B9-", "B10-", "B11-", "benign-")):
            target = "none (behaviour-preserving)"
        else:
            target = seed.split("-")[0]
        detected = {c: v["rules"] for c, v in r.get("checks", {}).items() if v["rc"] == 1}
        errors = {c: v["analysis_error"] for c, v in r.get("checks", {}).items() if v["rc"] == 2}
        needs = meta.get("needs_to_manifest", "")
        if not needs and os.path.exists(os.path.join(d, "notes.md")):
            txt = open(os.path.join(d, "notes.md")).read()
            needs = " ".join(txt.split())[:600]
        if not needs and os.path.exists(os.path.join(d, "subject.txt")):
            needs = ("behaviour-preserving variant written by hand: " if seed.startswith("benign-") else "revert of the repair commit: ") + open(os.path.join(d, "subject.txt")).read().strip()
        meta.update({
            "id": seed,
            "property": target,
            "origin": "revert of a fix: commit made in this repository" if seed.startswith("regress") else
                      "written by hand while testing the checkers for false alarms" if seed.startswith("benign-") else "independent sub-agent given only the property text and a scratch worktree",
            "needs_to_manifest": needs,
            "what_was_run": "tools/seedmatrix.py: git archive HEAD into a scratch dir, git apply patch.diff, pytest with PYTHONPATH=<scratch>/src, demo.py with and without the change, "
                            "every registered check with --repo <scratch>; scratch dirs removed",
            "applies": r.get("applies"),
            "tests_pass_with_change": r.get("tests_pass_with_change"),
            "demo_fails_with_change": r.get("demo_fails_with_change"),
            "demo_passes_without_change": r.get("demo_passes_without_change"),
            "detected_by": detected,
            "analysis_errors": errors,
            "confirmed": bool(r.get("applies")) and (seed.startswith("regress") or (seed.startswith(("B-", "B3-", "B4-", "B5-", "B6-", "B7-", "B8-", "B9-", "B10-", "B11-", "benign-")) and r.get("tests_pass_with_change", True)) or (r.get("tests_pass_with_change") and r.get("demo_fails_with_change") and r.get("demo_passes_without_change"))),
        })
        json.dump(meta, open(meta_path, "w"), indent=1)
        rows.append(meta)
    ran = rows
    # the table always covers every seed: a partial run refreshes its rows and keeps the rest as last recorded
    rows = []
    for s_ in sorted(os.listdir(SEEDED)):
        mp_ = os.path.join(SEEDED, s_, "meta.json")
        if os.path.exists(mp_) and os.path.exists(os.path.join(SEEDED, s_, "patch.diff")):
            rows.append(json.load(open(mp_)))
    with open(os.path.join(SEEDED, "MATRIX.md"), "w") as f:
        f.write("# Seeded changes vs checks\n\nGenerated by tools/seedmatrix.py. `confirmed` = applies, test-suite passes with it, demo fails with it and passes without it "
                "(regress-* are reverts of fix commits).\n\n| seed | breaks | confirmed | detected by (rules) | analysis errors |\n|---|---|---|---|---|\n")
        for m in rows:
            det = "; ".join(f"{c}: {', '.join(r_[:3])}" for c, r_ in sorted(m["detected_by"].items())) or "**missed**"
            if str(m["property"]).startswith(("none", "benign")):
                det = "silent in every check (as required)" if not m["detected_by"] and not m["analysis_errors"] else \
                      ("**FALSE ALARM** " + det if m["detected_by"] else "no verdict: analysis error (exit 2), never a VIOLATION")
            err = "; ".join(sorted(m["analysis_errors"])) or ""
            f.write(f"| {m['id']} | {m['property']} | {'yes' if m['confirmed'] else 'NO'} | {det} | {err} |\n")
    hit = sum(1 for m in rows if m["detected_by"])
    own = sum(1 for m in rows if any(c in m["property"] for c in m["detected_by"]))
    print(f"seeds={len(rows)} confirmed={sum(1 for m in rows if m['confirmed'])} detected-by-some-check={hit} detected-by-own-property-check={own}")
    for m in ran:
        print(m["id"], "confirmed" if m["confirmed"] else "UNCONFIRMED", "->", ", ".join(sorted(m["detected_by"])) or "MISSED", ("| errors: " + ",".join(sorted(m["analysis_errors"]))) if m["analysis_errors"] else "")


if __name__ == "__main__":
    main()
