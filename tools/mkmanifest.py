#!/venv/bin/python
"""Regenerates /verif/MANIFEST.json from the table below (keeps it valid and consistent)."""
import json
import os

VERIF = os.path.dirname(os.path.dirname(os.path.abspath(__file__)))

CHECKS = {
    "C08": dict(
        technique="static typestate/effect extraction (path-sensitive abstract interpretation of _session.py over the AST)",
        text="Decides the lifecycle machine on the extracted transition relation: every path of every public entry of the three "
             "session classes from each pre-state is enumerated from the source (self/super calls inlined through the MRO) and "
             "rules R1-R12 (CLOSED absorbing, BINDING entry/exit/gate, closing events, refused sends keep the state, only "
             "documented transitions) are checked on all of them. Sound for the statement/expression vocabulary of _session.py; "
             "anything else is an ANALYSIS-ERROR.",
        note="Trusted: Python semantics of the interpreted constructs; loops analysed for 0/1 iteration (rules are per effect); "
             "calls leaving _session.py are opaque and may raise. BEFORE_OPEN => empty id sets is itself checked (I0).",
        ref="DESIGN.md section 5 C08, Appendix C"),
}

NOT_APPLICABLE = {
    "C14": "agreement of a hand-written offset-arithmetic parser with the RFC 4515 grammar on every sentence is semantic "
           "equivalence over unbounded strings; no sound static argument in reach decides it (lexical pieces are checked under C13/C15)",
}

PENDING_REASON = "checker not built yet in this session (static-analysis plan in DESIGN.md); listed here until it is registered"


def main():
    props = [json.loads(l)["id"] for l in open(os.path.join(VERIF, "properties.jsonl"))]
    checks = []
    for pid in props:
        if pid not in CHECKS:
            continue
        c = CHECKS[pid]
        checks.append({
            "property_id": pid,
            "quick_cmd": f"/venv/bin/python sa/run.py {pid} --tier quick",
            "thorough_cmd": f"/venv/bin/python sa/run.py {pid} --tier thorough",
            "evidence_file": f"/verif/evidence/{pid}.json",
            "replay_cmd_template": "cat {path}",
            "engine": "sa",
            "level_claimed": {"category": "other", "text": c["text"], "design_ref": c["ref"]},
            "level_note": c["note"],
            "technique": c["technique"],
        })
    na = []
    for pid in props:
        if pid in CHECKS:
            continue
        na.append({"property_id": pid, "reason": NOT_APPLICABLE.get(pid, PENDING_REASON)})
    man = {
        "version": 1,
        "setup_cmd": "true",
        "hooks": {
            "guard": "SANSLDAP_VERIF",
            "enable": "none: static analysis reads /repo/src/sansldap from disk on every run; no hook or instrumentation exists",
            "baseline_off_cmd": "cd /repo && /venv/bin/python -m pytest -ra -q -p no:cacheprovider --timeout=900 --continue-on-collection-errors",
            "source_commits": [],
            "add_only": True,
        },
        "engines": [
            {"name": "sa", "path": "/verif/sa", "serves_properties": sorted(CHECKS),
             "kind_free_text": "repository-specific static analyses over the Python AST (stdlib ast only; sansldap is never imported or executed)"},
        ],
        "checks": checks,
        "not_applicable": na,
        "notes": "All checks are static analyses of /repo's working tree. Exit 0 held / 1 VIOLATION / 2 ANALYSIS-ERROR. "
                 "Genuine defects found are repaired by fix: commits in /repo or listed in /verif/known_findings.txt.",
    }
    with open(os.path.join(VERIF, "MANIFEST.json"), "w") as f:
        json.dump(man, f, indent=1)
    print("checks:", [c["property_id"] for c in checks], "n/a:", [n["property_id"] for n in na])


if __name__ == "__main__":
    main()
