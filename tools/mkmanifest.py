#!/venv/bin/python
"""Regenerates /verif/MANIFEST.json from the table below (keeps it valid and consistent)."""
import json
import os

VERIF = os.path.dirname(os.path.dirname(os.path.abspath(__file__)))

CHECKS = {
    "C01": dict(
        technique="TLV grammar extraction (abstract interpretation of the writer and reader idioms) + sibling cross-check",
        text="NECESSARY CONDITION: the grammar each pack/_pack_inner/get_value can emit and the grammar each _unpack_*/unpack accepts are extracted from the AST "
             "and aligned: every emitted component is accepted at that point (position or tag dispatch) with the same universal kind, an accepted tag, the same "
             "dataclass field on both sides, inverse conversions, omission <=> decoder default; field coverage; protocolOp/choice dispatch; exact consumption of one "
             "outer SEQUENCE; writers pure; writer tags constant; no post-decode mutation except two reviewed injections; the reader primitives advance by exactly what was "
             "validated and agree on the reader state they reset. Value equality and primitive arithmetic are not decided. Also (rounds 3-4): a mode switch of the primitive codec on one side only; members allocated without a value written as themselves; fields written as held (no filtered/sliced copy); the constructed-value flush passes the stored tag and the octets untouched.",
        note="Reader/writer shapes followed: positional reads, sub-readers, while-reader repetition, tag dispatch decided by a (class, number) set algebra, optional-by-peek, "
             "guard clauses, private helpers that take the reader/writer (predicates, header-returning, list/tuple-returning); an unknown shape is an ANALYSIS-ERROR "
             "for that class, never a verdict. Spellings are normalised first (sa/desugar.py: match, constant-table loops, generators, walrus, carriers). 169 of 177 behaviour-preserving variants leave every check silent; eight (DESIGN.md 0e) are an ANALYSIS-ERROR here (DESIGN.md 0d, 10).",
        ref="DESIGN.md section 5 C01, section 4 Engine B"),
    "C03": dict(
        technique="TLV writer-grammar extraction compared with an independent RFC 4511 / RFC 2696 table",
        text="Decides the TLV STRUCTURE of everything the writers can emit: tag class, number and primitive/constructed form, universal kind, order, OPTIONAL/DEFAULT "
             "handling and field correspondence of every component of the 9 messages, 10 filter alternatives, 2 credential choices and the control forms, against a "
             "table transcribed from the RFC (not from the code). One known finding (UnbindRequest constructed bit, pinned by tests). Minimal integer/length octets "
             "(arithmetic) and SIZE constraints are not decided. Also: the named numbers of the ENUMERATED types (resultCode, scope, derefAliases) against the RFC; the constructed-value flush; hand-built INTEGER content fits.",
        note="Trusted: the RFC transcription in sa/tlvcheck.py (DESIGN.md Appendix A); asn1.py's primitive writers (range safety and constants under C07).",
        ref="DESIGN.md section 5 C03, Appendix A"),
    "C04": dict(
        technique="structural obligations on the extracted reader grammars and on asn1.py's header routine",
        text="NECESSARY CONDITIONS for the four encoding freedoms: (1) one header routine, none of whose rejections depends on the number of length octets or on "
             "minimality; (2) BOOLEAN truth is content != 00; (3) every DEFAULT component has a real reader of its own kind; (4) in every SEQUENCE reader the tail is "
             "tag-dispatched with unknown tags skipped and no raise is reached only while a reader still holds data. Equality of values decoded from alternative forms (multi-octet length "
             "arithmetic) is not decided. Also: tag-naming enums in the header routine cover every assigned value; positional (untagged) components are not read inside a trailing-element loop; no implicit raiser in the header routine left undischarged; no rejection under a test of the header's octet counts (tag_length / whole-header equality).",
        note="Same extractor and trusted base as C01.",
        ref="DESIGN.md section 5 C04"),
    "C02": dict(
        technique="structural lemmas on the AST + path-sensitive effect extraction of receive (typestate engine)",
        text="Decides the five code-shape lemmas from which chunking independence follows by induction (the induction is on paper): L1/L2 a reader "
             "advances only after validation and by exactly header+content, T1 no upper-bounded slice of the input without a dominating length fact, "
             "L3 residue discipline on every extracted path of receive (who may write and who may read the pending-bytes buffer), L4 decode-order append and an "
             "independent processing loop (over receive and the decode helpers it hands the reader to), L5 copy-out, L6 sibling agreement on reader state. "
             "Necessary conditions; value equality across chunkings is not decided. Also: ASN1Reader truth is exactly 'octets remain'.",
        note="Trusted: Python slicing/bytes semantics; the induction over chunks; receive keeps today's two-phase shape (an early return that is not "
             "'no new data' is reported).",
        ref="DESIGN.md section 5 C02"),
    "C05": dict(
        technique="inter-procedural may-raise analysis with guard-fact discharge + typestate paths + constant folding of the notification",
        text="Decides that the set of exception classes that can leave LDAPSession/LDAPClient/LDAPServer.receive is {ProtocolError}: explicit raises, a "
             "catalogue of implicit raisers (index, key, struct, codec, enum conversion, tuple unpacking, None attribute, byte range) each discharged by "
             "dominating guard facts or reported, class-hierarchy call resolution, recursion cycles; plus closure (every ProtocolError path ends CLOSED) "
             "and well-formed construction of the attached unbind / notice of disconnection, including encodability of the error text. BufferError from resizing a bytearray that a live memoryview exports, exception-class hooks (__init__/__post_init__/_missing_) and per-direction codec error handlers are part of the catalogue.",
        note="Sound over-approximation for the constructs catalogued; user-registered types are outside the claim; len() <= sys.maxsize; CPython's "
             "UnicodeDecodeError/ValueError message texts are ASCII.",
        ref="DESIGN.md section 5 C05, Appendix D"),
    "C06": dict(
        technique="exception-provenance dataflow (which reader a NotEnougData was raised on) over the resolved call graph",
        text="Decides that every NotEnougData reaching a 'wait for more bytes' handler in receive was raised by a read on the stream-level reader itself, "
             "which by L1/L2 (also checked) has not advanced; interior readers' NotEnougData must be converted before. Also: no early return with "
             "pending bytes, stream reader used only for validated reads. Also: the escape set of receive is {ProtocolError}; a wrong identifier is rejected before waiting for content; no truth test on a decoded message whose class defines __bool__/__len__.",
        note="Trusted: the counting argument from the lemmas to the property; receive's decode loop shape.",
        ref="DESIGN.md section 5 C06"),
    "C07": dict(
        technique="integer-interval and guard-fact analysis of asn1.py + writer/reader constant agreement",
        text="PARTIAL by design: decides (a) totality/range safety of the BER primitives (every subscript in range, every bytearray store in 0..255, "
             "struct.unpack fed one octet), (b) no over-consumption / no silent clamping, (c) agreement of the bit-field constants the writer and reader "
             "use (tag-form threshold 31, length-form threshold 128, 7-bit continuation, class/constructed bit positions, boolean octets), (d) no primitive mutates a "
             "buffer it was handed, reader methods agree on the state they reset. The arithmetic "
             "equalities of the property (minimal two's complement, denoted value) are NOT decided: no sound static argument in reach. Also: hand-built INTEGER/ENUMERATED content fits its octets; ASN1Reader construction cannot fail; non-advancing reader methods keep no state; the constructed-value flush.",
        note="Caller preconditions on user-supplied tags (class in 0..3, number >= 0) are assumed for the writer; the library's own tags are checked constant under C05.",
        ref="DESIGN.md section 5 C07"),
    "C08": dict(
        technique="static typestate/effect extraction (path-sensitive abstract interpretation of _session.py over the AST)",
        text="Decides the lifecycle machine on the extracted transition relation: every path of every public entry of the three "
             "session classes from each pre-state is enumerated from the source (self/super calls inlined through the MRO) and "
             "rules R1-R12 (CLOSED absorbing, BINDING entry/exit/gate, closing events, refused sends keep the state, only "
             "documented transitions) are checked on all of them. Also (reader lemma): a wrong identifier is rejected before the incomplete-content exit.",
        note="Trusted: Python semantics of the interpreted constructs; loops analysed for 0/1 iteration (rules are per effect); "
             "calls leaving _session.py are opaque and may raise. BEFORE_OPEN => empty id sets is itself checked (I0).",
        ref="DESIGN.md section 5 C08, Appendix C"),
    "C09": dict(
        technique="typestate path summaries + who-may-write census of the message counter",
        text="Decides counter discipline (only += positive literal), stamping (id read from the counter is the id in the bytes, the id returned and the id "
             "recorded outstanding, recorded only after the send), and the acceptance/rejection table of incoming messages by (class, id in search set, "
             "id in outstanding set) on every extracted path; implicit KeyError paths are discharged by the inductive invariant search <= outstanding. Also: the envelope's first component is written and read by the plain INTEGER codec (no mode switch, no unsigned shortcut).",
        note="Same trusted base as C08.",
        ref="DESIGN.md section 5 C09"),
    "C10": dict(
        technique="effect-ordering rules on typestate path summaries",
        text="Decides on every path of every sending entry: a path that raises (refusal, encoding failure, implicit KeyError) has queued no bytes (E1), "
             "refusals are LDAPError (E2), every server response is queued under a live fact that its id is outstanding (E3), final responses retire the id (E4). Also: only the receive path adds to the server's outstanding set.",
        note="Same trusted base as C08; exceptions from encoding caller-supplied values are argument errors covered by E1 only.",
        ref="DESIGN.md section 5 C10"),
    "C11": dict(
        technique="sibling cross-check of send-side and receive-side path summaries",
        text="NECESSARY CONDITION ONLY: mirror agreement of state successor and outstanding/search set changes between the sender and the receiver of each of "
             "12 message kinds. Joint histories, delivery schedules and value equality across the pipe are not decided (other technique families). Also: reader truth is 'octets remain'; residue discipline of receive; no argument replaced through a truth test on a falsy-capable dataclass value.",
        note="Same trusted base as C08; precondition that responses match their request kind, as in the property.",
        ref="DESIGN.md section 5 C11"),
    "C12": dict(
        technique="who-may-write census + path enumeration of the drain function with versioned locals",
        text="Decides structurally: the outgoing buffer's writers are __init__, the send path (append of pack(msg) only) and the drain; on every path of the drain "
             "the returned bytes and the retained buffer are complementary slices at the same cut value; draining touches nothing else; bytes are appended iff the send succeeds.",
        note="Recognised drain shapes: prefix/suffix slices, or a read offset with cut-consistent retention; any other design is an ANALYSIS-ERROR, not a verdict.",
        ref="DESIGN.md section 5 C12"),
    "C13": dict(
        technique="dataflow (sanitiser routing) + byte-class algebra and regular-language inclusion on folded patterns",
        text="SERIALISER-SIDE NECESSARY CONDITIONS: every bytes-typed filter field reaches the text only through the value serialiser; the escape class contains every "
             "byte RFC 4515 or the parser gives meaning to plus all non-ASCII bytes, and leaves only printable ASCII; escapes are backslash + two hex digits and that "
             "language is accepted by the un-escaper's patterns; hex digits are decoded strictly; the escape pattern is one unconditional byte class. These make "
             "un-escape(escape(v)) = v. PARSER-SIDE NECESSARY CONDITIONS: structure is read off the raw text (nothing that is definitely un-escaped is cut at '*'), "
             "a presence filter is chosen exactly for the raw value '*', parse results are not cached/shared. That the parser rebuilds the same TREE in general "
             "(offset arithmetic, C14) is not decided. Also: markers compared exactly (no case folding, no keyword by prefix); empty assertion values accepted; __str__ pure; no rejection by character count.",
        note="Trusted: re._parser dialect; RFC 4515 special bytes transcribed in the checker.",
        ref="DESIGN.md section 5 C13"),
    "C15": dict(
        technique="may-raise analysis + dimension typing of offsets + guard dataflow (+ regular-language inclusion)",
        text="Decides totality of LDAPFilter.from_string up to the listed undecided window-index sites (escape set is FilterSyntaxError), a dimension discipline "
             "(absolute position vs relative extent) on every FilterSyntaxError and recursive call, and that every attribute/rule reaching a constructor passed the "
             "attribute pattern, whose language is compared with RFC 4512 by automata inclusion (IGNORECASE modelled with the engine's own folding rule); (offset, length) "
             "pairs name one span. Round trip of accepted results is not decided. Also: units of the span (octets vs characters, also inside the error constructor); validation through predicate helpers counts only for what they imply; strict escape decoding.",
        note="IndexError on the scanners' window view needs relational offset arithmetic and is listed as undecided in the evidence, never alarmed.",
        ref="DESIGN.md section 5 C15"),
    "C16": dict(
        technique="byte-class algebra + regular-language inclusion on folded patterns + field coverage",
        text="NECESSARY CONDITIONS of the schema text round trip: escape agreement between _encode_qdstring, the RFC dstring grammar and the reader's un-escape pattern; "
             "single-pass un-escaping (no order-dependent replace chain); the keyword order each __str__ can emit is accepted by the description pattern; every field is "
             "written and parsed; everything the encoder can emit is a qdstring of the library's own fragment; fields that may be 0 are tested with `is not None`; the "
             "extension parser searches no delimiter across quoted values; parse results are fresh. Equality of the whole definition beyond these is not decided. Also: the definition text is matched as given (no rewriting before the pattern).",
        note="Trusted: re._parser dialect; RFC 4512 dstring transcription.",
        ref="DESIGN.md section 5 C16"),
    "C17": dict(
        technique="exact regular-language inclusion (RFC 4512 grammars vs the folded description patterns) + may-raise analysis",
        text="Decides EXACTLY, for all sentences and all spacing choices, that each RFC 4512 description grammar (plus the quoted SYNTAX variant) is included in the language "
             "its pattern accepts under .match (on-the-fly subset construction, shortest counter-example); decides totality (only ValueError can leave from_string), "
             "group-name existence, single-pass un-escaping and absence of exponential backtracking; and, for the hand-written cutting after the regex, two typestate "
             "analyses: every positional inspection acts on text that cannot start with a space (SP = 1*SPACE is tolerated everywhere - this found defect F15), and the "
             "extension parser looks for no delimiter but the quote while quoted text may lie ahead. Full equality of the extracted FIELDS with what the grammar denotes "
             "is not decided. Also: the definition text is matched as given; constructor hooks do not reject combinations of independent optional keywords.",
        note="Trusted: the RFC transcription in sa/rx/rfc.py (DESIGN.md Appendix B); re._parser dialect.",
        ref="DESIGN.md section 5 C17, Appendix B"),
    "C18": dict(
        technique="automata-theoretic ambiguity analysis of every regular expression recovered by constant folding",
        text="Decides for all regular expressions of the package (10 distinct, 12 use sites): no exponential ambiguity with a constructed failing witness family "
             "(product-SCC criterion on the position multigraph with sre's empty-iteration rule); path-based progress of every scanner loop and of every "
             "`while <reader>:` loop of the decoders (each path to the back edge consumes), and no re-parse-on-failure. Wall-clock constants and exact polynomial degree are not decided. Also: no double descent inside a recursive group of functions; error text does not double per nesting level.",
        note="Trusted: re._parser as the dialect; the backtracking cost model (number of distinct runs). Patterns are never compiled or matched.",
        ref="DESIGN.md section 5 C18, section 4 Engine E"),
    "C19": dict(
        technique="ownership / effect-set rules over the AST of the whole package (absence rules with a known-bad fixture)",
        text="Decides absence of shared mutable state: session attributes are fresh allocations created in __init__, no class-level mutables, option defaults built by "
             "fresh factories, no function writes or uses module-level/class-level mutable objects (one reviewed exception), every options argument is rooted at a "
             "parameter or at the session's own options, register_* refuse duplicates before appending to the session's own list, no memoised function returns a mutable "
             "value. The interleaving statement follows "
             "from these on paper.",
        note="Trusted: the non-interference argument from absence of shared mutable state; CPython enum internals for the reviewed _missing_ memo.",
        ref="DESIGN.md section 5 C19"),
}

EXTRA = {   # rounds 5-6 (DESIGN.md section 0e)
    "C01": "Rounds 5-6: every method that takes a writer is judged as a writer (pure, reads no instance dictionary); the element taken from a list field is not swapped before it is written; "
           "constructor hooks of the wire classes store fields as given (a private copy is allowed); every write_* of the writer classes reaches the buffer; __exit__ hands nothing true back to `with`.",
    "C02": "Rounds 5-6: every consuming reader method re-binds the view on every returning path (L11); the incomplete-input signal is the class family found from the header routine, not a name.",
    "C03": "Rounds 5-6: every write_* reaches the buffer on all returning paths (a de-duplicating member writer is reported); __exit__ does not suppress exceptions; elements are written as held.",
    "C04": "Rounds 5-6: membership in a table's keys is read as a tag test, so a DEFAULT component that is read only for its presence is reported (V3).",
    "C05": "Rounds 5-6: new raiser classes - an f-string field (str()/repr()) of a package object runs its __str__/__repr__ (generated dataclass reprs recurse through the field types), arithmetic on an "
           "Optional[int] attribute, a handler reading a local the try body had not bound yet; the escape-set / notification split follows a template-method receive.",
    "C06": "Rounds 5-6: the wait handlers and the provenance rule use the incomplete-input class family (a renamed class with a deprecated subclass alias is followed).",
    "C07": "Rounds 5-6: S8 every write_* reaches the buffer; S10 __exit__ not truthy; S11 INTEGER/ENUMERATED contents read as two's complement, reader siblings share as the writer's do; "
           "L11 consuming methods advance; arithmetic spellings of the bit operations (% // * by powers of two, divmod) are read as mask/shift.",
    "C10": "Rounds 5-6: E7 the text of every refusal raised in _session.py is total (nothing the formatting runs - including __repr__ of nested values - can raise); __exit__ not truthy.",
    "C11": "Rounds 5-6: __exit__ of package classes does not suppress exceptions (a failed write inside a with-block is not silently left out).",
    "C12": "Rounds 5-6: writers are pure over every writer-taking method; __exit__ not truthy.",
    "C13": "Rounds 5-6: J13 list fields rendered as held; J14 constructor hooks store fields as given; J15 no `<text> or <fallback>` in the parser; J4 also judges hex-escape lookup tables (folded, all 256 spellings).",
    "C15": "Rounds 5-6: span dimensions propagate through conditional expressions and min/max; F1 also sees unbound locals read in handlers and exceptions raised while another error's text is formatted.",
    "C16": "Rounds 5-6: H12 constructor hooks store fields as given; H13 a parsed number is not pushed through `<int> or <fallback>`.",
    "C17": "Rounds 5-6: G10 what from_string returns holds what was parsed (no rewriting constructor hooks); G11 a parsed 0 stays 0.",
    "C18": "Rounds 5-6: L11 every consuming reader method advances on every returning path (the decode loops rely on skip_value / read_* for progress); generator-driven loops are judged at their expansions.",
    "C19": "Rounds 5-6: I9 the registered-type lists change only in register_* (or helpers only they hand the list to); I6 decides what the duplicate search yields and whether the test fits (a position tested by truth "
           "accepts a clash with the first registered type); the one reviewed memo must key by the value it was asked for.",
}

EXTRA2 = {   # rounds 7-8 (DESIGN.md section 0f)
    "C01": "Rounds 7-8: nothing memoised returns or is keyed on a mutable object; nothing computed from the fields is memoised on the value; a decoder that steps an attribute of its options "
           "puts it back in a finally (W22); a component's presence depends on its field, not on a flag argument (W23); string_encoding defaults are utf-8; late appends after the reading loop.",
    "C02": "Rounds 7-8: nothing on the decode path is memoised on a view / bytearray key or hands out a shared mutable result (L12).",
    "C03": "Rounds 7-8: B13 LDAPString default utf-8; B14/B15 no memoised mutable results / views of fields; W23 presence depends on the field alone.",
    "C04": "Rounds 7-8: V9 tag tests name class and number; V10 read-then-skip; V11 leaving a reader (`__exit__`) rejects nothing; `with reader.read_sequence() as r:` is followed.",
    "C05": "Rounds 7-8: `assert` is a raiser unless its test is established; None handed to a reader constructor; shift counts; logging calls are read as what they can do (argument evaluation, str()/repr() under a swallowing handler).",
    "C06": "Rounds 7-8: an explicit raise of the incomplete-input signal outside asn1.py has provenance `derived`; AssertionError escapes are reported.",
    "C07": "Rounds 7-8: S12 every codec parameter is read; S13 header tag stands in for the default (per read_* method); S14 no memoised mutable octets; S8 through a private append helper; S11 the ENUMERATED routines pin no parameter of the INTEGER routines.",
    "C09": "Rounds 7-8: N6 the text of a refusal cannot fail to build.",
    "C11": "Rounds 7-8: M1 also on the closing pairs; M2 parameters of sending methods reach the fields of the same name.",
    "C12": "Rounds 7-8: D6 a running total the drain reads back counts the bytes handed out, not the amount asked for; totals never read back are not judged.",
    "C13": "Rounds 7-8: J7 path-sensitive; J16 values decoded on every binding; J17 delimiter scans cover the first octet; J18 no capacity limit (a raise guarded by counters only) in the parser; J19 the text is computed "
           "when asked (no memoised view of the fields); J2 over pattern alternatives.",
    "C15": "Rounds 7-8: a span computed from the whole view is an absolute position (F2).",
    "C16": "Rounds 7-8: H14 decoder strips only the quotes; H15 presence tests guard their own field; H16 serialisers are total; H17 extension names kept as written; H18 a special character left bare under a "
           "look-ahead is not where the reader would take it for an escape.",
    "C17": "Rounds 7-8: G12 the de-quoted text is the one read; G13 every extension read is stored; G14 under the name the text has.",
    "C18": "Rounds 7-8: look-ahead assertions are built as empty transitions and an ambiguity found next to one is confirmed or dismissed by counting runs over the witness family with the assertion evaluated.",
    "C19": "Rounds 7-8: I6 compares ids over the whole list; I7 shared with the other checks (immutable results, hashable keys; NamedTuple and enum results are immutable).",
}

EXTRA3 = {   # round 9 (DESIGN.md section 0g)
    "C01": "Round 9: W16 also `dict.fromkeys` / `Counter`; a writer flag with a true default that nobody sets away reads as true.",
    "C02": "Round 9: T2 octets are not read by indexing a caller's memoryview (format-dependent); L13 no chunk is refused for its size.",
    "C04": "Round 9: T2; dispatch tests through boolean aliases and whole-tag comparisons are read (V7 reports a universal type accepted in a trailing-element loop).",
    "C07": "Round 9: T2; public methods composed only of other public methods of the reader / writer are not judged as primitives.",
    "C09": "Round 9: N6 the decoded ID is bound once, by the read.",
    "C12": "Round 9: D7 an offset-based drain keeps its offset inside the buffer; a flag-guarded look (`peek=True`) is not a delivery.",
    "C13": "Round 9: J21 escapes decoded in one pass; J22 bounded delimiter searches stay in their piece.",
    "C15": "Round 9: F9 bounded delimiter searches stay in their piece.",
    "C16": "Round 9: H19 text computed when asked; H20 / H7 nothing shared or memoised is handed out by the parser.",
    "C17": "Round 9: G9 no module-level list / dict handed out as part of a result.",
    "C18": "Round 9: E6 no second descent on failure in a recursive group; E7 no allocation sized by a decoded number.",
    "C19": "Round 9: I1 lets immutable-typed constructor parameters through; class / static methods are not session entries.",
}

EXTRA5 = {   # round 11 (DESIGN.md section 0i)
    "C01": "Round 11: the Control envelope may be opened by the decoder or by every caller (moved into the nonterminal; call sites must agree); a read handed an undecided peeked header under a test that is not a tag test is an analysis error.",
    "C05": "Round 11: a constant-table lookup `T[k]` is read as its element expression under `assert 0 <= k < N`, discharged from k's interval; `v = x.find(lit)` yields the -1-or-valid-index fact; a notification kept in a module-level name is not followed (exit 2).",
    "C07": "Round 11: S1 / S3 read masks and shifts through a precomputed identifier-octet table.",
    "C13": "Round 11: J6 accepts a raw value cut in two steps; comparison flags bound once are read as the comparison.",
    "C15": "Round 11: `\\d` / `\\s` / `\\w` of a str pattern without re.ASCII are modelled exactly from the interpreter's character tables (F4 reports a non-ASCII digit accepted as an arc).",
    "C16": "Round 11: U1 judges a hand-written scanning un-escaper by whether the searched text is rebuilt inside the loop; an escaping callback that is a table lookup is not read (exit 2).",
    "C17": "Round 11: U1 as in C16.",
    "C18": "Round 11: E2 restart-ahead form: a `while idx != -1` loop driven by `text.find(sub, start)` must restart strictly after the previous hit on every path (schema.py and _filter.py).",
    "C19": "Round 11: named immutable value objects (NamedTuple constants, tuples of constants, constant tables) and immutable results kept at module level are not shared state; a module-level writer / cache object still is.",
}

EXTRA4 = {   # round 10 (DESIGN.md section 0h)
    "C01": "Round 10: W25 value classes compare by their fields; W26 overrides keep the parameters callers pass by keyword; D5 every dispatch-table key is the tag number of exactly one message class.",
    "C03": "Round 10: enum.auto() is numbered from the member before it, so B12 compares auto-numbered result codes with the RFC's.",
    "C05": "Round 10: an enum `_missing_` hook that can return a non-member makes the conversion raise TypeError.",
    "C06": "Round 10: `_missing_` hooks as in C05; truth hooks inherited through the MRO.",
    "C07": "Round 10: S13 the `tag` parameter of read_* defaults to None; S11 accepts an unsigned read of the magnitude when the sign is handled by hand.",
    "C09": "Round 10: N8 dispatch entries are owned by a message class.",
    "C11": "Round 10: M3 values compare by their fields; M4 data_to_send() defaults to everything; A6 sees __len__ / __bool__ inherited from a mixin.",
    "C12": "Round 10: D8 the amount parameter defaults to None.",
    "C13": "Round 10: J23 filters compare by their fields; J24 every RFC 4512 name is accepted by the pattern the parser validates with.",
    "C15": "Round 10: F10 FilterSyntaxError is a ValueError.",
    "C16": "Round 10: H21 definitions compare by their fields; H22 defaults are the kind of collection the parser stores.",
    "C19": "Round 10: I10 coding does not write to its options.",
}

NOT_APPLICABLE = {
    "C14": "agreement of a hand-written offset-arithmetic parser with the RFC 4515 grammar on every sentence is semantic "
           "equivalence over unbounded strings; no sound static argument in reach decides it (lexical pieces are checked under C13/C15)",
}

PENDING_REASON = "checker not built yet in this session (static-analysis plan in DESIGN.md); listed here until it is registered"


def seed_summary() -> str:
    """Counts taken from the recorded matrix (seeded/*/meta.json, written by tools/seedmatrix.py)."""
    import glob
    rows = [json.load(open(p_)) for p_ in sorted(glob.glob(os.path.join(VERIF, "seeded", "*", "meta.json")))]
    ben = [m for m in rows if str(m.get("property", "")).startswith(("none", "benign"))]
    brk = [m for m in rows if m not in ben]
    det = [m for m in brk if m.get("detected_by")]
    own = [m for m in brk if any(c in str(m.get("property")) for c in m.get("detected_by", {}))]
    missed = [m["id"] for m in brk if not m.get("detected_by")]
    b_viol = [m["id"] for m in ben if m.get("detected_by")]
    b_err = [m["id"] for m in ben if m.get("analysis_errors") and not m.get("detected_by")]
    silent = len(ben) - len(b_viol) - len(b_err)
    unconf = [m["id"] for m in rows if not m.get("confirmed")]
    return (f"{len(rows)} seeded variants are kept under /verif/seeded (rounds of independent sub-agents that saw only the property text and a scratch worktree, hand-written twins, and the 18 reverts "
            f"of fix commits){'' if not unconf else ' - not confirmed: ' + ', '.join(unconf)}: {len(brk)} property-breaking, {len(det)} reported by at least one check ({len(own)} by the check of the property "
            f"they were written against; not reported: {', '.join(missed) if missed else 'none'}); {len(ben)} behaviour-preserving, {silent} silent in every check, {len(b_err)} an ANALYSIS-ERROR "
            f"(exit 2, no verdict) in the checks whose extractor cannot follow them ({', '.join(b_err) if b_err else 'none'}), "
            f"{len(b_viol)} with a VIOLATION{' (' + ', '.join(b_viol) + ')' if b_viol else ''}.")


def main():
    props = [json.loads(l)["id"] for l in open(os.path.join(VERIF, "properties.jsonl"))]
    checks = []
    for pid in props:
        if pid not in CHECKS:
            continue
        c = dict(CHECKS[pid])
        if pid in EXTRA:
            c["text"] = c["text"] + " " + EXTRA[pid]
        if pid in EXTRA2:
            c["text"] = c["text"] + " " + EXTRA2[pid]
        if pid in EXTRA3:
            c["text"] = c["text"] + " " + EXTRA3[pid]
        if pid in EXTRA4:
            c["text"] = c["text"] + " " + EXTRA4[pid]
        if pid in EXTRA5:
            c["text"] = c["text"] + " " + EXTRA5[pid]
        checks.append({
            "property_id": pid,
            "quick_cmd": f"/venv/bin/python sa/run.py {pid} --tier quick",
            "thorough_cmd": f"/venv/bin/python sa/run.py {pid} --tier thorough",
            "evidence_file": f"/verif/evidence/{pid}.json",
            "replay_cmd_template": "cat {path}",
            "engine": "sa",
            "level_claimed": {"category": "other", "text": c["text"], "design_ref": c["ref"]},
            "level_note": c["note"],
            "technique": c["technique"],
        })
    na = []
    for pid in props:
        if pid in CHECKS:
            continue
        na.append({"property_id": pid, "reason": NOT_APPLICABLE.get(pid, PENDING_REASON)})
    man = {
        "version": 1,
        "setup_cmd": "true",
        "hooks": {
            "guard": "SANSLDAP_VERIF",
            "enable": "none: static analysis reads /repo/src/sansldap from disk on every run; no hook or instrumentation exists",
            "baseline_off_cmd": "cd /repo && /venv/bin/python -m pytest -ra -q -p no:cacheprovider --timeout=900 --continue-on-collection-errors",
            "source_commits": [],
            "add_only": True,
        },
        "engines": [
            {"name": "sa", "path": "/verif/sa", "serves_properties": sorted(CHECKS),
             "kind_free_text": "repository-specific static analyses over the Python AST (stdlib ast only; sansldap is never imported or executed)"},
        ],
        "checks": checks,
        "not_applicable": na,
        "notes": "All checks are static analyses of /repo's working tree (sansldap is never imported or executed). Exit 0 held / 1 VIOLATION / "
                 "2 ANALYSIS-ERROR (the analysis could not classify a construct it needs; never a verdict). The rules are exhaustive over the code, so the "
                 "thorough tier evaluates the same rules and additionally exercises the checker itself on every seeded variant under /verif/seeded (breaking "
                 "variants it is recorded to report, behaviour-preserving variants it must stay silent on), each applied to a scratch copy of the current working "
                 "tree; that self-test is written to the evidence and never changes the verdict. 18 genuine defects were repaired by fix: commits in /repo "
                 "(6de8880..7a61bad; F15 was found by the C17 typestate analysis, F16 after Engine C's codec catalogue was corrected) and 2 are known findings "
                 "pinned by tests; see /verif/known_findings.txt and DESIGN.md sections 0-0i, 2 and 10. " + seed_summary(),
    }
    with open(os.path.join(VERIF, "MANIFEST.json"), "w") as f:
        json.dump(man, f, indent=1)
    print("checks:", [c["property_id"] for c in checks], "n/a:", [n["property_id"] for n in na])


if __name__ == "__main__":
    main()
