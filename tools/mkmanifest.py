#!/venv/bin/python
"""Regenerates /verif/MANIFEST.json from the table below (keeps it valid and consistent)."""
import json
import os

VERIF = os.path.dirname(os.path.dirname(os.path.abspath(__file__)))

CHECKS = {
    "C02": dict(
        technique="structural lemmas on the AST + path-sensitive effect extraction of receive (typestate engine)",
        text="Decides the five code-shape lemmas from which chunking independence follows by induction (the induction is on paper): L1/L2 a reader "
             "advances only after validation and by exactly header+content, T1 no upper-bounded slice of the input without a dominating length fact, "
             "L3 residue discipline on every extracted path of receive, L4 decode-order append and an independent processing loop, L5 copy-out. "
             "Necessary conditions; value equality across chunkings is not decided.",
        note="Trusted: Python slicing/bytes semantics; the induction over chunks; receive keeps today's two-phase shape (an early return that is not "
             "'no new data' is reported).",
        ref="DESIGN.md section 5 C02"),
    "C05": dict(
        technique="inter-procedural may-raise analysis with guard-fact discharge + typestate paths + constant folding of the notification",
        text="Decides that the set of exception classes that can leave LDAPSession/LDAPClient/LDAPServer.receive is {ProtocolError}: explicit raises, a "
             "catalogue of implicit raisers (index, key, struct, codec, enum conversion, tuple unpacking, None attribute, byte range) each discharged by "
             "dominating guard facts or reported, class-hierarchy call resolution, recursion cycles; plus closure (every ProtocolError path ends CLOSED) "
             "and well-formed construction of the attached unbind / notice of disconnection, including encodability of the error text.",
        note="Sound over-approximation for the constructs catalogued; user-registered types are outside the claim; len() <= sys.maxsize; CPython's "
             "UnicodeDecodeError/ValueError message texts are ASCII.",
        ref="DESIGN.md section 5 C05, Appendix D"),
    "C06": dict(
        technique="exception-provenance dataflow (which reader a NotEnougData was raised on) over the resolved call graph",
        text="Decides that every NotEnougData reaching a 'wait for more bytes' handler in receive was raised by a read on the stream-level reader itself, "
             "which by L1/L2 (also checked) has not advanced; interior readers' NotEnougData must be converted before. Also: no early return with "
             "pending bytes, stream reader used only for validated reads.",
        note="Trusted: the counting argument from the lemmas to the property; receive's decode loop shape.",
        ref="DESIGN.md section 5 C06"),
    "C07": dict(
        technique="integer-interval and guard-fact analysis of asn1.py + writer/reader constant agreement",
        text="PARTIAL by design: decides (a) totality/range safety of the BER primitives (every subscript in range, every bytearray store in 0..255, "
             "struct.unpack fed one octet), (b) no over-consumption / no silent clamping, (c) agreement of the bit-field constants the writer and reader "
             "use (tag-form threshold 31, length-form threshold 128, 7-bit continuation, class/constructed bit positions, boolean octets). The arithmetic "
             "equalities of the property (minimal two's complement, denoted value) are NOT decided: no sound static argument in reach.",
        note="Caller preconditions on user-supplied tags (class in 0..3, number >= 0) are assumed for the writer; the library's own tags are checked constant under C05.",
        ref="DESIGN.md section 5 C07"),
    "C08": dict(
        technique="static typestate/effect extraction (path-sensitive abstract interpretation of _session.py over the AST)",
        text="Decides the lifecycle machine on the extracted transition relation: every path of every public entry of the three "
             "session classes from each pre-state is enumerated from the source (self/super calls inlined through the MRO) and "
             "rules R1-R12 (CLOSED absorbing, BINDING entry/exit/gate, closing events, refused sends keep the state, only "
             "documented transitions) are checked on all of them.",
        note="Trusted: Python semantics of the interpreted constructs; loops analysed for 0/1 iteration (rules are per effect); "
             "calls leaving _session.py are opaque and may raise. BEFORE_OPEN => empty id sets is itself checked (I0).",
        ref="DESIGN.md section 5 C08, Appendix C"),
    "C09": dict(
        technique="typestate path summaries + who-may-write census of the message counter",
        text="Decides counter discipline (only += positive literal), stamping (id read from the counter is the id in the bytes, the id returned and the id "
             "recorded outstanding, recorded only after the send), and the acceptance/rejection table of incoming messages by (class, id in search set, "
             "id in outstanding set) on every extracted path; implicit KeyError paths are discharged by the inductive invariant search <= outstanding.",
        note="Same trusted base as C08.",
        ref="DESIGN.md section 5 C09"),
    "C10": dict(
        technique="effect-ordering rules on typestate path summaries",
        text="Decides on every path of every sending entry: a path that raises (refusal, encoding failure, implicit KeyError) has queued no bytes (E1), "
             "refusals are LDAPError (E2), every server response is queued under a live fact that its id is outstanding (E3), final responses retire the id (E4).",
        note="Same trusted base as C08; exceptions from encoding caller-supplied values are argument errors covered by E1 only.",
        ref="DESIGN.md section 5 C10"),
    "C11": dict(
        technique="sibling cross-check of send-side and receive-side path summaries",
        text="NECESSARY CONDITION ONLY: mirror agreement of state successor and outstanding/search set changes between the sender and the receiver of each of "
             "12 message kinds. Joint histories, delivery schedules and value equality across the pipe are not decided (other technique families).",
        note="Same trusted base as C08; precondition that responses match their request kind, as in the property.",
        ref="DESIGN.md section 5 C11"),
    "C12": dict(
        technique="who-may-write census + path enumeration of the drain function with versioned locals",
        text="Decides structurally: the outgoing buffer's writers are __init__, the send path (append of pack(msg) only) and the drain; on every path of the drain "
             "the returned bytes and the retained buffer are complementary slices at the same cut value; draining touches nothing else; bytes are appended iff the send succeeds.",
        note="Recognised drain shapes: prefix/suffix slices, or a read offset with cut-consistent retention; any other design is an ANALYSIS-ERROR, not a verdict.",
        ref="DESIGN.md section 5 C12"),
    "C15": dict(
        technique="may-raise analysis + dimension typing of offsets + guard dataflow (+ regular-language inclusion)",
        text="Decides totality of LDAPFilter.from_string up to the listed undecided window-index sites (escape set is FilterSyntaxError), a dimension discipline "
             "(absolute position vs relative extent) on every FilterSyntaxError and recursive call, and that every attribute/rule reaching a constructor passed the "
             "attribute pattern, whose language is compared with RFC 4512 by automata inclusion. Round trip of accepted results is not decided.",
        note="IndexError on the scanners' window view needs relational offset arithmetic and is listed as undecided in the evidence, never alarmed.",
        ref="DESIGN.md section 5 C15"),
    "C18": dict(
        technique="automata-theoretic ambiguity analysis of every regular expression recovered by constant folding",
        text="Decides for all regular expressions of the package (10 distinct, 12 use sites): no exponential ambiguity with a constructed failing witness family "
             "(product-SCC criterion on the position multigraph with sre's empty-iteration rule); structural progress of the hand-written scanner loops and no "
             "re-parse-on-failure. Wall-clock constants and exact polynomial degree are not decided.",
        note="Trusted: re._parser as the dialect; the backtracking cost model (number of distinct runs). Patterns are never compiled or matched.",
        ref="DESIGN.md section 5 C18, section 4 Engine E"),
}

NOT_APPLICABLE = {
    "C14": "agreement of a hand-written offset-arithmetic parser with the RFC 4515 grammar on every sentence is semantic "
           "equivalence over unbounded strings; no sound static argument in reach decides it (lexical pieces are checked under C13/C15)",
}

PENDING_REASON = "checker not built yet in this session (static-analysis plan in DESIGN.md); listed here until it is registered"


def main():
    props = [json.loads(l)["id"] for l in open(os.path.join(VERIF, "properties.jsonl"))]
    checks = []
    for pid in props:
        if pid not in CHECKS:
            continue
        c = CHECKS[pid]
        checks.append({
            "property_id": pid,
            "quick_cmd": f"/venv/bin/python sa/run.py {pid} --tier quick",
            "thorough_cmd": f"/venv/bin/python sa/run.py {pid} --tier thorough",
            "evidence_file": f"/verif/evidence/{pid}.json",
            "replay_cmd_template": "cat {path}",
            "engine": "sa",
            "level_claimed": {"category": "other", "text": c["text"], "design_ref": c["ref"]},
            "level_note": c["note"],
            "technique": c["technique"],
        })
    na = []
    for pid in props:
        if pid in CHECKS:
            continue
        na.append({"property_id": pid, "reason": NOT_APPLICABLE.get(pid, PENDING_REASON)})
    man = {
        "version": 1,
        "setup_cmd": "true",
        "hooks": {
            "guard": "SANSLDAP_VERIF",
            "enable": "none: static analysis reads /repo/src/sansldap from disk on every run; no hook or instrumentation exists",
            "baseline_off_cmd": "cd /repo && /venv/bin/python -m pytest -ra -q -p no:cacheprovider --timeout=900 --continue-on-collection-errors",
            "source_commits": [],
            "add_only": True,
        },
        "engines": [
            {"name": "sa", "path": "/verif/sa", "serves_properties": sorted(CHECKS),
             "kind_free_text": "repository-specific static analyses over the Python AST (stdlib ast only; sansldap is never imported or executed)"},
        ],
        "checks": checks,
        "not_applicable": na,
        "notes": "All checks are static analyses of /repo's working tree. Exit 0 held / 1 VIOLATION / 2 ANALYSIS-ERROR. "
                 "Genuine defects found are repaired by fix: commits in /repo or listed in /verif/known_findings.txt.",
    }
    with open(os.path.join(VERIF, "MANIFEST.json"), "w") as f:
        json.dump(man, f, indent=1)
    print("checks:", [c["property_id"] for c in checks], "n/a:", [n["property_id"] for n in na])


if __name__ == "__main__":
    main()
