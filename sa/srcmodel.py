"""Source model of /repo/src/sansldap (Engine A).

Parses every module of the package on each run and builds module, class and
function tables with resolved imports, bases, C3 MRO and dataclass fields.
Nothing is imported from sansldap; everything comes from the AST.
"""
from __future__ import annotations

import ast
import copy
import hashlib
import os
from dataclasses import dataclass, field
from typing import Dict, List, Optional, Set, Tuple

REPO = os.environ.get("SANSLDAP_REPO", "/repo")
PKG = "sansldap"


class AnalysisError(Exception):
    """The analysis cannot classify something it needs (exit 2, never 0/1)."""


@dataclass
class FieldInfo:
    name: str
    annotation: Optional[ast.expr]
    default: Optional[ast.expr]          # plain default expression
    default_factory: Optional[ast.expr]  # dataclasses.field(default_factory=...)
    init: bool
    owner: str                           # qualname of defining class
    lineno: int


@dataclass
class FuncInfo:
    qualname: str
    name: str
    module: str
    cls: Optional[str]
    node: ast.AST                        # FunctionDef or Lambda
    decorators: List[str] = field(default_factory=list)

    @property
    def lineno(self) -> int:
        return self.node.lineno

    @property
    def is_classmethod(self) -> bool:
        return "classmethod" in self.decorators

    @property
    def is_staticmethod(self) -> bool:
        return "staticmethod" in self.decorators

    def params(self) -> List[str]:
        a = self.node.args
        return [x.arg for x in a.posonlyargs + a.args + a.kwonlyargs]


@dataclass
class ClassInfo:
    qualname: str
    name: str
    module: str
    node: ast.ClassDef
    bases: List[str] = field(default_factory=list)     # resolved qualnames (or external dotted names)
    mro: List[str] = field(default_factory=list)
    methods: Dict[str, FuncInfo] = field(default_factory=dict)
    consts: Dict[str, ast.expr] = field(default_factory=dict)   # class-level NAME = expr
    annos: Dict[str, ast.AnnAssign] = field(default_factory=dict)
    aliases: Dict[str, str] = field(default_factory=dict)       # read_set_of = read_set
    is_dataclass: bool = False
    dataclass_frozen: bool = False
    is_enum: bool = False


@dataclass
class ModuleInfo:
    name: str
    path: str
    source: str
    tree: ast.Module
    imports: Dict[str, str] = field(default_factory=dict)   # local name -> dotted target
    globals_: Dict[str, List[ast.stmt]] = field(default_factory=dict)  # name -> assigning stmts


class Model:
    def __init__(self, repo: str = REPO):
        self.repo = repo
        self.src = os.path.join(repo, "src", PKG)
        self.modules: Dict[str, ModuleInfo] = {}
        self.classes: Dict[str, ClassInfo] = {}
        self.functions: Dict[str, FuncInfo] = {}
        self._load()

    # ------------------------------------------------------------------ load
    def _load(self) -> None:
        if not os.path.isdir(self.src):
            raise AnalysisError(f"package directory {self.src} not found")
        h = hashlib.sha256()
        parsed = []
        for fn in sorted(os.listdir(self.src)):
            if not fn.endswith(".py"):
                continue
            path = os.path.join(self.src, fn)
            with open(path, "r", encoding="utf-8") as f:
                source = f.read()
            h.update(fn.encode() + b"\0" + source.encode() + b"\0")
            modname = PKG if fn == "__init__.py" else f"{PKG}.{fn[:-3]}"
            try:
                tree = ast.parse(source, filename=path)
            except SyntaxError as e:  # a tree that does not compile is not analysable
                raise AnalysisError(f"{path}: syntax error {e}")
            parsed.append((modname, path, source, tree))
        from .canon import canonicalise
        self.canonical = canonicalise(parsed)
        self.flattened = self._flatten_private_imports(parsed)
        from .desugar import desugar_module, exported_generators
        # generator helpers one module imports from another are expanded like its own, provided every global name their code
        # mentions means the same thing in the importing module
        def import_table(modname, tree):
            tab = {}
            for node in tree.body:
                if isinstance(node, ast.ImportFrom):
                    base = self._abs_module(modname, node.module, node.level)
                    for a in node.names:
                        tab[a.asname or a.name] = f"{base}.{a.name}"
                elif isinstance(node, ast.Import):
                    for a in node.names:
                        tab[a.asname or a.name.split(".")[0]] = a.name if a.asname else a.name.split(".")[0]
                elif isinstance(node, (ast.FunctionDef, ast.AsyncFunctionDef, ast.ClassDef)):
                    tab[node.name] = f"{modname}.{node.name}"
                elif isinstance(node, (ast.Assign, ast.AnnAssign, ast.AugAssign)):
                    for name in self._targets(node):
                        tab[name] = f"{modname}.{name}"
            return tab
        tables = {modname: import_table(modname, tree) for modname, _p, _s, tree in parsed}
        exports = {modname: exported_generators(copy.deepcopy(tree)) for modname, _p, _s, tree in parsed}
        for modname, path, source, tree in parsed:
            foreign = {}
            for node in tree.body:
                if isinstance(node, ast.ImportFrom):
                    base = self._abs_module(modname, node.module, node.level)
                    for a in node.names:
                        gen = exports.get(base, {}).get(a.name)
                        if gen is None:
                            continue
                        fn, free = gen
                        if all(tables[modname].get(nm) == tables[base].get(nm) and tables[base].get(nm) is not None for nm in free):
                            foreign[a.asname or a.name] = fn
            counts = desugar_module(tree, foreign)
            self.desugared = getattr(self, "desugared", {})
            if any(counts.values()):
                self.desugared[modname] = {k: v for k, v in counts.items() if v}
            self.modules[modname] = ModuleInfo(modname, path, source, tree)
        self.digest = "sha256:" + h.hexdigest()
        for m in self.modules.values():
            self._scan_module(m)
        for c in self.classes.values():
            self._resolve_bases(c)
        for c in self.classes.values():
            c.mro = self._c3(c.qualname)
            c.is_enum = any(b.split(".")[-1] in ("Enum", "IntEnum", "Flag", "IntFlag") for b in c.mro)

    def _flatten_private_imports(self, parsed) -> Dict[str, List[str]]:
        """Private helpers one module imports from another (`from ._util import _is_context_tag`, a helper moved next to the code
        it belongs with) are copied into the importing module's tree, with the module-level names they use: every analysis that
        follows a helper within a module then follows these too.  Only functions and plain assignments are copied - never
        classes (their identity matters) - and only when every name they mention can mean the same thing in the importing
        module.  Copies keep the line numbers of the defining module."""
        import builtins
        trees = {m: t for m, _p, _s, t in parsed}
        defs: Dict[str, Dict[str, ast.stmt]] = {}
        classes: Dict[str, Set[str]] = {}
        raw: Dict[str, Dict[str, tuple]] = {}
        helper: Dict[str, bool] = {}
        for m, t in trees.items():
            d: Dict[str, ast.stmt] = {}
            counts: Dict[str, int] = {}
            cl: Set[str] = set()
            rw: Dict[str, tuple] = {}
            for n in t.body:
                if isinstance(n, (ast.FunctionDef, ast.AsyncFunctionDef)):
                    counts[n.name] = counts.get(n.name, 0) + 1
                    d[n.name] = n
                elif isinstance(n, ast.ClassDef):
                    cl.add(n.name)
                    counts[n.name] = counts.get(n.name, 0) + 1
                elif isinstance(n, (ast.Assign, ast.AnnAssign, ast.AugAssign)):
                    for nm in self._targets(n):
                        counts[nm] = counts.get(nm, 0) + 1
                        if isinstance(n, (ast.Assign, ast.AnnAssign)) and n.value is not None and \
                                (len(n.targets) == 1 and isinstance(n.targets[0], ast.Name) if isinstance(n, ast.Assign) else isinstance(n.target, ast.Name)):
                            d[nm] = n
                elif isinstance(n, ast.ImportFrom):
                    base = self._abs_module(m, n.module, n.level)
                    for a in n.names:
                        rw[a.asname or a.name] = ("from", base, a.name)
                elif isinstance(n, ast.Import):
                    for a in n.names:
                        rw[a.asname or a.name.split(".")[0]] = ("import", a.name, a.asname)
            defs[m] = {k: v for k, v in d.items() if counts.get(k) == 1}
            classes[m] = cl
            raw[m] = rw
            helper[m] = m != PKG and not any(not c.startswith("_") for c in cl)

        def free_names(node: ast.stmt) -> Set[str]:
            if isinstance(node, (ast.FunctionDef, ast.AsyncFunctionDef)):
                a = node.args
                local = {x.arg for x in a.posonlyargs + a.args + a.kwonlyargs} | ({a.vararg.arg} if a.vararg else set()) | ({a.kwarg.arg} if a.kwarg else set())
                local |= {x.id for x in ast.walk(node) if isinstance(x, ast.Name) and isinstance(x.ctx, (ast.Store, ast.Del))}
                local |= {x.name for x in ast.walk(node) if isinstance(x, (ast.FunctionDef, ast.AsyncFunctionDef, ast.ClassDef)) and x is not node}
                local |= {y.arg for x in ast.walk(node) if isinstance(x, ast.Lambda) for y in x.args.args}
                local |= {x.name for x in ast.walk(node) if isinstance(x, ast.ExceptHandler) and x.name}
                if any(isinstance(x, (ast.Global, ast.Nonlocal)) for x in ast.walk(node)):
                    return {"<global>"}
                return {x.id for x in ast.walk(node) if isinstance(x, ast.Name) and isinstance(x.ctx, ast.Load)} - local
            val = node.value
            return {x.id for x in ast.walk(val) if isinstance(x, ast.Name)} | \
                   ({x.id for x in ast.walk(node.annotation) if isinstance(x, ast.Name)} if isinstance(node, ast.AnnAssign) else set())

        done: Dict[str, List[str]] = {}
        for T, tree in trees.items():
            bound = set(defs[T]) | classes[T] | set(raw[T]) | {nm for n in tree.body if isinstance(n, (ast.Assign, ast.AnnAssign, ast.AugAssign)) for nm in self._targets(n)}
            for node in list(tree.body):
                if not isinstance(node, ast.ImportFrom):
                    continue
                M = self._abs_module(T, node.module, node.level)
                if M not in trees or M == T:
                    continue
                for alias in list(node.names):
                    n = alias.name
                    if alias.asname not in (None, n) or n not in defs[M] or not (n.startswith("_") or helper[M]):
                        continue
                    if isinstance(defs[M][n], (ast.FunctionDef, ast.AsyncFunctionDef)) and defs[M][n].decorator_list and \
                            [ast.unparse(d_).split(".")[-1] for d_ in defs[M][n].decorator_list] != ["contextmanager"]:
                        continue
                    copy_names: List[str] = []
                    imports: Dict[str, tuple] = {}
                    ok = True
                    todo = [n]
                    while todo and ok:
                        x = todo.pop()
                        if x in copy_names:
                            continue
                        copy_names.append(x)
                        for r in sorted(free_names(defs[M][x])):
                            if hasattr(builtins, r) or r in copy_names:
                                continue
                            if r in defs[M]:
                                if r.startswith("_") or helper[M] or not isinstance(defs[M][r], (ast.FunctionDef, ast.AsyncFunctionDef)):
                                    todo.append(r)
                                else:
                                    imports[r] = ("from", M, r)
                            elif r in classes[M]:
                                imports[r] = ("from", M, r)
                            elif r in raw[M]:
                                imports[r] = raw[M][r]
                            else:
                                ok = False
                    # every name brought along must be free in T or already mean the same thing there
                    for x in copy_names:
                        if x != n and x in bound and raw[T].get(x) != ("from", M, x):
                            ok = False
                    for r, org in imports.items():
                        if r in bound and raw[T].get(r) != org:
                            ok = False
                    if not ok:
                        continue
                    node.names.remove(alias)
                    at = max((i for i, b in enumerate(tree.body) if isinstance(b, (ast.Import, ast.ImportFrom))), default=-1) + 1
                    new_nodes: List[ast.stmt] = []
                    for r, org in imports.items():
                        if r in bound:
                            continue
                        if org[0] == "from":
                            new_nodes.append(ast.ImportFrom(module=org[1], names=[ast.alias(name=org[2], asname=r if r != org[2] else None)], level=0))
                        else:
                            new_nodes.append(ast.Import(names=[ast.alias(name=org[1], asname=org[2])]))
                        raw[T][r] = org
                        bound.add(r)
                    for x in reversed(copy_names):
                        if x in bound and x != n:
                            # already imported from M under the same name: that import is replaced by the copy
                            for other in tree.body:
                                if isinstance(other, ast.ImportFrom) and self._abs_module(T, other.module, other.level) == M:
                                    other.names = [a_ for a_ in other.names if (a_.asname or a_.name) != x]
                        new_nodes.append(copy.deepcopy(defs[M][x]))
                        defs[T][x] = new_nodes[-1]
                        raw[T].pop(x, None)
                        bound.add(x)
                    for nn in new_nodes:
                        if not hasattr(nn, "lineno"):
                            ast.copy_location(nn, node)
                        ast.fix_missing_locations(nn)
                    tree.body[at:at] = new_nodes
                    done.setdefault(T, []).append(f"{M}.{n}")
            tree.body[:] = [b for b in tree.body if not (isinstance(b, ast.ImportFrom) and not b.names)]
        return done

    def _scan_module(self, m: ModuleInfo) -> None:
        # imports made for the type checker only (`if t.TYPE_CHECKING: from ._messages import PackingOptions`) name what the annotations
        # of this module mean: they resolve like any other import (nothing here runs code, so the cycle they avoid does not exist)
        tc_imports = [x for node in m.tree.body if isinstance(node, ast.If) and "TYPE_CHECKING" in ast.unparse(node.test) for x in node.body
                      if isinstance(x, (ast.Import, ast.ImportFrom))]
        for node in list(m.tree.body) + tc_imports:
            if isinstance(node, ast.Import):
                for a in node.names:
                    m.imports[a.asname or a.name.split(".")[0]] = a.name if a.asname else a.name.split(".")[0]
            elif isinstance(node, ast.ImportFrom):
                base = self._abs_module(m.name, node.module, node.level)
                for a in node.names:
                    m.imports[a.asname or a.name] = f"{base}.{a.name}"
            elif isinstance(node, ast.ClassDef):
                self._scan_class(m, node)
            elif isinstance(node, (ast.FunctionDef, ast.AsyncFunctionDef)):
                q = f"{m.name}.{node.name}"
                self.functions[q] = FuncInfo(q, node.name, m.name, None, node, self._decos(node))
            elif isinstance(node, (ast.Assign, ast.AnnAssign, ast.AugAssign)):
                for name in self._targets(node):
                    m.globals_.setdefault(name, []).append(node)

    @staticmethod
    def _abs_module(cur: str, module: Optional[str], level: int) -> str:
        if level == 0:
            return module or ""
        parts = cur.split(".")
        # modules are PKG or PKG.x; level 1 => package PKG
        pkg = parts[: max(1, len(parts) - 1)] if len(parts) > 1 else parts
        for _ in range(level - 1):
            pkg = pkg[:-1]
        return ".".join(pkg + ([module] if module else []))

    @staticmethod
    def _targets(node: ast.stmt) -> List[str]:
        out: List[str] = []
        tgts = node.targets if isinstance(node, ast.Assign) else [node.target]
        for t in tgts:
            for n in ast.walk(t):
                if isinstance(n, ast.Name):
                    out.append(n.id)
        return out

    @staticmethod
    def _decos(node) -> List[str]:
        out = []
        for d in node.decorator_list:
            f = d.func if isinstance(d, ast.Call) else d
            out.append(ast.unparse(f).split(".")[-1])
        return out

    def _scan_class(self, m: ModuleInfo, node: ast.ClassDef) -> None:
        q = f"{m.name}.{node.name}"
        c = ClassInfo(q, node.name, m.name, node)
        for d in node.decorator_list:
            f = d.func if isinstance(d, ast.Call) else d
            if ast.unparse(f).split(".")[-1] == "dataclass":
                c.is_dataclass = True
                if isinstance(d, ast.Call):
                    for kw in d.keywords:
                        if kw.arg == "frozen" and isinstance(kw.value, ast.Constant):
                            c.dataclass_frozen = bool(kw.value.value)
        body = list(node.body)
        # declarations for the type checker only (`if TYPE_CHECKING: names: List[str]`) tell what the attributes are
        for st in node.body:
            if isinstance(st, ast.If) and "TYPE_CHECKING" in ast.unparse(st.test):
                body += [x for x in st.body if isinstance(x, ast.AnnAssign) and x.value is None]
        for st in body:
            if isinstance(st, (ast.FunctionDef, ast.AsyncFunctionDef)):
                fq = f"{q}.{st.name}"
                fi = FuncInfo(fq, st.name, m.name, q, st, self._decos(st))
                c.methods[st.name] = fi
                self.functions[fq] = fi
            elif isinstance(st, ast.Assign) and len(st.targets) == 1 and isinstance(st.targets[0], ast.Name):
                nm = st.targets[0].id
                c.consts[nm] = st.value
                if isinstance(st.value, ast.Name):
                    c.aliases[nm] = st.value.id
            elif isinstance(st, ast.AnnAssign) and isinstance(st.target, ast.Name):
                c.annos[st.target.id] = st
                if st.value is not None:
                    c.consts[st.target.id] = st.value
        self.classes[q] = c
        m.globals_.setdefault(node.name, []).append(node)

    def _resolve_bases(self, c: ClassInfo) -> None:
        for b in c.node.bases:
            c.bases.append(self.resolve_name(c.module, ast.unparse(b)) or ast.unparse(b))

    def _c3(self, q: str) -> List[str]:
        c = self.classes.get(q)
        if c is None:
            return [q]
        seqs = [self._c3(b) for b in c.bases] + [list(c.bases)]
        res = [q]
        seqs = [s for s in seqs if s]
        while seqs:
            for s in seqs:
                head = s[0]
                if not any(head in t[1:] for t in seqs):
                    break
            else:
                raise AnalysisError(f"inconsistent MRO for {q}")
            res.append(head)
            seqs = [[x for x in s if x != head] for s in seqs]
            seqs = [s for s in seqs if s]
        return res

    # --------------------------------------------------------------- queries
    def resolve_name(self, module: str, dotted: str) -> Optional[str]:
        """Resolve a dotted name used in `module` to a qualified name of the
        package (class/function/global) or an external dotted name."""
        m = self.modules[module]
        head, _, rest = dotted.partition(".")
        if f"{module}.{head}" in self.classes or f"{module}.{head}" in self.functions:
            base = f"{module}.{head}"
        elif head in m.imports:
            base = m.imports[head]
            # follow re-exports one level (sansldap.X -> defining module)
            seen = set()
            while base not in self.classes and base not in self.functions and base not in self.modules:
                mod, _, nm = base.rpartition(".")
                if mod in self.modules and nm in self.modules[mod].imports and base not in seen:
                    seen.add(base)
                    base = self.modules[mod].imports[nm]
                else:
                    break
        elif head in m.globals_:
            base = f"{module}.{head}"
        else:
            return None
        return f"{base}.{rest}" if rest else base

    def cls(self, q: str) -> ClassInfo:
        if q not in self.classes:
            raise AnalysisError(f"anchor class {q} not found")
        return self.classes[q]

    def func(self, q: str) -> FuncInfo:
        if q not in self.functions:
            raise AnalysisError(f"anchor function {q} not found")
        return self.functions[q]

    def find_method(self, cls_q: str, name: str, after: Optional[str] = None) -> Optional[FuncInfo]:
        """Method lookup through the MRO of cls_q. With `after`, lookup starts
        after that class in the MRO (super())."""
        mro = self.classes[cls_q].mro if cls_q in self.classes else [cls_q]
        start = 0
        if after is not None:
            if after not in mro:
                return None
            start = mro.index(after) + 1
        for k in mro[start:]:
            c = self.classes.get(k)
            if c is None:
                continue
            if name in c.methods:
                return c.methods[name]
            if name in c.aliases and c.aliases[name] in c.methods:
                return c.methods[c.aliases[name]]
        return None

    def is_subclass(self, q: str, base: str) -> bool:
        c = self.classes.get(q)
        return c is not None and base in c.mro

    def subclasses(self, base: str, strict: bool = False) -> List[str]:
        return sorted(q for q, c in self.classes.items() if base in c.mro and (not strict or q != base))

    def class_const(self, cls_q: str, name: str) -> Optional[Tuple[str, ast.expr]]:
        """Class-level constant through the MRO: (owner, expr)."""
        for k in self.classes[cls_q].mro:
            c = self.classes.get(k)
            if c and name in c.consts:
                return k, c.consts[name]
        return None

    def dataclass_fields(self, cls_q: str) -> List[FieldInfo]:
        """Dataclass fields in definition order through the MRO (base first),
        later definitions replacing earlier ones in place (dataclasses rule).
        A plain (un-annotated) class attribute overrides only the default."""
        fields: Dict[str, FieldInfo] = {}
        for k in reversed(self.classes[cls_q].mro):
            c = self.classes.get(k)
            if c is None:
                continue
            if c.is_dataclass:
                for nm, an in c.annos.items():
                    if "ClassVar" in ast.unparse(an.annotation):
                        continue
                    fields[nm] = self._field_from(nm, an, k)
            for nm, val in c.consts.items():
                if nm in fields and nm not in c.annos:
                    f = fields[nm]
                    fields[nm] = FieldInfo(nm, f.annotation, val, None, f.init, k, getattr(val, "lineno", 0))
        return list(fields.values())

    @staticmethod
    def _field_from(nm: str, an: ast.AnnAssign, owner: str) -> FieldInfo:
        default = an.value
        factory = None
        init = True
        if isinstance(default, ast.Call) and ast.unparse(default.func).split(".")[-1] == "field":
            d = None
            for kw in default.keywords:
                if kw.arg == "default":
                    d = kw.value
                elif kw.arg == "default_factory":
                    factory = kw.value
                elif kw.arg == "init" and isinstance(kw.value, ast.Constant):
                    init = bool(kw.value.value)
            default = d
        return FieldInfo(nm, an.annotation, default, factory, init, owner, an.lineno)

    def relpath(self, module: str) -> str:
        return os.path.relpath(self.modules[module].path, self.repo)

    def loc(self, module: str, node: ast.AST) -> str:
        return f"{self.relpath(module)}:{getattr(node, 'lineno', 0)}"


def norm(node: ast.AST) -> str:
    """Normalised statement/expression text used in finding keys (never line numbers)."""
    try:
        s = ast.unparse(node)
    except Exception:
        s = repr(node)
    return " ".join(s.split())


def walk_no_nested(node: ast.AST):
    """ast.walk that does not descend into nested function/class/lambda bodies."""
    todo = list(ast.iter_child_nodes(node))
    while todo:
        n = todo.pop()
        yield n
        if isinstance(n, (ast.FunctionDef, ast.AsyncFunctionDef, ast.ClassDef, ast.Lambda)):
            continue
        todo.extend(ast.iter_child_nodes(n))


def _pos_lits(e: ast.expr) -> List[str]:
    if isinstance(e, ast.BoolOp) and isinstance(e.op, ast.And):
        return [x for v in e.values for x in _pos_lits(v)]
    if isinstance(e, ast.UnaryOp) and isinstance(e.op, ast.Not):
        return _neg_lits(e.operand)
    return [norm(e)]


def _neg_lits(e: ast.expr) -> List[str]:
    if isinstance(e, ast.BoolOp) and isinstance(e.op, ast.Or):
        return [x for v in e.values for x in _neg_lits(v)]
    if isinstance(e, ast.UnaryOp) and isinstance(e.op, ast.Not):
        return _pos_lits(e.operand)
    if isinstance(e, ast.Compare) and len(e.ops) == 1:
        flip = {ast.Is: "is not", ast.IsNot: "is", ast.Eq: "!=", ast.NotEq: "==", ast.In: "not in", ast.NotIn: "in"}
        for k, v in flip.items():
            if isinstance(e.ops[0], k):
                return [f"{norm(e.left)} {v} {norm(e.comparators[0])}"]
    return ["not " + norm(e)]


def _always_exits(body: List[ast.stmt]) -> bool:
    return bool(body) and isinstance(body[-1], (ast.Return, ast.Raise, ast.Continue, ast.Break))


def dominating_literals(func: ast.AST, target: ast.AST, include_loops: bool = True) -> List[str]:
    """Normalised conditions that hold whenever `target` executes: the tests of the enclosing if/while statements
    (negated in else-branches) and the negations of earlier guard clauses (`if T: return|raise|continue|break`) of the
    enclosing blocks; and/or/not are flattened by De Morgan, so `if a and not b:` and `if not a or b: return` give the
    same literals.  Reassignment of the tested names between test and target is not tracked."""
    found: List[str] = []

    def contains(n: ast.AST) -> bool:
        return any(x is target for x in ast.walk(n))

    def block(stmts: List[ast.stmt], lits: List[str]) -> bool:
        cur = list(lits)
        for s in stmts:
            if contains(s):
                return stmt(s, cur)
            if isinstance(s, ast.If) and not s.orelse and _always_exits(s.body):
                cur = cur + _neg_lits(s.test)
            elif isinstance(s, ast.If) and s.orelse and _always_exits(s.body) and not _always_exits(s.orelse):
                cur = cur + _neg_lits(s.test)
            elif isinstance(s, ast.If) and s.orelse and _always_exits(s.orelse) and not _always_exits(s.body):
                cur = cur + _pos_lits(s.test)
        return False

    def stmt(s: ast.stmt, lits: List[str]) -> bool:
        if s is target:
            found.extend(lits)
            return True
        if isinstance(s, ast.If):
            if any(x is target for x in ast.walk(s.test)):
                found.extend(lits)
                return True
            if any(contains(b) for b in s.body):
                return block(s.body, lits + _pos_lits(s.test))
            return block(s.orelse, lits + _neg_lits(s.test))
        if isinstance(s, ast.While):
            if any(contains(b) for b in s.body):
                return block(s.body, lits + (_pos_lits(s.test) if include_loops else []))
            return block(s.orelse, lits)
        for fld in ("body", "orelse", "finalbody"):
            sub = getattr(s, fld, None)
            if isinstance(sub, list) and sub and isinstance(sub[0], ast.stmt) and any(contains(b) for b in sub):
                return block(sub, lits)
        if isinstance(s, ast.Try):
            for h in s.handlers:
                if any(contains(b) for b in h.body):
                    return block(h.body, lits)
        # target is an expression inside this simple statement
        found.extend(lits)
        return True

    block(getattr(func, "body", []), [])
    return found


def reaching_constants(func_node: ast.AST) -> Dict[int, Dict[str, ast.expr]]:
    """id(statement) -> {local: constant expression} for locals whose value at that statement is the literal they were last
    assigned (straight-line reaching definitions; anything bound inside a compound statement is forgotten after it)."""
    out: Dict[int, Dict[str, ast.expr]] = {}

    def stores(stmts) -> Set[str]:
        return {x.id for s_ in stmts for x in ast.walk(s_) if isinstance(x, ast.Name) and isinstance(x.ctx, (ast.Store, ast.Del))}

    def block(stmts, env: Dict[str, ast.expr]) -> Dict[str, ast.expr]:
        env = dict(env)
        for s_ in stmts:
            out[id(s_)] = dict(env)
            if isinstance(s_, (ast.Assign, ast.AnnAssign)) and s_.value is not None:
                tg = s_.targets if isinstance(s_, ast.Assign) else [s_.target]
                for n in stores([s_]):
                    env.pop(n, None)
                if len(tg) == 1 and isinstance(tg[0], ast.Name) and isinstance(s_.value, ast.Constant):
                    env[tg[0].id] = s_.value
                continue
            if isinstance(s_, (ast.FunctionDef, ast.AsyncFunctionDef, ast.ClassDef)):
                continue
            subs = []
            for fld in ("body", "orelse", "finalbody"):
                sub = getattr(s_, fld, None)
                if isinstance(sub, list) and sub and isinstance(sub[0], ast.stmt):
                    subs.append(sub)
            for h in getattr(s_, "handlers", []) or []:
                subs.append(h.body)
            if subs:
                inner_env = dict(env)
                if isinstance(s_, (ast.For, ast.While, ast.AsyncFor)):
                    for n in stores([s_]):
                        inner_env.pop(n, None)         # a loop body may see values from its own earlier iterations
                for sub in subs:
                    block(sub, inner_env)
            for n in stores([s_]):
                env.pop(n, None)
        return env
    body = getattr(func_node, "body", [])
    if isinstance(body, list):
        block(body, {})
    return out


def enclosing_statement(func_node: ast.AST, target: ast.AST) -> Optional[ast.stmt]:
    """the innermost statement of func_node that contains `target`"""
    best = None
    for s_ in ast.walk(func_node):
        if isinstance(s_, ast.stmt) and any(x is target for x in ast.walk(s_)):
            if best is None or any(x is s_ for x in ast.walk(best)):
                best = s_
    return best


def attr_is_constructor_param(model: "Model", cls: str, attr: str) -> Optional[str]:
    """The __init__ parameter that self.<attr> is bound to, when that plain binding in __init__ is the only store to the
    attribute anywhere in the class and its bases; None otherwise."""
    stores = []
    ci0 = model.classes.get(cls)
    if ci0 is None:
        return None
    for c in ci0.mro:
        ci = model.classes.get(c)
        for m in (ci.methods.values() if ci else ()):
            for n in walk_no_nested(m.node):
                if isinstance(n, (ast.Assign, ast.AnnAssign, ast.AugAssign)):
                    for t_ in (n.targets if isinstance(n, ast.Assign) else [n.target]):
                        for x in ast.walk(t_):
                            if isinstance(x, ast.Attribute) and x.attr == attr and isinstance(x.value, ast.Name) and x.value.id == "self":
                                stores.append((m, n))
    if len(stores) != 1:
        return None
    m, n = stores[0]
    if m.name == "__init__" and isinstance(n, (ast.Assign, ast.AnnAssign)) and isinstance(n.value, ast.Name) and n.value.id in m.params()[1:] and \
            not any(isinstance(x, ast.Name) and x.id == n.value.id and isinstance(x.ctx, ast.Store) for x in walk_no_nested(m.node)):
        return n.value.id
    return None
