"""Canonical spelling of the parsed package, applied in memory before anything else reads the trees.

The engines were written against one spelling of things that carry no behaviour: how a module is imported, what a private
attribute is called, whether a module constant has an annotation, whether a type is written out or named by an alias, whether
a function says what it did to a logger.  Commits that change only those must not change a verdict, so each is brought
to one form here - and only where the rewrite is provably the same program:

  imports      `from struct import unpack` -> `struct.unpack`; `import typing` -> `import typing as t`;
               `from . import asn1` + `asn1.ASN1Reader` -> `from .asn1 import ASN1Reader` + `ASN1Reader`
  constants    `_MASK: t.Final = 0x7F` -> `_MASK = 0x7F` (module level only; class-level annotations are dataclass fields); a private
               module-level name for an int / str / bytes literal is read as the literal where it is used
  annotations  `X | None` -> `t.Optional[X]`, `list[X]` -> `t.List[X]`, `collections.abc.Callable` -> `t.Callable`; `isinstance(x, A | B)` ->
               `isinstance(x, (A, B))`
  aliases      `_BytesLike = t.Union[bytes, bytearray, memoryview]` used in an annotation -> the type written out, also when
               the alias lives in a sibling module
  logging      `_log.debug("...%d", len(x))` with `_log = logging.getLogger(...)`: logging never raises into its caller and
               formats lazily; what remains is the evaluation of the arguments and - for %s / %r / unknown formats - the
               `str()` / `repr()` of each argument the record may run
  classes      a class moved into a private module of its own and imported back into exactly one module is read in that module
  roles        private attributes found by what they are (the view ASN1Reader.__init__ makes with memoryview(), the buffer
               data_to_send() drains, ...) and given the name the rules use for them

Every rewrite is counted; `Model.canonical` carries the counts into the evidence files.  A rewrite whose side condition
fails (a name that would be captured, an alias bound twice) is simply not made: the engines then see the code as written
and say what they can about it.
"""
from __future__ import annotations

import ast
import copy
from typing import Dict, List, Optional, Set, Tuple

PKG = "sansldap"

# stdlib modules whose members the engines know by their qualified spelling, and the alias they expect the module under
STDLIB = {"struct": "struct", "enum": "enum", "dataclasses": "dataclasses", "re": "re", "functools": "functools", "itertools": "itertools",
          "operator": "operator", "base64": "base64", "contextlib": "contextlib", "typing": "t", "logging": "logging", "collections": "collections"}


def _bound_names(tree: ast.Module, skip: Optional[ast.AST] = None) -> Dict[str, int]:
    """How often each name is bound anywhere in the module (assignment, parameter, def, class, import, handler, loop ...)."""
    out: Dict[str, int] = {}

    def add(n: str) -> None:
        out[n] = out.get(n, 0) + 1

    for x in ast.walk(tree):
        if x is skip:
            continue
        if isinstance(x, ast.Name) and isinstance(x.ctx, (ast.Store, ast.Del)):
            add(x.id)
        elif isinstance(x, (ast.FunctionDef, ast.AsyncFunctionDef, ast.ClassDef)):
            add(x.name)
            if not isinstance(x, ast.ClassDef):
                a = x.args
                for p in a.posonlyargs + a.args + a.kwonlyargs + ([a.vararg] if a.vararg else []) + ([a.kwarg] if a.kwarg else []):
                    add(p.arg)
        elif isinstance(x, ast.Lambda):
            a = x.args
            for p in a.posonlyargs + a.args + a.kwonlyargs + ([a.vararg] if a.vararg else []) + ([a.kwarg] if a.kwarg else []):
                add(p.arg)
        elif isinstance(x, ast.ExceptHandler) and x.name:
            add(x.name)
        elif isinstance(x, (ast.Import, ast.ImportFrom)):
            for al in x.names:
                add(al.asname or al.name.split(".")[0])
        elif isinstance(x, (ast.Global, ast.Nonlocal)):
            for n in x.names:
                add(n)
        elif isinstance(x, ast.MatchAs) and x.name:
            add(x.name)
    return out


def _abs_module(cur: str, module: Optional[str], level: int) -> str:
    if level == 0:
        return module or ""
    parts = cur.split(".")
    pkg = parts[: max(1, len(parts) - 1)] if len(parts) > 1 else parts
    for _ in range(level - 1):
        pkg = pkg[:-1]
    return ".".join(pkg + ([module] if module else []))


class _Rename(ast.NodeTransformer):
    """Name loads -> an expression; Attribute chains `alias.X` -> a name."""

    def __init__(self, names: Dict[str, ast.expr], heads: Dict[str, Dict[str, str]]):
        self.names = names
        self.heads = heads
        self.n = 0

    def visit_Name(self, node: ast.Name):
        if isinstance(node.ctx, ast.Load) and node.id in self.names:
            self.n += 1
            return ast.copy_location(copy.deepcopy(self.names[node.id]), node)
        return node

    def visit_Attribute(self, node: ast.Attribute):
        if isinstance(node.value, ast.Name) and isinstance(node.value.ctx, ast.Load) and node.value.id in self.heads and node.attr in self.heads[node.value.id]:
            self.n += 1
            return ast.copy_location(ast.Name(id=self.heads[node.value.id][node.attr], ctx=node.ctx), node)
        return self.generic_visit(node)


def _imports(parsed, log: Dict[str, Dict[str, int]]) -> None:
    mods = {m for m, _p, _s, _t in parsed}
    top: Dict[str, Dict[str, ast.stmt]] = {}
    for m, _p, _s, tree in parsed:
        d: Dict[str, ast.stmt] = {}
        for n in tree.body:
            if isinstance(n, (ast.FunctionDef, ast.AsyncFunctionDef, ast.ClassDef)):
                d[n.name] = n
            elif isinstance(n, ast.Assign):
                for tg in n.targets:
                    if isinstance(tg, ast.Name):
                        d[tg.id] = n
            elif isinstance(n, ast.AnnAssign) and isinstance(n.target, ast.Name):
                d[n.target.id] = n
            elif isinstance(n, (ast.Import, ast.ImportFrom)):
                for al in n.names:
                    d[al.asname or al.name.split(".")[0]] = n
        top[m] = d
    for modname, _p, _s, tree in parsed:
        bound = _bound_names(tree)
        count = 0
        # -- `import typing` (or under another alias) -> `import typing as t`, the same for every STDLIB module
        for node in tree.body:
            if not isinstance(node, ast.Import):
                continue
            for al in node.names:
                want = STDLIB.get(al.name)
                have = al.asname or al.name
                if want is None or have == want or "." in al.name:
                    continue
                if bound.get(want, 0) or bound.get(have, 0) != 1:
                    continue
                r = _Rename({have: ast.Name(id=want, ctx=ast.Load())}, {})
                for b in tree.body:
                    r.visit(b)
                al.asname = want if want != al.name else None
                bound[want] = 1
                bound.pop(have, None)
                count += r.n
        # -- `from struct import unpack` -> `import struct` + `struct.unpack`
        add_imports: List[ast.stmt] = []
        for node in list(tree.body):
            if not (isinstance(node, ast.ImportFrom) and node.level == 0 and node.module in STDLIB):
                continue
            if node.module == "typing" or node.module == "types":
                pass
            want = STDLIB[node.module]
            mod_alias = next((al.asname or al.name for n2 in tree.body if isinstance(n2, ast.Import) for al in n2.names if al.name == node.module), None)
            if mod_alias is None and bound.get(want, 0):
                continue
            keep = []
            for al in node.names:
                have = al.asname or al.name
                if al.name == "*" or bound.get(have, 0) != 1:
                    keep.append(al)
                    continue
                head = mod_alias or want
                r = _Rename({have: ast.Attribute(value=ast.Name(id=head, ctx=ast.Load()), attr=al.name, ctx=ast.Load())}, {})
                for b in tree.body:
                    r.visit(b)
                bound.pop(have, None)
                count += max(r.n, 1)
                if mod_alias is None:
                    mod_alias = head
                    imp = ast.Import(names=[ast.alias(name=node.module, asname=head if head != node.module else None)])
                    ast.copy_location(imp, node)
                    add_imports.append(imp)
                    bound[head] = 1
            node.names = keep
        if add_imports:
            at = next((i for i, b in enumerate(tree.body) if isinstance(b, (ast.Import, ast.ImportFrom)) and not (isinstance(b, ast.ImportFrom) and b.module == "__future__")), 0)
            tree.body[at:at] = add_imports
        tree.body[:] = [b for b in tree.body if not (isinstance(b, ast.ImportFrom) and not b.names)]
        # -- a package module imported as a module: `from . import asn1`, `from . import _filter as f`, `import sansldap.asn1 as a`,
        #    `from sansldap import asn1` -> the names used from it imported one by one
        for node in list(tree.body):
            cands: List[Tuple[ast.alias, str]] = []
            if isinstance(node, ast.ImportFrom):
                base = _abs_module(modname, node.module, node.level)
                for al in node.names:
                    if f"{base}.{al.name}" in mods and al.name not in top.get(base, {}):
                        cands.append((al, f"{base}.{al.name}"))
                    elif f"{base}.{al.name}" in mods and base == PKG:
                        cands.append((al, f"{base}.{al.name}"))
            elif isinstance(node, ast.Import):
                for al in node.names:
                    if al.name in mods and al.asname and al.name != PKG:
                        cands.append((al, al.name))
            for al, target in cands:
                have = al.asname or al.name.split(".")[0]
                if bound.get(have, 0) != 1 or target == modname:
                    continue
                used: Dict[str, int] = {}
                other_use = False
                for x in ast.walk(tree):
                    if isinstance(x, ast.Attribute) and isinstance(x.value, ast.Name) and x.value.id == have:
                        used[x.attr] = used.get(x.attr, 0) + 1
                n_name = sum(1 for x in ast.walk(tree) if isinstance(x, ast.Name) and x.id == have and isinstance(x.ctx, ast.Load))
                if n_name != sum(used.values()):
                    other_use = True      # the module object itself is passed around
                if other_use or not used:
                    continue
                if any(u not in top.get(target, {}) for u in used):
                    continue
                # the short name must be free here, or already be that very import
                def same_import(u: str) -> bool:
                    d = top[modname].get(u)
                    return isinstance(d, ast.ImportFrom) and _abs_module(modname, d.module, d.level) == target and \
                        any((a2.asname or a2.name) == u and a2.name == u for a2 in d.names)
                if any(bound.get(u, 0) and not (bound.get(u, 0) == 1 and same_import(u)) for u in used):
                    continue
                r = _Rename({}, {have: {u: u for u in used}})
                for b in tree.body:
                    r.visit(b)
                need = [u for u in sorted(used) if not same_import(u)]
                if need:
                    imp = ast.ImportFrom(module=target.split(".", 1)[1] if target.startswith(PKG + ".") else target, level=1 if target.startswith(PKG + ".") else 0,
                                         names=[ast.alias(name=u, asname=None) for u in need])
                    ast.copy_location(imp, node)
                    ast.fix_missing_locations(imp)
                    tree.body.insert(tree.body.index(node) + 1, imp)
                    for u in need:
                        bound[u] = bound.get(u, 0) + 1
                        top[modname][u] = imp
                if isinstance(node, ast.ImportFrom):
                    node.names = [a2 for a2 in node.names if a2 is not al]
                else:
                    node.names = [a2 for a2 in node.names if a2 is not al]
                bound.pop(have, None)
                count += r.n
        tree.body[:] = [b for b in tree.body if not (isinstance(b, (ast.ImportFrom, ast.Import)) and not b.names)]
        if count:
            log.setdefault(modname, {})["import spellings"] = count
        ast.fix_missing_locations(tree)


def _relocate_classes(parsed, log) -> None:
    """A class that was moved into a private module of its own and is imported back, by name, into exactly one other module
    (`asn1.py`: `from ._asn1types import ASN1Tag`; everyone else still imports it from `.asn1`) is read where it is imported:
    the rules name a handful of classes by the module the package presents them in, and that module is the one place that
    did not change for the users of the package.  The definition is moved in memory only when every name it mentions means
    the same thing there (imports that are missing are added; a name that would be captured stops the move)."""
    import builtins
    trees = {m: t for m, _p, _s, t in parsed}

    def top(tree: ast.Module):
        defs, imps = {}, {}
        tc: List[ast.stmt] = []
        for n in tree.body:
            if isinstance(n, (ast.FunctionDef, ast.AsyncFunctionDef, ast.ClassDef)):
                defs.setdefault(n.name, []).append(n)
            elif isinstance(n, (ast.Assign, ast.AnnAssign, ast.AugAssign)):
                for t_ in (n.targets if isinstance(n, ast.Assign) else [n.target]):
                    for x in ast.walk(t_):
                        if isinstance(x, ast.Name):
                            defs.setdefault(x.id, []).append(n)
            elif isinstance(n, ast.If) and "TYPE_CHECKING" in ast.unparse(n.test):
                tc.extend(x for x in n.body if isinstance(x, (ast.Import, ast.ImportFrom)))
        return defs, tc
    info = {m: top(t) for m, t in trees.items()}
    # the modules the package presents itself through: whatever its __init__ imports from stays where it is
    surface = set()
    if PKG in trees:
        for n in ast.walk(trees[PKG]):
            if isinstance(n, ast.ImportFrom):
                base = _abs_module(PKG, n.module, n.level)
                surface.add(base)
                for al in n.names:
                    surface.add(f"{base}.{al.name}")
            elif isinstance(n, ast.Import):
                for al in n.names:
                    surface.add(al.name)

    def imports_of(modname: str, tree: ast.Module, tc):
        out = {}
        for n in list(tree.body) + list(tc):
            if isinstance(n, ast.ImportFrom):
                base = _abs_module(modname, n.module, n.level)
                for al in n.names:
                    out[al.asname or al.name] = ("from", base, al.name)
            elif isinstance(n, ast.Import):
                for al in n.names:
                    out[al.asname or al.name.split(".")[0]] = ("import", al.name, al.asname)
        return out
    for H, htree in trees.items():
        moved = 0
        for node in list(htree.body):
            if not (isinstance(node, ast.ImportFrom) and node.level >= 1):
                continue
            P = _abs_module(H, node.module, node.level)
            if P not in trees or P == H or not P.split(".")[-1].startswith("_") or P == PKG or P in surface:
                continue
            pdefs, ptc = info[P]
            hdefs, htc = info[H]
            pimps = imports_of(P, trees[P], ptc)
            for al in list(node.names):
                N = al.name
                if al.asname not in (None, N) or N not in pdefs or len(pdefs[N]) != 1 or not isinstance(pdefs[N][0], ast.ClassDef) or N in hdefs:
                    continue
                cdef = pdefs[N][0]
                importers = {m for m, t in trees.items() if m not in (P, PKG) and any(isinstance(x, ast.ImportFrom) and _abs_module(m, x.module, x.level) == P and
                                                                                         any(a2.name == N for a2 in x.names) for x in ast.walk(t))}
                if importers != {H}:
                    continue
                local = {x.id for x in ast.walk(cdef) if isinstance(x, ast.Name) and isinstance(x.ctx, (ast.Store, ast.Del))}
                local |= {x.name for x in ast.walk(cdef) if isinstance(x, (ast.FunctionDef, ast.AsyncFunctionDef, ast.ClassDef))}
                local |= {a_.arg for f in ast.walk(cdef) if isinstance(f, (ast.FunctionDef, ast.AsyncFunctionDef, ast.Lambda))
                          for a_ in f.args.posonlyargs + f.args.args + f.args.kwonlyargs + ([f.args.vararg] if f.args.vararg else []) + ([f.args.kwarg] if f.args.kwarg else [])}
                local |= {x.name for x in ast.walk(cdef) if isinstance(x, ast.ExceptHandler) and x.name}
                free = {x.id for x in ast.walk(cdef) if isinstance(x, ast.Name) and isinstance(x.ctx, ast.Load)} - local
                # names inside string annotations
                for x in ast.walk(cdef):
                    if isinstance(x, ast.Constant) and isinstance(x.value, str) and x.value.isidentifier() and (x.value in pdefs or x.value in pimps):
                        free.add(x.value)
                himps = imports_of(H, htree, htc)
                add_plain: List[ast.stmt] = []
                add_tc: List[ast.stmt] = []
                ok = True
                for r in sorted(free):
                    if hasattr(builtins, r) or r == N:
                        continue
                    if r in pimps:
                        org = pimps[r]
                        if org[0] == "from" and org[1] == H:
                            if r not in hdefs:          # P took it from H: H must define it
                                ok = False
                            continue
                        if himps.get(r) == org:
                            continue
                        if r in himps or r in hdefs:
                            ok = False                  # the name means something else in H
                            continue
                        imp = ast.ImportFrom(module=org[1], names=[ast.alias(name=org[2], asname=r if r != org[2] else None)], level=0) if org[0] == "from" else \
                            ast.Import(names=[ast.alias(name=org[1], asname=org[2])])
                        guarded = any(isinstance(y, (ast.Import, ast.ImportFrom)) and any((a3.asname or a3.name.split(".")[0]) == r for a3 in y.names) for y in ptc)
                        (add_tc if guarded else add_plain).append(imp)
                    elif r in pdefs:
                        # another definition of P: H has to see the same object
                        if himps.get(r) == ("from", P, r):
                            continue
                        if r in himps or r in hdefs:
                            ok = False
                            continue
                        add_plain.append(ast.ImportFrom(module=P, names=[ast.alias(name=r, asname=None)], level=0))
                    else:
                        ok = False
                if not ok:
                    continue
                # move
                trees[P].body.remove(cdef)
                back = ast.ImportFrom(module=H, names=[ast.alias(name=N, asname=None)], level=0)
                ast.copy_location(back, cdef)
                trees[P].body.append(back)
                node.names = [a2 for a2 in node.names if a2 is not al]
                at = htree.body.index(node) + 1
                for imp in add_plain:
                    ast.copy_location(imp, node)
                    ast.fix_missing_locations(imp)
                    htree.body.insert(at, imp)
                    at += 1
                if add_tc:
                    guard = ast.If(test=ast.Attribute(value=ast.Name(id="t", ctx=ast.Load()), attr="TYPE_CHECKING", ctx=ast.Load()), body=add_tc, orelse=[])
                    ast.copy_location(guard, node)
                    ast.fix_missing_locations(guard)
                    htree.body.insert(at, guard)
                    at += 1
                htree.body.insert(at, cdef)
                info[P][0].pop(N, None)
                info[H][0].setdefault(N, []).append(cdef)
                moved += 1
                log.setdefault(H, {})[f"class {N} read here (defined in {P.split('.')[-1]})"] = 1
        htree.body[:] = [b for b in htree.body if not (isinstance(b, ast.ImportFrom) and not b.names)]
        if moved:
            ast.fix_missing_locations(htree)


def _is_final(anno: ast.expr) -> bool:
    if isinstance(anno, ast.Constant) and isinstance(anno.value, str):
        try:
            anno = ast.parse(anno.value, mode="eval").body
        except SyntaxError:
            return False
    if isinstance(anno, ast.Subscript):
        anno = anno.value
    txt = ast.unparse(anno)
    return txt.split(".")[-1] in ("Final", "ClassVar") and txt.split(".")[-1] == "Final"


def _finals(parsed, log) -> None:
    for modname, _p, _s, tree in parsed:
        n = 0
        for i, st in enumerate(tree.body):
            if isinstance(st, ast.AnnAssign) and st.value is not None and isinstance(st.target, ast.Name) and _is_final(st.annotation):
                new = ast.Assign(targets=[st.target], value=st.value)
                ast.copy_location(new, st)
                tree.body[i] = new
                n += 1
        # a Final local is a plain local too
        for fn in ast.walk(tree):
            if isinstance(fn, (ast.FunctionDef, ast.AsyncFunctionDef)):
                for parent in ast.walk(fn):
                    for fld in ("body", "orelse", "finalbody"):
                        blk = getattr(parent, fld, None)
                        if isinstance(blk, list):
                            for i, st in enumerate(blk):
                                if isinstance(st, ast.AnnAssign) and st.value is not None and isinstance(st.target, ast.Name) and _is_final(st.annotation):
                                    new = ast.Assign(targets=[st.target], value=st.value)
                                    ast.copy_location(new, st)
                                    blk[i] = new
                                    n += 1
        if n:
            log.setdefault(modname, {})["Final constants"] = n
        ast.fix_missing_locations(tree)


def _literal(e: ast.expr) -> Optional[ast.expr]:
    """An int / bool / str / bytes / None literal (with a sign, or a shift / or / and of int literals folded)."""
    if isinstance(e, ast.Constant) and (e.value is None or type(e.value) in (int, bool, str, bytes)):
        return e
    if isinstance(e, ast.UnaryOp) and isinstance(e.op, ast.USub) and isinstance(e.operand, ast.Constant) and type(e.operand.value) is int:
        return ast.Constant(value=-e.operand.value)
    if isinstance(e, ast.BinOp) and isinstance(e.op, (ast.LShift, ast.RShift, ast.BitOr, ast.BitAnd, ast.Add, ast.Sub, ast.Mult, ast.Pow)):
        l, r = _literal(e.left), _literal(e.right)
        if l is not None and r is not None and type(l.value) is int and type(r.value) is int and 0 <= r.value <= 64 and abs(l.value) < 2 ** 64:
            v = {ast.LShift: lambda a, b: a << b, ast.RShift: lambda a, b: a >> b, ast.BitOr: lambda a, b: a | b, ast.BitAnd: lambda a, b: a & b, ast.Add: lambda a, b: a + b,
                 ast.Sub: lambda a, b: a - b, ast.Mult: lambda a, b: a * b, ast.Pow: lambda a, b: a ** b}[type(e.op)](l.value, r.value)
            return ast.Constant(value=v)
    return None


def _constants(parsed, log) -> None:
    """Private module-level names for literals (`_HIGH_BIT = 0x80`, `_LDAP_VERSION = 3`) are read as the literal: a magic number
    and its name are the same program.  Only names bound exactly once in their module and never deleted or declared global."""
    trees = {m: t for m, _p, _s, t in parsed}
    consts: Dict[str, Dict[str, ast.expr]] = {}
    members: Dict[str, Dict[str, ast.expr]] = {}
    for m, tree in trees.items():
        bound = _bound_names(tree)
        d: Dict[str, ast.expr] = {}
        local_only: Dict[str, ast.expr] = {}
        for st in tree.body:
            if isinstance(st, ast.Assign) and len(st.targets) == 1 and isinstance(st.targets[0], ast.Name):
                name, val = st.targets[0].id, st.value
            elif isinstance(st, ast.AnnAssign) and isinstance(st.target, ast.Name) and st.value is not None:
                name, val = st.target.id, st.value
            else:
                continue
            if not name.startswith("_") or name.startswith("__") or bound.get(name, 0) != 1:
                continue
            r = _Rename(dict(d), {})
            lit = _literal(r.visit(copy.deepcopy(val)))
            if lit is not None:
                d[name] = lit
                continue
            # a private name for a member of an enumeration / a class constant (`_OID = ExtendedOperations.X.value`)
            root = val
            depth = 0
            while isinstance(root, ast.Attribute):
                root = root.value
                depth += 1
            if 1 <= depth <= 3 and isinstance(root, ast.Name) and root.id[:1].isupper() and bound.get(root.id, 0) == 1 and \
                    any(isinstance(b, ast.ClassDef) and b.name == root.id for b in tree.body):
                local_only[name] = val
        consts[m] = d
        members[m] = local_only
    for m, tree in trees.items():
        avail = dict(consts[m])
        avail.update(members[m])
        bound = _bound_names(tree)
        for node in tree.body:
            if isinstance(node, ast.ImportFrom):
                base = _abs_module(m, node.module, node.level)
                for al in node.names:
                    have = al.asname or al.name
                    if al.name in consts.get(base, {}) and bound.get(have, 0) == 1:
                        avail[have] = consts[base][al.name]
        if not avail:
            continue
        r = _Rename(avail, {})
        for b in tree.body:
            r.visit(b)
        if r.n:
            log.setdefault(m, {})["named literals read as the literal"] = r.n
            ast.fix_missing_locations(tree)


_PURE_BUILTINS = {"bool", "int", "bytes", "chr", "ord", "str", "len", "tuple"}


def _value_constants(parsed, log) -> None:
    """Module-level names for IMMUTABLE VALUE OBJECTS built from constants are read as the expression that builds them:
    `_BOOLEAN_TAG = ASN1Tag.universal_tag(TypeTagNumber.BOOLEAN)` (a NamedTuple class of the package), tuples of such
    values / enum members / class references, and tables `T = tuple(<elt over v> for v in range(N))`, whose subscripts
    `T[k]` become `<elt over k>` - with an `assert 0 <= k < N` placed in front of the statement when k is a variable,
    so that the rewrite says exactly what the subscript says.  Identity is the only thing lost, and nothing can observe
    the identity of an immutable tuple.  A name bound more than once, a mutable object (a writer, a list, a dict) or an
    element with a call outside the listed pure ones is left alone."""
    trees = {m: t for m, _p, _s, t in parsed}
    nt: Set[str] = set()
    classes: Set[str] = set()
    for tree in trees.values():
        for b in tree.body:
            if isinstance(b, ast.ClassDef):
                classes.add(b.name)
                for base in b.bases:
                    if (isinstance(base, ast.Attribute) and base.attr == "NamedTuple") or (isinstance(base, ast.Name) and base.id == "NamedTuple"):
                        nt.add(b.name)

    def const(e: ast.expr, var: Optional[str], env: Dict[str, ast.expr]) -> bool:
        if _literal(e) is not None:
            return True
        if isinstance(e, ast.Name):
            return e.id == var or e.id in env or e.id in classes
        if isinstance(e, ast.Attribute):
            root, depth = e, 0
            while isinstance(root, ast.Attribute):
                root, depth = root.value, depth + 1
            return depth <= 3 and isinstance(root, ast.Name) and root.id in classes and root.id[:1].isupper()
        if isinstance(e, ast.Tuple):
            return all(const(x, var, env) for x in e.elts)
        if isinstance(e, (ast.BinOp,)):
            return isinstance(e.op, (ast.BitAnd, ast.BitOr, ast.LShift, ast.RShift, ast.Add, ast.Sub, ast.Mult)) and const(e.left, var, env) and const(e.right, var, env)
        if isinstance(e, ast.JoinedStr):
            return all(isinstance(v, ast.Constant) or (isinstance(v, ast.FormattedValue) and const(v.value, var, env) and
                                                        (v.format_spec is None or all(isinstance(q, ast.Constant) for q in v.format_spec.values))) for v in e.values)
        if isinstance(e, ast.Call):
            f = e.func
            ok = (isinstance(f, ast.Name) and (f.id in nt or f.id in _PURE_BUILTINS - {"tuple"} or (var is not None and f.id in classes))) or \
                 (isinstance(f, ast.Attribute) and isinstance(f.value, ast.Name) and f.value.id in nt) or \
                 (isinstance(f, ast.Attribute) and f.attr in ("encode", "to_bytes") and const(f.value, var, env))
            return ok and all(const(a, var, env) for a in e.args) and all(k.arg is not None and const(k.value, var, env) for k in e.keywords)
        return False

    def value_object(e: ast.expr) -> bool:
        """Top level must BE an immutable value: a NamedTuple construction or a tuple of constants (not a bare literal - those are `_constants`)."""
        if isinstance(e, ast.Tuple):
            return bool(e.elts)
        if isinstance(e, ast.Call):
            f = e.func
            return (isinstance(f, ast.Name) and f.id in nt) or (isinstance(f, ast.Attribute) and isinstance(f.value, ast.Name) and f.value.id in nt)
        return False

    def table(e: ast.expr, env) -> Optional[Tuple[str, ast.expr, int]]:
        if isinstance(e, ast.Call) and isinstance(e.func, ast.Name) and e.func.id == "tuple" and len(e.args) == 1 and not e.keywords and \
                isinstance(e.args[0], (ast.GeneratorExp, ast.ListComp)) and len(e.args[0].generators) == 1:
            g = e.args[0].generators[0]
            if isinstance(g.target, ast.Name) and not g.ifs and not g.is_async and isinstance(g.iter, ast.Call) and isinstance(g.iter.func, ast.Name) and \
                    g.iter.func.id == "range" and len(g.iter.args) == 1 and not g.iter.keywords:
                n = _literal(g.iter.args[0])
                if n is not None and type(n.value) is int and 0 < n.value <= 65536 and const(e.args[0].elt, g.target.id, env):
                    return g.target.id, e.args[0].elt, n.value
        return None

    def free_names(e: ast.expr, var: Optional[str]) -> Set[str]:
        return {x.id for x in ast.walk(e) if isinstance(x, ast.Name) and x.id != var and x.id not in _PURE_BUILTINS}

    values: Dict[str, Dict[str, ast.expr]] = {}
    tables: Dict[str, Dict[str, Tuple[str, ast.expr, int]]] = {}
    for m, tree in trees.items():
        bound = _bound_names(tree)
        vals: Dict[str, ast.expr] = {}
        tabs: Dict[str, Tuple[str, ast.expr, int]] = {}
        for st in tree.body:
            if isinstance(st, ast.Assign) and len(st.targets) == 1 and isinstance(st.targets[0], ast.Name):
                name, val = st.targets[0].id, st.value
            elif isinstance(st, ast.AnnAssign) and isinstance(st.target, ast.Name) and st.value is not None:
                name, val = st.target.id, st.value
            else:
                continue
            if name.startswith("__") or bound.get(name, 0) != 1 or name == "__all__":
                continue
            if not (name.startswith("_") or (m.rsplit(".", 1)[-1].startswith("_") and name.isupper())):
                continue
            val = _Rename(dict(vals), {}).visit(copy.deepcopy(val))
            if value_object(val) and const(val, None, vals):
                vals[name] = val
            else:
                tb = table(val, vals)
                if tb is not None:
                    tabs[name] = tb
        values[m], tables[m] = vals, tabs

    class _Sub(ast.NodeTransformer):
        def __init__(self, var: str, to: ast.expr):
            self.var, self.to = var, to

        def visit_Name(self, node: ast.Name):
            if node.id == self.var and isinstance(node.ctx, ast.Load):
                return copy.deepcopy(self.to)
            return node

    for m, tree in trees.items():
        bound = _bound_names(tree)
        vals = dict(values[m])
        tabs = dict(tables[m])
        for node in tree.body:
            if isinstance(node, ast.ImportFrom):
                base = _abs_module(m, node.module, node.level)
                for al in node.names:
                    have = al.asname or al.name
                    if bound.get(have, 0) != 1:
                        continue
                    if al.name in values.get(base, {}) and all(bound.get(n, 0) == 1 for n in free_names(values[base][al.name], None)):
                        vals[have] = values[base][al.name]
                    if al.name in tables.get(base, {}) and all(bound.get(n, 0) == 1 for n in free_names(tables[base][al.name][1], tables[base][al.name][0])):
                        tabs[have] = tables[base][al.name]
        if not vals and not tabs:
            continue
        count = 0
        # tables first: every load of the name must be a subscript by a name or an int literal, else the table stays
        if tabs:
            uses: Dict[str, List[ast.Subscript]] = {k: [] for k in tabs}
            other: Set[str] = set()
            subs_values = set()
            for x in ast.walk(tree):
                if isinstance(x, ast.Subscript) and isinstance(x.value, ast.Name) and x.value.id in tabs and isinstance(x.ctx, ast.Load):
                    idx = x.slice
                    lit = _literal(idx) if not isinstance(idx, ast.Slice) else None
                    pure = not isinstance(idx, ast.Slice) and all(
                        isinstance(y, (ast.Name, ast.Constant, ast.Subscript, ast.Attribute, ast.expr_context)) or
                        (isinstance(y, ast.Call) and not y.keywords and ((isinstance(y.func, ast.Attribute) and y.func.attr == "group") or
                                                                        (isinstance(y.func, ast.Name) and y.func.id == "ord"))) for y in ast.walk(idx))
                    if pure and lit is None or (lit is not None and type(lit.value) is int and 0 <= lit.value < tabs[x.value.id][2]):
                        uses[x.value.id].append(x)
                        subs_values.add(id(x.value))
                    else:
                        other.add(x.value.id)
            for x in ast.walk(tree):
                if isinstance(x, ast.Name) and isinstance(x.ctx, ast.Load) and x.id in tabs and id(x) not in subs_values:
                    other.add(x.id)
            live = {k for k in tabs if k not in other and uses[k]}
            if live:
                def rewrite_expr(e: ast.AST, guards: List[ast.stmt]) -> ast.AST:
                    class R(ast.NodeTransformer):
                        def visit_Subscript(s, node: ast.Subscript):
                            s.generic_visit(node)
                            if isinstance(node.value, ast.Name) and node.value.id in live and isinstance(node.ctx, ast.Load):
                                var, elt, n = tabs[node.value.id]
                                idx = node.slice
                                lit = _literal(idx)
                                if lit is None:
                                    guards.append(ast.Assert(test=ast.Compare(left=ast.Constant(value=0), ops=[ast.LtE(), ast.Lt()],
                                                                              comparators=[copy.deepcopy(idx), ast.Constant(value=n)]), msg=None))
                                nonlocal count
                                count += 1
                                out = _Sub(var, lit if lit is not None else idx).visit(copy.deepcopy(elt))
                                folded = _literal(out)
                                return ast.copy_location(folded if folded is not None else out, node)
                            return node

                        def visit_FunctionDef(s, node):
                            return node

                        visit_AsyncFunctionDef = visit_Lambda = visit_ClassDef = visit_FunctionDef
                    return R().visit(e)

                def do_body(body: List[ast.stmt]) -> List[ast.stmt]:
                    out: List[ast.stmt] = []
                    for st in body:
                        guards: List[ast.stmt] = []
                        if isinstance(st, (ast.Assign, ast.AnnAssign, ast.AugAssign, ast.Expr, ast.Return, ast.Raise, ast.Assert)):
                            st = rewrite_expr(st, guards)
                        elif isinstance(st, ast.If):
                            st.test = rewrite_expr(st.test, guards)
                        elif isinstance(st, ast.For):
                            st.iter = rewrite_expr(st.iter, guards)
                        elif isinstance(st, ast.With):
                            for it in st.items:
                                it.context_expr = rewrite_expr(it.context_expr, guards)
                        for fld in ("body", "orelse", "finalbody"):
                            if isinstance(getattr(st, fld, None), list) and not isinstance(st, (ast.Assign, ast.Expr)):
                                setattr(st, fld, do_body(getattr(st, fld)))
                        if isinstance(st, ast.Try):
                            for h in st.handlers:
                                h.body = do_body(h.body)
                        for g in guards:
                            ast.copy_location(g, st)
                        out.extend(guards)
                        out.append(st)
                    return out

                tree.body = do_body(tree.body)
                # a subscript that survived (inside a while test, a lambda, a comprehension) keeps its table: then nothing of that table may have been rewritten
                left = {x.value.id for x in ast.walk(tree) if isinstance(x, ast.Subscript) and isinstance(x.value, ast.Name) and x.value.id in live}
                if left:
                    raise_left = sorted(left)
                    log.setdefault(m, {})["constant tables partly rewritten: " + ",".join(raise_left)] = len(raise_left)
        if vals:
            r = _Rename(vals, {})
            for b in tree.body:
                if isinstance(b, (ast.Assign, ast.AnnAssign)) and isinstance(getattr(b, "target", None) or b.targets[0], ast.Name) and \
                        (getattr(b, "target", None) or b.targets[0]).id in vals:
                    continue
                r.visit(b)
            count += r.n
            # `(a, b, c)[1]` -> b
            class Sel(ast.NodeTransformer):
                def visit_Subscript(s, node: ast.Subscript):
                    s.generic_visit(node)
                    if isinstance(node.value, ast.Tuple) and isinstance(node.ctx, ast.Load):
                        lit = _literal(node.slice) if not isinstance(node.slice, ast.Slice) else None
                        if lit is not None and type(lit.value) is int and 0 <= lit.value < len(node.value.elts) and \
                                not any(isinstance(e, ast.Starred) for e in node.value.elts):
                            return ast.copy_location(node.value.elts[lit.value], node)
                    return node
            if r.n:
                Sel().visit(tree)
        if count:
            log.setdefault(m, {})["named value objects / constant tables read as the expression"] = count
            ast.fix_missing_locations(tree)



_TYPING_HEADS = {"Union", "Optional", "List", "Dict", "Tuple", "Set", "FrozenSet", "Sequence", "Iterable", "Iterator", "Callable", "Type", "Mapping",
                 "MutableMapping", "Match", "Pattern", "Literal", "Any", "Generator", "Deque", "DefaultDict"}
_BUILTIN_TYPES = {"bytes", "bytearray", "memoryview", "str", "int", "bool", "float", "list", "dict", "tuple", "set", "frozenset", "None", "object", "type"}


def _is_type_expr(e: ast.expr, known: Set[str]) -> bool:
    if isinstance(e, ast.Constant):
        return e.value is None or e.value is Ellipsis or isinstance(e.value, str)
    if isinstance(e, ast.Name):
        return e.id in _BUILTIN_TYPES or e.id in known
    if isinstance(e, ast.Attribute):
        return isinstance(e.value, ast.Name) and e.value.id in ("t", "typing", "re") and e.attr in _TYPING_HEADS
    if isinstance(e, ast.Subscript):
        base = e.value
        okb = (isinstance(base, ast.Attribute) and isinstance(base.value, ast.Name) and base.value.id in ("t", "typing", "re") and base.attr in _TYPING_HEADS) or \
              (isinstance(base, ast.Name) and base.id in ("list", "dict", "tuple", "set", "frozenset", "type"))
        args = e.slice.elts if isinstance(e.slice, ast.Tuple) else [e.slice]
        return okb and all(_is_type_expr(a, known) or (isinstance(a, ast.List) and all(_is_type_expr(x, known) for x in a.elts)) for a in args)
    if isinstance(e, ast.BinOp) and isinstance(e.op, ast.BitOr):
        return _is_type_expr(e.left, known) and _is_type_expr(e.right, known)
    return False


def _annotation_slots(tree: ast.AST):
    """(owner, field) pairs whose value is an annotation expression."""
    for x in ast.walk(tree):
        if isinstance(x, (ast.FunctionDef, ast.AsyncFunctionDef)):
            a = x.args
            for p in a.posonlyargs + a.args + a.kwonlyargs + ([a.vararg] if a.vararg else []) + ([a.kwarg] if a.kwarg else []):
                if p.annotation is not None:
                    yield p, "annotation"
            if x.returns is not None:
                yield x, "returns"
        elif isinstance(x, ast.AnnAssign):
            yield x, "annotation"


_PEP585 = {"list": "List", "dict": "Dict", "tuple": "Tuple", "set": "Set", "frozenset": "FrozenSet", "type": "Type"}
_ABC = {"Callable", "Iterator", "Iterable", "Sequence", "Mapping", "MutableMapping", "Generator", "Collection", "Set", "MutableSet", "MutableSequence"}


class _Anno(ast.NodeTransformer):
    """One spelling for annotations: `X | None` -> `t.Optional[X]`, `A | B` -> `t.Union[A, B]`, `list[X]` -> `t.List[X]`,
    `collections.abc.Callable[...]` / a bare `Callable[...]` -> `t.Callable[...]`."""

    def __init__(self, bare_typing: Set[str]):
        self.bare = bare_typing
        self.n = 0

    def _t(self, name: str) -> ast.expr:
        return ast.Attribute(value=ast.Name(id="t", ctx=ast.Load()), attr=name, ctx=ast.Load())

    def visit_BinOp(self, node: ast.BinOp):
        if not isinstance(node.op, ast.BitOr):
            return node
        parts: List[ast.expr] = []

        def flat(x):
            if isinstance(x, ast.BinOp) and isinstance(x.op, ast.BitOr):
                flat(x.left)
                flat(x.right)
            else:
                parts.append(self.visit(x))
        flat(node)
        self.n += 1
        nones = [p for p in parts if isinstance(p, ast.Constant) and p.value is None]
        rest = [p for p in parts if not (isinstance(p, ast.Constant) and p.value is None)]
        inner = rest[0] if len(rest) == 1 else ast.Subscript(value=self._t("Union"), slice=ast.Tuple(elts=rest, ctx=ast.Load()), ctx=ast.Load())
        if nones:
            return ast.Subscript(value=self._t("Optional"), slice=inner, ctx=ast.Load())
        return inner

    def visit_Subscript(self, node: ast.Subscript):
        node = self.generic_visit(node)
        b = node.value
        if isinstance(b, ast.Name) and b.id in _PEP585:
            self.n += 1
            node.value = self._t(_PEP585[b.id])
        elif isinstance(b, ast.Name) and b.id in self.bare:
            self.n += 1
            node.value = self._t(b.id)
        elif isinstance(b, ast.Attribute) and b.attr in _ABC and ast.unparse(b.value) in ("collections.abc", "abc", "cabc", "typing"):
            self.n += 1
            node.value = self._t(b.attr)
        return node

    def visit_Name(self, node: ast.Name):
        if node.id in self.bare and isinstance(node.ctx, ast.Load):
            self.n += 1
            return self._t(node.id)
        return node

    def visit_Constant(self, node: ast.Constant):
        return node


def _annotations(parsed, log) -> None:
    for modname, _p, _s, tree in parsed:
        bound = _bound_names(tree)
        # names imported bare from collections.abc that only make sense in annotations
        bare: Set[str] = set()
        for node in tree.body:
            if isinstance(node, ast.ImportFrom) and node.level == 0 and node.module in ("collections.abc",):
                for al in node.names:
                    if al.name in _ABC and (al.asname or al.name) == al.name and bound.get(al.name, 0) == 1:
                        bare.add(al.name)
        if bound.get("t", 0) > 1:
            continue
        n = 0
        tr = _Anno(bare)
        for owner, fld in _annotation_slots(tree):
            a = getattr(owner, fld)
            if isinstance(a, ast.Constant) and isinstance(a.value, str):
                try:
                    a2 = ast.parse(a.value, mode="eval").body
                except SyntaxError:
                    continue
                if not any(isinstance(x, ast.BinOp) or (isinstance(x, ast.Name) and x.id in _PEP585) for x in ast.walk(a2)):
                    continue
                a = ast.copy_location(a2, a)
            before = tr.n
            new = tr.visit(a)
            if tr.n != before:
                ast.fix_missing_locations(ast.copy_location(new, a) if not hasattr(new, "lineno") else new)
                setattr(owner, fld, new)
        # module-level aliases whose value is a type expression are annotations too
        for st in tree.body:
            if isinstance(st, (ast.Assign, ast.AnnAssign)) and st.value is not None and isinstance(st.value, (ast.Subscript, ast.BinOp)) and \
                    _is_type_expr(st.value, {c.name for c in tree.body if isinstance(c, ast.ClassDef)} | {al.asname or al.name for n2 in tree.body if isinstance(n2, ast.ImportFrom) for al in n2.names}):
                before = tr.n
                st.value = tr.visit(st.value)
        # `isinstance(x, A | B | C)` is `isinstance(x, (A, B, C))`
        for c in ast.walk(tree):
            if isinstance(c, ast.Call) and isinstance(c.func, ast.Name) and c.func.id in ("isinstance", "issubclass") and len(c.args) == 2 and \
                    isinstance(c.args[1], ast.BinOp) and isinstance(c.args[1].op, ast.BitOr):
                parts: List[ast.expr] = []

                def flat(x):
                    if isinstance(x, ast.BinOp) and isinstance(x.op, ast.BitOr):
                        flat(x.left)
                        flat(x.right)
                    else:
                        parts.append(x)
                flat(c.args[1])
                c.args[1] = ast.copy_location(ast.Tuple(elts=parts, ctx=ast.Load()), c.args[1])
                tr.n += 1
        if tr.n:
            if tr.n and not any(isinstance(n2, ast.Import) and any(al.name == "typing" and al.asname == "t" for al in n2.names) for n2 in tree.body):
                imp = ast.Import(names=[ast.alias(name="typing", asname="t")])
                at = next((i for i, b in enumerate(tree.body) if isinstance(b, (ast.Import, ast.ImportFrom)) and not (isinstance(b, ast.ImportFrom) and b.module == "__future__")), 0)
                ast.copy_location(imp, tree.body[at] if tree.body else tree)
                tree.body.insert(at, imp)
            log.setdefault(modname, {})["annotation spellings"] = tr.n
            ast.fix_missing_locations(tree)


def _aliases(parsed, log) -> None:
    """Type aliases are written out where they are used as annotations."""
    trees = {m: t for m, _p, _s, t in parsed}
    classes = {m: {n.name for n in t.body if isinstance(n, ast.ClassDef)} for m, t in trees.items()}
    alias: Dict[str, Dict[str, ast.expr]] = {}
    for m, tree in trees.items():
        bound = _bound_names(tree)
        known = set(classes[m]) | {al.asname or al.name for n in tree.body if isinstance(n, ast.ImportFrom) for al in n.names if al.name[:1].isupper()}
        d: Dict[str, ast.expr] = {}
        for st in tree.body:
            name, val, anno = None, None, None
            if isinstance(st, ast.Assign) and len(st.targets) == 1 and isinstance(st.targets[0], ast.Name):
                name, val = st.targets[0].id, st.value
            elif isinstance(st, ast.AnnAssign) and isinstance(st.target, ast.Name) and st.value is not None:
                name, val, anno = st.target.id, st.value, ast.unparse(st.annotation)
            if name is None or bound.get(name, 0) != 1:
                continue
            explicit = anno is not None and anno.replace('"', "").replace("'", "").split(".")[-1] == "TypeAlias"
            if isinstance(val, ast.Constant) and isinstance(val.value, str) and explicit:
                try:
                    val = ast.parse(val.value, mode="eval").body
                except SyntaxError:
                    continue
            if (explicit or anno is None) and isinstance(val, (ast.Subscript, ast.BinOp)) and _is_type_expr(val, known | set(d)):
                d[name] = val
            elif explicit and _is_type_expr(val, known | set(d)):
                d[name] = val
        alias[m] = d
    # an alias may use an earlier alias of its module
    for m, d in alias.items():
        for _ in range(4):
            for k, v in list(d.items()):
                r = _Rename({k2: v2 for k2, v2 in d.items() if k2 != k}, {})
                d[k] = r.visit(copy.deepcopy(v))
    for m, tree in trees.items():
        avail: Dict[str, ast.expr] = dict(alias[m])
        for node in tree.body:
            if isinstance(node, ast.ImportFrom):
                base = _abs_module(m, node.module, node.level)
                for al in node.names:
                    if al.name in alias.get(base, {}):
                        # the names the alias mentions must mean the same here: builtins and typing members do
                        v = alias[base][al.name]
                        free = {x.id for x in ast.walk(v) if isinstance(x, ast.Name)} - _BUILTIN_TYPES - {"t", "typing", "re"}
                        if not free:
                            avail[al.asname or al.name] = v
        if not avail:
            continue
        n = 0
        for owner, fld in _annotation_slots(tree):
            a = getattr(owner, fld)
            if isinstance(a, ast.Constant) and isinstance(a.value, str):
                try:
                    a2 = ast.parse(a.value, mode="eval").body
                except SyntaxError:
                    continue
                if any(isinstance(x, ast.Name) and x.id in avail for x in ast.walk(a2)):
                    a = ast.copy_location(a2, a)
                    ast.fix_missing_locations(a)
                else:
                    continue
            if not any(isinstance(x, ast.Name) and x.id in avail for x in ast.walk(a)):
                continue
            r = _Rename(avail, {})
            new = r.visit(a)
            setattr(owner, fld, new)
            n += r.n
        if n:
            log.setdefault(m, {})["type aliases written out"] = n
            ast.fix_missing_locations(tree)


def _structure(parsed, log) -> None:
    """`with a as x, b as y:` is `with a as x:` around `with b as y:`; a module-level table written as a union of module-level dict
    literals (`TABLE = _A | _B | _C`) is the one literal it evaluates to."""
    for modname, _p, _s, tree in parsed:
        n = 0

        class W(ast.NodeTransformer):
            def visit_With(self, node: ast.With):
                nonlocal n
                node = self.generic_visit(node)
                if len(node.items) > 1:
                    n += 1
                    inner = node.body
                    for it in reversed(node.items[1:]):
                        w = ast.With(items=[it], body=inner)
                        ast.copy_location(w, it.context_expr)
                        inner = [w]
                    node.items = node.items[:1]
                    node.body = inner
                return node
        W().visit(tree)
        bound = _bound_names(tree)
        lits: Dict[str, ast.Dict] = {}
        for st in tree.body:
            tg, val = None, None
            if isinstance(st, ast.Assign) and len(st.targets) == 1 and isinstance(st.targets[0], ast.Name):
                tg, val = st.targets[0].id, st.value
            elif isinstance(st, ast.AnnAssign) and isinstance(st.target, ast.Name) and st.value is not None:
                tg, val = st.target.id, st.value
            if tg is None or bound.get(tg, 0) != 1:
                continue
            if isinstance(val, ast.Dict) and all(k is not None for k in val.keys):
                lits[tg] = val
                continue
            if isinstance(val, ast.BinOp) and isinstance(val.op, ast.BitOr):
                parts: List[ast.expr] = []

                def flat(x):
                    if isinstance(x, ast.BinOp) and isinstance(x.op, ast.BitOr):
                        flat(x.left)
                        flat(x.right)
                    else:
                        parts.append(x)
                flat(val)
                if all((isinstance(p_, ast.Name) and p_.id in lits) or (isinstance(p_, ast.Dict) and all(k is not None for k in p_.keys)) for p_ in parts):
                    keys: List[ast.expr] = []
                    vals: List[ast.expr] = []
                    for p_ in parts:
                        d = lits[p_.id] if isinstance(p_, ast.Name) else p_
                        keys += [copy.deepcopy(k) for k in d.keys]
                        vals += [copy.deepcopy(v) for v in d.values]
                    merged = ast.copy_location(ast.Dict(keys=keys, values=vals), val)
                    st.value = merged
                    lits[tg] = merged
                    n += 1
        if n:
            log.setdefault(modname, {})["statement shapes"] = n
            ast.fix_missing_locations(tree)


def _prefixes(parsed, log) -> None:
    """`x.removeprefix(P)` / `x.removesuffix(P)` with a constant P: where the enclosing code has just established `x.startswith(P)`
    (an `if`, or the exit of `while not x.startswith(P):`) it is the slice `x[len(P):]`; elsewhere the conditional expression
    `x[len(P):] if x.startswith(P) else x` that defines it."""
    for modname, _p, _s, tree in parsed:
        n = 0

        def fact_of(test: ast.expr, negate: bool = False):
            t = test
            if isinstance(t, ast.UnaryOp) and isinstance(t.op, ast.Not):
                return fact_of(t.operand, not negate)
            if not negate and isinstance(t, ast.Call) and isinstance(t.func, ast.Attribute) and t.func.attr in ("startswith", "endswith") and isinstance(t.func.value, ast.Name) \
                    and len(t.args) == 1 and isinstance(t.args[0], ast.Constant) and isinstance(t.args[0].value, (str, bytes)):
                return (t.func.value.id, t.func.attr, t.args[0].value)
            return None

        def rewrite_in(node: ast.AST, facts: set) -> None:
            nonlocal n

            class R(ast.NodeTransformer):
                def visit_Call(self, c: ast.Call):
                    nonlocal n
                    c = self.generic_visit(c)
                    if isinstance(c.func, ast.Attribute) and c.func.attr in ("removeprefix", "removesuffix") and isinstance(c.func.value, ast.Name) and len(c.args) == 1 and \
                            not c.keywords and isinstance(c.args[0], ast.Constant) and isinstance(c.args[0].value, (str, bytes)) and len(c.args[0].value) > 0:
                        x, P = c.func.value.id, c.args[0].value
                        k = len(P)
                        pre = c.func.attr == "removeprefix"
                        sl = ast.Subscript(value=ast.Name(id=x, ctx=ast.Load()),
                                           slice=ast.Slice(lower=ast.Constant(value=k), upper=None, step=None) if pre else
                                           ast.Slice(lower=None, upper=ast.UnaryOp(op=ast.USub(), operand=ast.Constant(value=k)), step=None), ctx=ast.Load())
                        n += 1
                        if (x, "startswith" if pre else "endswith", P) in facts:
                            return ast.copy_location(sl, c)
                        test = ast.Call(func=ast.Attribute(value=ast.Name(id=x, ctx=ast.Load()), attr="startswith" if pre else "endswith", ctx=ast.Load()),
                                        args=[ast.Constant(value=P)], keywords=[])
                        return ast.copy_location(ast.IfExp(test=test, body=sl, orelse=ast.Name(id=x, ctx=ast.Load())), c)
                    return c

                def visit_FunctionDef(self, f):
                    return f

                def visit_Lambda(self, f):
                    return f
            for fld, val in ast.iter_fields(node):
                if isinstance(val, ast.expr):
                    setattr(node, fld, R().visit(val))
                elif isinstance(val, list) and val and isinstance(val[0], ast.expr):
                    setattr(node, fld, [R().visit(v) for v in val])

        def block(stmts: List[ast.stmt], facts: set) -> set:
            facts = set(facts)
            for st in stmts:
                if isinstance(st, (ast.FunctionDef, ast.AsyncFunctionDef)):
                    block(st.body, set())
                    continue
                if isinstance(st, ast.ClassDef):
                    block(st.body, set())
                    continue
                if isinstance(st, ast.If):
                    rewrite_in_expr_fields(st, facts, ("test",))
                    f = fact_of(st.test)
                    block(st.body, facts | ({f} if f else set()))
                    fneg = fact_of(st.test, True)
                    block(st.orelse, facts | ({fneg} if fneg else set()))
                    facts = kill(facts, st)
                    continue
                if isinstance(st, ast.While):
                    rewrite_in_expr_fields(st, set(), ("test",))
                    block(st.body, set())
                    block(st.orelse, set())
                    facts = kill(facts, st)
                    fneg = fact_of(st.test, True)
                    if fneg and not any(isinstance(x, ast.Break) for b in st.body for x in ast.walk(b)):
                        facts.add(fneg)
                    continue
                if isinstance(st, (ast.For, ast.AsyncFor, ast.With, ast.AsyncWith, ast.Try)):
                    for fld in ("body", "orelse", "finalbody"):
                        sub = getattr(st, fld, None)
                        if isinstance(sub, list):
                            block(sub, set())
                    for h in getattr(st, "handlers", []):
                        block(h.body, set())
                    facts = kill(facts, st)
                    continue
                rewrite_in(st, facts)
                facts = kill(facts, st)
            return facts

        def rewrite_in_expr_fields(st, facts, fields):
            nonlocal n
            holder = ast.Expr(value=getattr(st, fields[0]))
            rewrite_in(holder, facts)
            setattr(st, fields[0], holder.value)

        def kill(facts: set, st: ast.stmt) -> set:
            stored = {x.id for x in ast.walk(st) if isinstance(x, ast.Name) and isinstance(x.ctx, (ast.Store, ast.Del))}
            return {f for f in facts if f[0] not in stored}
        if any(isinstance(x, ast.Attribute) and x.attr in ("removeprefix", "removesuffix") for x in ast.walk(tree)):
            block(tree.body, set())
        if n:
            log.setdefault(modname, {})["removeprefix / removesuffix"] = n
            ast.fix_missing_locations(tree)


_LOG_METHODS = {"debug", "info", "warning", "warn", "error", "critical", "exception", "log"}


def _logging(parsed, log) -> None:
    import re as _re
    for modname, _p, _s, tree in parsed:
        bound = _bound_names(tree)
        loggers: Set[str] = set()
        for st in tree.body:
            tg, val = None, None
            if isinstance(st, ast.Assign) and len(st.targets) == 1 and isinstance(st.targets[0], ast.Name):
                tg, val = st.targets[0].id, st.value
            elif isinstance(st, ast.AnnAssign) and isinstance(st.target, ast.Name) and st.value is not None:
                tg, val = st.target.id, st.value
            if tg and isinstance(val, ast.Call) and ast.unparse(val.func) in ("logging.getLogger", "getLogger") and bound.get(tg, 0) == 1:
                loggers.add(tg)
        if not loggers:
            continue
        n = 0

        def plain(e: ast.expr) -> bool:
            """Evaluating e runs nothing of the package: a constant, a name.  (An attribute could be a property.)"""
            return isinstance(e, (ast.Constant, ast.Name))

        def reduce(e: ast.expr) -> Optional[ast.expr]:
            """What is left of evaluating e once the parts that run nothing are taken away."""
            if plain(e):
                return None
            if isinstance(e, ast.Call) and isinstance(e.func, ast.Name) and e.func.id == "len" and len(e.args) == 1 and not e.keywords:
                # len() of something a %d is about to print: of a buffer, a list
                return reduce(e.args[0])
            return e

        def rewrite(st: ast.Expr) -> Optional[List[ast.stmt]]:
            c = st.value
            if not (isinstance(c, ast.Call) and isinstance(c.func, ast.Attribute) and isinstance(c.func.value, ast.Name) and c.func.value.id in loggers
                    and c.func.attr in _LOG_METHODS):
                return None
            if any(isinstance(a, ast.Starred) for a in c.args) or any(k.arg is None for k in c.keywords):
                return None
            args = list(c.args)
            if c.func.attr == "log" and args:
                args = args[1:]
            if not args:
                return []
            fmt, rest = args[0], args[1:]
            out: List[ast.stmt] = []
            specs: Optional[List[str]] = None
            if isinstance(fmt, ast.Constant) and isinstance(fmt.value, str):
                specs = _re.findall(r"%(?:\([^)]*\))?[-#0 +]*(?:\*|\d+)?(?:\.(?:\*|\d+))?([diouxXeEfFgGcrsa%])", fmt.value)
                specs = [s for s in specs if s != "%"]
                if len(specs) != len(rest):
                    specs = None
            else:
                rest = [fmt] + rest     # the format itself is computed: evaluated here, and may be anything
            for i, a in enumerate(rest):
                stringified = specs is None or specs[i] in ("s", "r", "a")
                if stringified:
                    # the record may run repr()/str() of the argument; logging reports a failure of that on stderr and carries on
                    call = ast.Expr(value=ast.Call(func=ast.Name(id="repr" if specs is not None and specs[i] in ("r", "a") else "str", ctx=ast.Load()), args=[a], keywords=[]))
                    handler = ast.ExceptHandler(type=ast.Name(id="Exception", ctx=ast.Load()), name=None, body=[ast.Pass()])
                    out.append(ast.Try(body=[call], handlers=[handler], orelse=[], finalbody=[]))
                elif reduce(a) is not None:
                    out.append(ast.Expr(value=reduce(a)))
            for k in c.keywords:
                if reduce(k.value) is not None:
                    out.append(ast.Expr(value=reduce(k.value)))
            for o in out:
                ast.copy_location(o, st)
                ast.fix_missing_locations(o)
            return out

        for parent in ast.walk(tree):
            for fld in ("body", "orelse", "finalbody"):
                blk = getattr(parent, fld, None)
                if not isinstance(blk, list):
                    continue
                new: List[ast.stmt] = []
                changed = False
                for st in blk:
                    rep = rewrite(st) if isinstance(st, ast.Expr) else None
                    if rep is None:
                        new.append(st)
                    else:
                        new.extend(rep)
                        changed = True
                        n += 1
                if changed:
                    if not new:
                        p = ast.Pass()
                        ast.copy_location(p, blk[0])
                        new = [p]
                    blk[:] = new
        # a logger nothing refers to any more is not module state the rules need to see
        if n:
            still = {x.id for x in ast.walk(tree) if isinstance(x, ast.Name) and isinstance(x.ctx, ast.Load) and x.id in loggers}
            tree.body[:] = [st for st in tree.body if not (isinstance(st, (ast.Assign, ast.AnnAssign)) and
                                                           (st.targets[0].id if isinstance(st, ast.Assign) and isinstance(st.targets[0], ast.Name) else
                                                            st.target.id if isinstance(st, ast.AnnAssign) and isinstance(st.target, ast.Name) else None) in (loggers - still))]
            log.setdefault(modname, {})["logging calls"] = n
            ast.fix_missing_locations(tree)


# ---------------------------------------------------------------------------------------------------------------- roles
def _class(tree: ast.Module, name: str) -> Optional[ast.ClassDef]:
    return next((n for n in tree.body if isinstance(n, ast.ClassDef) and n.name == name), None)


def _method(cls: ast.ClassDef, name: str) -> Optional[ast.FunctionDef]:
    return next((n for n in cls.body if isinstance(n, ast.FunctionDef) and n.name == name), None)


def _self_attr(e: ast.AST) -> Optional[str]:
    if isinstance(e, ast.Attribute) and isinstance(e.value, ast.Name) and e.value.id == "self":
        return e.attr
    return None


def _init_assignments(cls: ast.ClassDef) -> List[Tuple[str, ast.expr]]:
    init = _method(cls, "__init__")
    out: List[Tuple[str, ast.expr]] = []
    if init is None:
        return out
    for st in ast.walk(init):
        if isinstance(st, ast.Assign) and len(st.targets) == 1 and _self_attr(st.targets[0]):
            out.append((_self_attr(st.targets[0]), st.value))
        elif isinstance(st, ast.AnnAssign) and st.value is not None and _self_attr(st.target):
            out.append((_self_attr(st.target), st.value))
    return out


def _is_call(e: ast.expr, *names: str) -> bool:
    return isinstance(e, ast.Call) and ast.unparse(e.func).split(".")[-1] in names


def _roles(parsed, log) -> None:
    trees = {m: t for m, _p, _s, t in parsed}
    found: List[Tuple[str, str, str, str]] = []       # module, class, found name, canonical name

    def propose(module: str, cls: str, have: Optional[str], want: str) -> None:
        if have and have != want and have.startswith("_") and not have.startswith("__"):
            found.append((module, cls, have, want))

    a = trees.get(f"{PKG}.asn1")
    if a is not None:
        rc = _class(a, "ASN1Reader")
        if rc is not None:
            views = [n for n, v in _init_assignments(rc) if _is_call(v, "memoryview")]
            if len(set(views)) == 1:
                propose(f"{PKG}.asn1", "ASN1Reader", views[0], "_view")
    s = trees.get(f"{PKG}._session")
    if s is not None:
        sc = _class(s, "LDAPSession")
        if sc is not None:
            inits = _init_assignments(sc)
            out_attr = None
            drain = _method(sc, "data_to_send")
            if drain is not None:
                attrs = {_self_attr(x) for x in ast.walk(drain) if _self_attr(x)}
                bufs = {n for n, v in inits if _is_call(v, "bytearray") or (isinstance(v, ast.Constant) and isinstance(v.value, bytes))}
                cand = attrs & bufs
                if len(cand) == 1:
                    out_attr = next(iter(cand))
                    propose(f"{PKG}._session", "LDAPSession", out_attr, "_outgoing_buffer")
                    rest = bufs - cand
                    recv = _method(sc, "receive")
                    if recv is not None:
                        rattrs = {_self_attr(x) for x in ast.walk(recv) if _self_attr(x)}
                        rest &= rattrs
                    if len(rest) == 1:
                        propose(f"{PKG}._session", "LDAPSession", next(iter(rest)), "_incoming_buffer")
            sets = [n for n, v in inits if _is_call(v, "set") and not v.args]
            if len(set(sets)) == 2:
                # the outstanding ids are forgotten wholesale when the session closes; the search ids are only ever a subset of them
                reassigned = set()
                for cls_ in [n for n in s.body if isinstance(n, ast.ClassDef)]:
                    for fn in cls_.body:
                        if isinstance(fn, ast.FunctionDef) and fn.name != "__init__":
                            for st in ast.walk(fn):
                                if isinstance(st, ast.Assign) and len(st.targets) == 1 and _self_attr(st.targets[0]) in sets and _is_call(st.value, "set"):
                                    reassigned.add(_self_attr(st.targets[0]))
                if len(reassigned) == 1:
                    o = next(iter(reassigned))
                    propose(f"{PKG}._session", "LDAPSession", o, "_outstanding_requests")
                    propose(f"{PKG}._session", "LDAPSession", next(x for x in set(sets) if x != o), "_search_requests")
            opts = [n for n, v in inits if _is_call(v, "PackingOptions")]
            if len(set(opts)) == 1:
                propose(f"{PKG}._session", "LDAPSession", opts[0], "_packing_options")
        cc = _class(s, "LDAPClient")
        if cc is not None:
            ints = [n for n, v in _init_assignments(cc) if isinstance(v, ast.Constant) and type(v.value) is int]
            if len(set(ints)) == 1:
                propose(f"{PKG}._session", "LDAPClient", ints[0], "_message_counter")
    for module, cls, have, want in found:
        tree = trees[module]
        if any(isinstance(x, ast.Attribute) and x.attr == want for x in ast.walk(tree)):
            continue
        n = 0
        for x in ast.walk(tree):
            if isinstance(x, ast.Attribute) and x.attr == have:
                x.attr = want
                n += 1
        if n:
            log.setdefault(module, {})[f"attribute {cls}.{have} read as {want}"] = n


def _local_aliases(parsed, log) -> None:
    """A local bound once to an attribute chain (`append = messages.append`, `control_options = options.control`,
    `message_id = msg.message_id`, `options = self._packing_options`) is read as the chain: hoisting an attribute read
    out of a loop and reading it in the loop are the same program when nothing writes the attribute in between.
    Conditions: the local is bound exactly once in the function and not used in a nested function; the root of the chain
    is bound at most once in the function (a parameter or a single assignment); no attribute of the chain's names is
    stored in the function; a chain rooted at `self` qualifies only if its first attribute is written nowhere in the
    package outside `__init__` (session state that changes - `self.state`, the buffers - is never read through this pass)."""
    stored_outside_init: Set[str] = set()
    for _m, _p, _s, tree in parsed:
        for cls in [b for b in ast.walk(tree) if isinstance(b, ast.ClassDef)]:
            for fn in cls.body:
                if isinstance(fn, (ast.FunctionDef, ast.AsyncFunctionDef)) and fn.name != "__init__":
                    for x in ast.walk(fn):
                        if isinstance(x, ast.Attribute) and isinstance(x.ctx, (ast.Store, ast.Del)):
                            stored_outside_init.add(x.attr)
        for x in ast.walk(tree):
            if isinstance(x, ast.Call) and isinstance(x.func, ast.Name) and x.func.id in ("setattr", "delattr") and len(x.args) >= 2 and \
                    isinstance(x.args[1], ast.Constant) and isinstance(x.args[1].value, str):
                stored_outside_init.add(x.args[1].value)
            if isinstance(x, ast.Call) and isinstance(x.func, ast.Attribute) and x.func.attr in ("__setattr__", "__delattr__") and len(x.args) >= 2 and \
                    isinstance(x.args[1], ast.Constant) and isinstance(x.args[1].value, str):
                stored_outside_init.add(x.args[1].value)
    for m, _p, _s, tree in parsed:
        n = 0
        for fn in [f for f in ast.walk(tree) if isinstance(f, (ast.FunctionDef, ast.AsyncFunctionDef))]:
            inner = [x for b in fn.body for x in ast.walk(b) if isinstance(x, (ast.FunctionDef, ast.AsyncFunctionDef, ast.Lambda, ast.ClassDef))]
            inner_nodes = {id(y) for x in inner for y in ast.walk(x)}
            own = [x for b in fn.body for x in ast.walk(b) if id(x) not in inner_nodes or x in inner]
            bound: Dict[str, int] = {}
            a = fn.args
            for p_ in a.posonlyargs + a.args + a.kwonlyargs + ([a.vararg] if a.vararg else []) + ([a.kwarg] if a.kwarg else []):
                bound[p_.arg] = bound.get(p_.arg, 0) + 1
            for x in own:
                if isinstance(x, ast.Name) and isinstance(x.ctx, (ast.Store, ast.Del)):
                    bound[x.id] = bound.get(x.id, 0) + 1
                elif isinstance(x, ast.ExceptHandler) and x.name:
                    bound[x.name] = bound.get(x.name, 0) + 1
                elif isinstance(x, (ast.Global, ast.Nonlocal)):
                    for g in x.names:
                        bound[g] = bound.get(g, 0) + 2
            attr_stores = {x.attr for x in own if isinstance(x, ast.Attribute) and isinstance(x.ctx, (ast.Store, ast.Del))}
            inner_names = {y.id for x in inner for y in ast.walk(x) if isinstance(y, ast.Name)}
            cands: Dict[str, ast.expr] = {}
            stmts: Dict[str, ast.Assign] = {}
            for x in own:
                if isinstance(x, ast.Assign) and len(x.targets) == 1 and isinstance(x.targets[0], ast.Name) and isinstance(x.value, ast.Attribute):
                    name = x.targets[0].id
                    chain, attrs = x.value, []
                    while isinstance(chain, ast.Attribute):
                        attrs.append(chain.attr)
                        chain = chain.value
                    if not isinstance(chain, ast.Name) or bound.get(name, 0) != 1 or name in inner_names or name == chain.id:
                        continue
                    if bound.get(chain.id, 0) > 1 or any(at in attr_stores for at in attrs):
                        continue
                    if chain.id == "self" and attrs[-1] in stored_outside_init:
                        continue
                    if chain.id != "self" and bound.get(chain.id, 0) == 0 and not chain.id[:1].isupper():
                        continue        # a module-level object that is not a class: leave it
                    cands[name] = x.value
                    stmts[name] = x
            # `has_wildcard = b"*" in raw_value` at the top level of the function body, every operand a name / constant / attribute chain
            # whose stores all come earlier in the text: the flag is the comparison
            for x in fn.body:
                if isinstance(x, ast.Assign) and len(x.targets) == 1 and isinstance(x.targets[0], ast.Name) and isinstance(x.value, ast.Compare) and len(x.value.ops) == 1:
                    name = x.targets[0].id
                    if bound.get(name, 0) != 1 or name in inner_names:
                        continue
                    ops_ = [x.value.left] + list(x.value.comparators)
                    if not all(isinstance(o, (ast.Name, ast.Constant)) for o in ops_):
                        continue
                    onames = {o.id for o in ops_ if isinstance(o, ast.Name)}
                    if name in onames or onames & inner_names:
                        continue
                    late = [y for y in own if isinstance(y, ast.Name) and isinstance(y.ctx, (ast.Store, ast.Del)) and y.id in onames and y.lineno >= x.lineno]
                    if late or any(bound.get(o, 0) == 0 for o in onames):
                        continue
                    cands[name] = x.value
                    stmts[name] = x
            if not cands:
                continue
            # the alias must be assigned before its uses in source order (single binding: any earlier use would be an UnboundLocalError anyway)
            r = _Rename(cands, {})
            keep_pass = {id(y) for b in fn.body for y in ast.walk(b) if isinstance(y, ast.Pass)}
            for b in fn.body:
                r.visit(b)
            if r.n:
                n += r.n
                drop = {id(st) for st in stmts.values()}

                class Drop(ast.NodeTransformer):
                    def visit_Assign(s_, node: ast.Assign):
                        return ast.copy_location(ast.Pass(), node) if id(node) in drop else node    # the chain is read again at every use
                for i, b in enumerate(fn.body):
                    fn.body[i] = Drop().visit(b)
                # a body `tag = header.tag; return <test on tag>` is the one-expression helper `return <test on header.tag>` again
                for holder in [fn] + [x for b in fn.body for x in ast.walk(b)]:
                    for fld in ("body", "orelse", "finalbody"):
                        lst = getattr(holder, fld, None)
                        if isinstance(lst, list) and any(isinstance(y, ast.Pass) and id(y) not in keep_pass for y in lst):
                            kept = [y for y in lst if not (isinstance(y, ast.Pass) and id(y) not in keep_pass)]
                            setattr(holder, fld, kept or [y for y in lst if isinstance(y, ast.Pass)][:1])
        if n:
            log.setdefault(m, {})["locals bound once to an attribute chain read as the chain"] = n
            ast.fix_missing_locations(tree)



def canonicalise(parsed) -> Dict[str, Dict[str, int]]:
    log: Dict[str, Dict[str, int]] = {}
    _imports(parsed, log)
    _relocate_classes(parsed, log)
    _structure(parsed, log)
    _prefixes(parsed, log)
    _finals(parsed, log)
    _constants(parsed, log)
    _value_constants(parsed, log)
    _annotations(parsed, log)
    _aliases(parsed, log)
    _logging(parsed, log)
    _local_aliases(parsed, log)
    _roles(parsed, log)
    return log
