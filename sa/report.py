"""Reporting, known-findings handling and evidence writing."""
from __future__ import annotations

import json
import os
import re
import sys
import time
from dataclasses import dataclass, field
from typing import Any, Dict, List, Optional

VERIF = os.path.dirname(os.path.dirname(os.path.abspath(__file__)))
EVIDENCE_DIR = os.environ.get("VERIF_EVIDENCE_DIR") or os.path.join(VERIF, "evidence")   # scratch runs (seed matrix, self-test) point this elsewhere
REPLAY_DIR = os.path.join(EVIDENCE_DIR, "replay")
KNOWN_FILE = os.path.join(VERIF, "known_findings.txt")


@dataclass
class Finding:
    rule: str                 # rule id, e.g. "R1-closed-absorbing"
    construct: str            # qualified construct, e.g. sansldap._session.LDAPClient.bind
    key: str                  # normalised statement / witness (never a line number)
    message: str              # one-line human explanation
    where: str = ""           # file:line for the reader
    details: List[str] = field(default_factory=list)   # path / witness lines

    def ident(self) -> str:
        return f"rule={self.rule} construct={self.construct} key={self.key}"


def _slug(s: str) -> str:
    return re.sub(r"[^A-Za-z0-9_.-]+", "_", s)[:120]


def load_known(prop: str) -> List[Dict[str, str]]:
    out = []
    if not os.path.exists(KNOWN_FILE):
        return out
    with open(KNOWN_FILE, encoding="utf-8") as f:
        for line in f:
            line = line.strip()
            if not line or line.startswith("#") or not line.startswith("known:"):
                continue
            m = re.match(r"known:\s+property=(\S+)\s+rule=(\S+)\s+construct=(\S+)\s+key=(.*?)(?:\s+##\s*(.*))?$", line)
            if not m:
                raise SystemExit(f"ANALYSIS-ERROR malformed known_findings line: {line}")
            if m.group(1) == prop:
                out.append({"rule": m.group(2), "construct": m.group(3), "key": m.group(4).strip(), "what": (m.group(5) or "").strip()})
    return out


class Run:
    def __init__(self, prop: str, tier: str):
        self.prop = prop
        self.tier = tier
        self.t0 = time.time()
        self.findings: List[Finding] = []
        self.notes: List[str] = []
        self.obligations = 0
        self.discharged = 0
        self.coverage: Dict[str, Any] = {}
        self.samples: List[Any] = []
        self.assumptions: List[str] = []
        self.rules: Dict[str, Dict[str, int]] = {}
        self.explanation = ""
        self.seed = int(os.environ.get("VERIF_SEED", "0") or 0)

    # -- obligations ---------------------------------------------------------
    def ob(self, rule: str, ok: bool, sample: Any = None) -> None:
        """Count one obligation of `rule`; discharged iff ok."""
        r = self.rules.setdefault(rule, {"obligations": 0, "discharged": 0})
        r["obligations"] += 1
        self.obligations += 1
        if ok:
            r["discharged"] += 1
            self.discharged += 1
        if sample is not None and len(self.samples) < 40:
            self.samples.append(sample)

    def fail(self, f: Finding) -> None:
        # de-duplicate on identity
        if all(g.ident() != f.ident() for g in self.findings):
            self.findings.append(f)

    def note(self, s: str) -> None:
        self.notes.append(s)

    def floor(self, what: str, measured: int, minimum: int) -> None:
        """Instance floor: a rule that silently matches nothing must not pass."""
        self.coverage.setdefault("floors", {})[what] = {"measured": measured, "floor": minimum}
        if measured < minimum:
            from .srcmodel import AnalysisError
            raise AnalysisError(f"instance floor: {what}: measured {measured} < confirmed {minimum}")

    # -- finish --------------------------------------------------------------
    def unlisted_findings(self) -> List["Finding"]:
        known = load_known(self.prop)
        return [f for f in self.findings if not any(k["rule"] == f.rule and k["construct"] == f.construct and k["key"] == f.key for k in known)]

    def finish(self, model=None) -> int:
        known = load_known(self.prop)
        violations: List[Finding] = []
        known_hits: List[Finding] = []
        for f in self.findings:
            hit = None
            for k in known:
                if k["rule"] == f.rule and k["construct"] == f.construct and k["key"] == f.key:
                    hit = k
                    break
            if hit:
                known_hits.append(f)
                print(f"KNOWN-FINDING: property={self.prop} {f.ident()} :: {f.message}")
            else:
                violations.append(f)
        os.makedirs(REPLAY_DIR, exist_ok=True)
        for f in violations:
            replay = os.path.join(REPLAY_DIR, f"{self.prop}-{_slug(f.rule)}-{_slug(f.construct)}-{_slug(f.key)[:40]}.json")
            with open(replay, "w", encoding="utf-8") as fh:
                json.dump({"property": self.prop, "rule": f.rule, "construct": f.construct, "key": f.key,
                           "message": f.message, "where": f.where, "details": f.details}, fh, indent=1)
            print(f"VIOLATION property={self.prop} replay={replay}")
            print(f"  rule {f.rule}: {f.message}")
            print(f"  at   {f.where}  {f.construct}")
            print(f"  key  {f.key}")
            for d in f.details[:40]:
                print(f"       {d}")
        wall = round(time.time() - self.t0, 3)
        cov = dict(self.coverage)
        cov.update({
            "explanation": self.explanation,
            "obligations": self.obligations,
            "discharged": self.discharged,
            "evaluations": max(self.obligations, 1),
            "distinct_nontrivial": max(len({json.dumps(s, sort_keys=True, default=str) for s in self.samples}), 0),
            "rule": "one evaluation per structural obligation (rule instance) extracted from the source; distinct = distinct sample obligations written out below",
            "rules": self.rules,
            "samples": self.samples[:40] or ["<none>"],
            "checker_cmd": f"/venv/bin/python sa/run.py {self.prop} --tier {self.tier}",
            "trusted_base": ["CPython 3.12 ast module", "the rule tables and RFC transcriptions under /verif/sa"],
            "exhaustive": True,
            "notes": self.notes[:60],
            "known_findings_hit": [f.ident() for f in known_hits],
            "findings": [{"rule": f.rule, "construct": f.construct, "key": f.key, "message": f.message, "where": f.where} for f in self.findings],
        })
        if model is not None:
            cov["source_digest"] = model.digest
            cov["modules"] = sorted(model.modules)
            # what was brought to a canonical spelling in memory before the rules ran (sa/canon.py, import flattening, sa/desugar.py)
            norm_ = {}
            for k_, v_ in (("canonical_spelling", getattr(model, "canonical", None)), ("private_imports_flattened", getattr(model, "flattened", None)),
                           ("desugared", getattr(model, "desugared", None))):
                if v_:
                    norm_[k_] = v_
            cov["normalisations"] = norm_
        ev = {
            "property_id": self.prop,
            "tier": self.tier,
            "seed": self.seed,
            "level": "other",
            "coverage": cov,
            "assumptions": self.assumptions,
            "wall_s": wall,
            "violations": len(violations),
        }
        os.makedirs(EVIDENCE_DIR, exist_ok=True)
        with open(os.path.join(EVIDENCE_DIR, f"{self.prop}.json"), "w", encoding="utf-8") as fh:
            json.dump(ev, fh, indent=1, default=str)
        status = "VIOLATED" if violations else "held"
        print(f"[{self.prop}] {status}: obligations={self.obligations} discharged={self.discharged} "
              f"findings={len(self.findings)} known={len(known_hits)} violations={len(violations)} wall={wall}s")
        for r, c in sorted(self.rules.items()):
            print(f"    {r}: {c['discharged']}/{c['obligations']}")
        return 1 if violations else 0


def analysis_error(prop: str, tier: str, msg: str) -> int:
    """Exit 2: never looks like a verdict. Evidence records the failure."""
    print(f"ANALYSIS-ERROR property={prop}: {msg}")
    os.makedirs(EVIDENCE_DIR, exist_ok=True)
    ev = {"property_id": prop, "tier": tier, "seed": int(os.environ.get("VERIF_SEED", "0") or 0), "level": "other",
          "coverage": {"explanation": f"ANALYSIS-ERROR: {msg}", "evaluations": 1, "distinct_nontrivial": 0, "samples": [msg]},
          "wall_s": 0.0, "violations": 0}
    with open(os.path.join(EVIDENCE_DIR, f"{prop}.json"), "w", encoding="utf-8") as fh:
        json.dump(ev, fh, indent=1)
    return 2
