"""Regex -> epsilon-NFA (Engine E).  Patterns are parsed with the interpreter's own
re._parser (same dialect the library runs under) but never compiled or matched."""
from __future__ import annotations

import re
import re._constants as C
import re._parser as P
from dataclasses import dataclass, field
from typing import Dict, FrozenSet, List, Optional, Sequence, Set, Tuple

from ..srcmodel import AnalysisError

Interval = Tuple[int, int]
MAXU = 0x10FFFF


class CharSet:
    """Sorted, disjoint, non-adjacent closed intervals of code points."""
    __slots__ = ("iv",)

    def __init__(self, iv: Sequence[Interval] = ()):
        self.iv: Tuple[Interval, ...] = self._norm(iv)

    @staticmethod
    def _norm(iv) -> Tuple[Interval, ...]:
        out: List[List[int]] = []
        for lo, hi in sorted(iv):
            if lo > hi:
                continue
            if out and lo <= out[-1][1] + 1:
                out[-1][1] = max(out[-1][1], hi)
            else:
                out.append([lo, hi])
        return tuple((a, b) for a, b in out)

    def union(self, o: "CharSet") -> "CharSet":
        return CharSet(self.iv + o.iv)

    def complement(self, top: int) -> "CharSet":
        out = []
        cur = 0
        for lo, hi in self.iv:
            if lo > cur:
                out.append((cur, lo - 1))
            cur = hi + 1
        if cur <= top:
            out.append((cur, top))
        return CharSet(out)

    def intersect(self, o: "CharSet") -> "CharSet":
        out = []
        i = j = 0
        a, b = self.iv, o.iv
        while i < len(a) and j < len(b):
            lo = max(a[i][0], b[j][0])
            hi = min(a[i][1], b[j][1])
            if lo <= hi:
                out.append((lo, hi))
            if a[i][1] < b[j][1]:
                i += 1
            else:
                j += 1
        return CharSet(out)

    def __bool__(self) -> bool:
        return bool(self.iv)

    def __contains__(self, c: int) -> bool:
        return any(lo <= c <= hi for lo, hi in self.iv)

    def __eq__(self, o) -> bool:
        return isinstance(o, CharSet) and self.iv == o.iv

    def __hash__(self) -> int:
        return hash(self.iv)

    def sample(self) -> int:
        # prefer a printable ASCII representative
        for lo, hi in self.iv:
            for c in range(max(lo, 0x21), min(hi, 0x7E) + 1):
                return c
        return self.iv[0][0]

    def size(self) -> int:
        return sum(hi - lo + 1 for lo, hi in self.iv)

    def __repr__(self):
        def ch(c):
            return repr(chr(c))[1:-1] if 0x20 <= c < 0x7F else f"\\x{c:02x}" if c < 256 else f"\\u{c:04x}"
        return "[" + "".join(ch(lo) if lo == hi else f"{ch(lo)}-{ch(hi)}" for lo, hi in self.iv[:8]) + ("..." if len(self.iv) > 8 else "") + "]"


@dataclass
class Pos:
    """A character-consuming transition (a 'position' of the pattern)."""
    idx: int
    src: int
    dst: int
    cs: CharSet
    span: Tuple[int, int] = (0, 0)     # source span in the pattern text (best effort)
    label: str = ""


@dataclass
class Loop:
    idx: int
    entry: int          # loop head state
    body_in: Tuple[int, int]    # epsilon edge head -> body start
    back: Tuple[int, int]       # epsilon edge body end -> head
    minimal: bool = False


class NFA:
    def __init__(self, is_bytes: bool):
        self.n = 0
        self.eps: Dict[int, List[int]] = {}
        self.positions: List[Pos] = []
        self.out_pos: Dict[int, List[int]] = {}
        self.loops: List[Loop] = []
        self.loop_of_edge: Dict[Tuple[int, int], Tuple[int, str]] = {}   # eps edge -> (loop idx, "in"|"back")
        self.start = 0
        self.final = 0
        self.top = 255 if is_bytes else MAXU
        self.is_bytes = is_bytes
        self.tail = "any"          # what may follow the core match: "any" (match/search), "end" (\Z or fullmatch), "eol" ($)
        self.groups: Dict[str, int] = {}
        self.pattern = ""
        self.ignorecase = ""       # "" | "ascii" | "unicode"

    def new(self) -> int:
        s = self.n
        self.n += 1
        self.eps[s] = []
        self.out_pos[s] = []
        return s

    def add_eps(self, a: int, b: int) -> None:
        self.eps[a].append(b)

    def add_pos(self, a: int, b: int, cs: CharSet, label: str = "") -> Pos:
        p = Pos(len(self.positions), a, b, cs, label=label)
        self.positions.append(p)
        self.out_pos[a].append(p.idx)
        return p


CATS = {
    "CATEGORY_DIGIT": [(0x30, 0x39)],
    "CATEGORY_SPACE": [(0x09, 0x0D), (0x20, 0x20)],
    "CATEGORY_WORD": [(0x30, 0x39), (0x41, 0x5A), (0x5F, 0x5F), (0x61, 0x7A)],
}


_UNI_CATS: dict = {}


def _unicode_category(base: str):
    """The code points a str pattern's \\d / \\s / \\w matches without re.ASCII, as ranges - read off the interpreter's own
    character tables (sre uses str.isdecimal / str.isspace / str.isalnum-or-underscore), computed once per run."""
    if base not in _UNI_CATS:
        pred = {"CATEGORY_DIGIT": str.isdecimal, "CATEGORY_SPACE": str.isspace, "CATEGORY_WORD": lambda ch: ch.isalnum() or ch == "_"}[base]
        out, start = [], None
        for cp in range(0x110000):
            if pred(chr(cp)):
                if start is None:
                    start = cp
            elif start is not None:
                out.append((start, cp - 1))
                start = None
        if start is not None:
            out.append((start, 0x10FFFF))
        _UNI_CATS[base] = out
    return _UNI_CATS[base]


def build(pattern, flags: int = 0, api: str = "match", lookaround: str = "error", items_override=None) -> NFA:
    """api: match | fullmatch | search/sub (search semantics only matter for language questions).
    lookaround: "error" - a look-ahead / look-behind stops the analysis (language questions cannot ignore it);
                "epsilon" - it is recorded in nfa.assertions and built as an empty transition: the automaton then has every path
                the real matcher can take and possibly more (an assertion only ever prunes), which is what an upper bound on
                backtracking needs.
    items_override: build from these parsed items (a sub-pattern of `pattern`) instead of the whole pattern."""
    is_bytes = isinstance(pattern, (bytes, bytearray))
    try:
        tree = P.parse(pattern, flags)
    except re.error as e:
        raise AnalysisError(f"pattern does not parse: {e}")
    eff = tree.state.flags
    if eff & (re.MULTILINE | re.LOCALE):
        raise AnalysisError("regex flags MULTILINE/LOCALE are not modelled")
    dotall = bool(eff & re.DOTALL)
    ascii_only = is_bytes or bool(eff & re.ASCII)
    nfa = NFA(is_bytes)
    nfa.ignorecase = "ascii" if (eff & re.IGNORECASE and ascii_only) else "unicode" if eff & re.IGNORECASE else ""
    nfa.pattern = pattern if isinstance(pattern, str) else pattern.decode("latin-1")
    nfa.groups = dict(tree.state.groupdict)
    nfa.lookaround = lookaround
    nfa.assertions = []
    nfa.assert_edges = {}
    nfa.build_args = (pattern, flags)
    items = list(tree) if items_override is None else list(items_override)
    # trailing end anchor
    tail = "end" if api == "fullmatch" else "any"
    while items and items[-1][0] is C.AT and items[-1][1] in (C.AT_END, C.AT_END_STRING):
        a = items.pop()[1]
        t = "end" if a is C.AT_END_STRING else "eol"
        tail = t if tail == "any" or (tail == "eol" and t == "end") else tail
    nfa.tail = tail
    # leading start anchors are no-ops for match/fullmatch
    while items and items[0][0] is C.AT and items[0][1] in (C.AT_BEGINNING, C.AT_BEGINNING_STRING):
        if api not in ("match", "fullmatch"):
            raise AnalysisError("start anchor with search semantics not modelled")
        items.pop(0)
    s = nfa.new()
    nfa.start = s
    f = _seq(nfa, items, s, dotall, ascii_only)
    nfa.final = f
    return nfa


_CASE_TABLES: Dict[str, tuple] = {}


def _case_tables(mode: str):
    """(lower, inverse-lower, inverse-upper-of-lower, fixes) as the sre engine uses them for IGNORECASE matching."""
    if mode in _CASE_TABLES:
        return _CASE_TABLES[mode]
    import _sre
    top = 0x110000 if mode == "unicode" else 256
    low_f = _sre.unicode_tolower if mode == "unicode" else _sre.ascii_tolower
    low = [low_f(c) for c in range(top)]
    inv_low: Dict[int, List[int]] = {}
    inv_up: Dict[int, List[int]] = {}
    for c in range(top):
        l = low[c]
        if l != c:
            inv_low.setdefault(l, []).append(c)
        if mode == "unicode":
            try:
                u = ord(chr(l).upper()) if len(chr(l).upper()) == 1 else l
            except ValueError:
                u = l
        else:
            u = l - 32 if 97 <= l <= 122 else l
        if u != c:
            inv_up.setdefault(u, []).append(c)
    fixes: Dict[int, tuple] = {}
    if mode == "unicode":
        try:
            from re import _casefix
            fixes = dict(_casefix._EXTRA_CASES)
        except Exception:
            fixes = {}
    _CASE_TABLES[mode] = (low, inv_low, inv_up, fixes)
    return _CASE_TABLES[mode]


def _ignorecase(nfa: NFA, cs: CharSet) -> CharSet:
    """Characters an IGNORECASE match accepts for the (positive) set cs: c with lower(c) or upper(lower(c)) in the lowered,
    fix-extended set - the engine's own rule, so that e.g. KELVIN SIGN matches [k] and LONG S matches [s] in a str pattern."""
    mode = nfa.ignorecase
    if not mode:
        return cs
    low, inv_low, inv_up, fixes = _case_tables(mode)
    top = len(low)
    sprime = set()
    total = sum(hi - lo + 1 for lo, hi in cs.iv)
    if total > 300000:
        raise AnalysisError("IGNORECASE over a very large character class is not modelled")
    for lo_, hi_ in cs.iv:
        for c in range(lo_, min(hi_, top - 1) + 1):
            l = low[c]
            sprime.add(l)
            for k in fixes.get(l, ()):
                sprime.add(k)
    acc = set()
    for l in sprime:
        if low[l] == l:
            acc.add(l)
        acc.update(inv_low.get(l, ()))
        acc.update(inv_up.get(l, ()))
        # c with upper(lower(c)) == l where c == l itself
        acc.add(l) if low[l] == l else None
    out = sorted(acc)
    iv = []
    for c in out:
        if iv and iv[-1][1] + 1 == c:
            iv[-1] = (iv[-1][0], c)
        else:
            iv.append((c, c))
    res = CharSet(iv).union(cs)
    return res.intersect(CharSet([(0, nfa.top)]))


def _charset_of_in(nfa: NFA, av, ascii_only: bool) -> CharSet:
    neg = False
    cs = CharSet()
    for op, a in av:
        if op is C.NEGATE:
            neg = True
        elif op is C.LITERAL:
            cs = cs.union(CharSet([(a, a)]))
        elif op is C.RANGE:
            cs = cs.union(CharSet([a]))
        elif op is C.CATEGORY:
            name = str(a)
            base = name.replace("CATEGORY_NOT_", "CATEGORY_").replace("CATEGORY_UNI_", "CATEGORY_").replace("CATEGORY_LOC_", "CATEGORY_")
            if base not in CATS:
                raise AnalysisError(f"regex category {name} not modelled")
            c = CharSet(CATS[base]) if ascii_only else CharSet(_unicode_category(base)).intersect(CharSet([(0, nfa.top)]))
            if "NOT_" in name:
                c = c.complement(nfa.top)
            cs = cs.union(c)
        else:
            raise AnalysisError(f"regex class item {op} not modelled")
    cs = _ignorecase(nfa, cs)
    return cs.complement(nfa.top) if neg else cs


def _seq(nfa: NFA, items, s: int, dotall: bool, ascii_only: bool) -> int:
    cur = s
    for op, av in items:
        cur = _node(nfa, op, av, cur, dotall, ascii_only)
    return cur


def _node(nfa: NFA, op, av, s: int, dotall: bool, ascii_only: bool) -> int:
    if op is C.LITERAL:
        t = nfa.new()
        nfa.add_pos(s, t, _ignorecase(nfa, CharSet([(av, av)])))
        return t
    if op is C.NOT_LITERAL:
        t = nfa.new()
        nfa.add_pos(s, t, _ignorecase(nfa, CharSet([(av, av)])).complement(nfa.top))
        return t
    if op is C.ANY:
        t = nfa.new()
        cs = CharSet([(0, nfa.top)]) if dotall else CharSet([(10, 10)]).complement(nfa.top)
        nfa.add_pos(s, t, cs)
        return t
    if op is C.IN:
        t = nfa.new()
        nfa.add_pos(s, t, _charset_of_in(nfa, av, ascii_only))
        return t
    if op is C.BRANCH:
        _, alts = av
        t = nfa.new()
        for alt in alts:
            a = nfa.new()
            nfa.add_eps(s, a)
            e = _seq(nfa, list(alt), a, dotall, ascii_only)
            nfa.add_eps(e, t)
        return t
    if op is C.SUBPATTERN:
        group, add_flags, del_flags, p = av
        if add_flags or del_flags:
            raise AnalysisError("inline flag groups are not modelled")
        return _seq(nfa, list(p), s, dotall, ascii_only)
    if op in (C.MAX_REPEAT, C.MIN_REPEAT):
        lo, hi, p = av
        cur = s
        for _ in range(lo):
            cur = _seq(nfa, list(p), cur, dotall, ascii_only)
        if hi is C.MAXREPEAT:
            head = nfa.new()
            nfa.add_eps(cur, head)
            b = nfa.new()
            out = nfa.new()
            if op is C.MAX_REPEAT:
                nfa.add_eps(head, b)
                nfa.add_eps(head, out)
            else:
                nfa.add_eps(head, out)
                nfa.add_eps(head, b)
            e = _seq(nfa, list(p), b, dotall, ascii_only)
            nfa.add_eps(e, head)
            lp = Loop(len(nfa.loops), head, (head, b), (e, head), op is C.MIN_REPEAT)
            nfa.loops.append(lp)
            nfa.loop_of_edge[(head, b)] = (lp.idx, "in")
            nfa.loop_of_edge[(e, head)] = (lp.idx, "back")
            return out
        if hi - lo > 64:
            raise AnalysisError("bounded repeat too large to unroll")
        out = nfa.new()
        nfa.add_eps(cur, out)
        for _ in range(hi - lo):
            a = nfa.new()
            nfa.add_eps(cur, a)
            cur = _seq(nfa, list(p), a, dotall, ascii_only)
            nfa.add_eps(cur, out)
        return out
    if op is C.AT:
        raise AnalysisError(f"anchor {av} in the middle of a pattern is not modelled")
    if op in (C.ASSERT, C.ASSERT_NOT) and getattr(nfa, "lookaround", "error") == "epsilon":
        t = nfa.new()
        nfa.add_eps(s, t)
        nfa.assertions.append((op is C.ASSERT_NOT, av[0], av[1]))
        nfa.assert_edges[(s, t)] = (op is C.ASSERT_NOT, av[0], list(av[1]))
        return t
    raise AnalysisError(f"regex construct {op} is not modelled (back-references, look-arounds, atomic groups are outside the analysis)")


def eps_closure(nfa: NFA, states) -> FrozenSet[int]:
    seen = set(states)
    todo = list(states)
    while todo:
        s = todo.pop()
        for t in nfa.eps[s]:
            if t not in seen:
                seen.add(t)
                todo.append(t)
    return frozenset(seen)
