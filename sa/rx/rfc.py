"""Reference languages transcribed from RFC 4512 (sections 1.4, 2.5, 4.1) and RFC 4515 section 3.
Written from the ABNF, independently of any string in the library. Used only as automata."""
ALPHA = "A-Za-z"
DIGIT = "0-9"
KEYCHAR = f"[{ALPHA}{DIGIT}-]"
KEYSTRING = f"[{ALPHA}]{KEYCHAR}*"
NUMBER = "(?:[0-9]|[1-9][0-9]+)"
NUMERICOID = f"{NUMBER}(?:[.]{NUMBER})+"
DESCR = KEYSTRING
OID = f"(?:{DESCR}|{NUMERICOID})"
OPTIONS = f"(?:;{KEYCHAR}+)*"
ATTRIBUTEDESCRIPTION = f"{OID}{OPTIONS}"

SP = "[ ]+"
WSP = "[ ]*"
QDESCR = f"'{DESCR}'"
QDESCRS = f"(?:{QDESCR}|[(]{WSP}(?:{QDESCR}(?:{SP}{QDESCR})*)?{WSP}[)])"
OIDS = f"(?:{OID}|[(]{WSP}{OID}(?:{WSP}[$]{WSP}{OID})*{WSP}[)])"
DSTRING = r"(?:\\5[Cc]|\\27|[^'\\])+"
QDSTRING = f"'{DSTRING}'"
QDSTRINGS = f"(?:{QDSTRING}|[(]{WSP}(?:{QDSTRING}(?:{SP}{QDSTRING})*)?{WSP}[)])"
XSTRING = f"X-[{ALPHA}_-]+"
EXTENSIONS = f"(?:{SP}{XSTRING}{SP}{QDSTRINGS})*"
NOIDLEN = f"{NUMERICOID}(?:[{{]{NUMBER}[}}])?"
KIND = "(?:ABSTRACT|STRUCTURAL|AUXILIARY)"
USAGE = "(?:userApplications|directoryOperation|distributedOperation|dSAOperation)"

OBJECT_CLASS = (f"[(]{WSP}{NUMERICOID}(?:{SP}NAME{SP}{QDESCRS})?(?:{SP}DESC{SP}{QDSTRING})?(?:{SP}OBSOLETE)?(?:{SP}SUP{SP}{OIDS})?"
                f"(?:{SP}{KIND})?(?:{SP}MUST{SP}{OIDS})?(?:{SP}MAY{SP}{OIDS})?{EXTENSIONS}{WSP}[)]")
# the quoted SYNTAX form is the Active Directory variant the property names
ATTRIBUTE_TYPE = (f"[(]{WSP}{NUMERICOID}(?:{SP}NAME{SP}{QDESCRS})?(?:{SP}DESC{SP}{QDSTRING})?(?:{SP}OBSOLETE)?(?:{SP}SUP{SP}{OID})?"
                  f"(?:{SP}EQUALITY{SP}{OID})?(?:{SP}ORDERING{SP}{OID})?(?:{SP}SUBSTR{SP}{OID})?(?:{SP}SYNTAX{SP}(?:{NOIDLEN}|'{NOIDLEN}'))?"
                  f"(?:{SP}SINGLE-VALUE)?(?:{SP}COLLECTIVE)?(?:{SP}NO-USER-MODIFICATION)?(?:{SP}USAGE{SP}{USAGE})?{EXTENSIONS}{WSP}[)]")
DIT_CONTENT_RULE = (f"[(]{WSP}{NUMERICOID}(?:{SP}NAME{SP}{QDESCRS})?(?:{SP}DESC{SP}{QDSTRING})?(?:{SP}OBSOLETE)?(?:{SP}AUX{SP}{OIDS})?"
                    f"(?:{SP}MUST{SP}{OIDS})?(?:{SP}MAY{SP}{OIDS})?(?:{SP}NOT{SP}{OIDS})?{EXTENSIONS}{WSP}[)]")
