"""Discovery of every regular expression the package uses, with its use sites."""
from __future__ import annotations

import ast
import re
from dataclasses import dataclass
from typing import Any, Dict, List, Optional

from ..fold import Folder, Unfoldable
from ..srcmodel import AnalysisError, FuncInfo, Model, norm

APIS = {"match": "match", "fullmatch": "fullmatch", "search": "search", "sub": "sub", "subn": "sub", "findall": "search", "finditer": "search", "split": "search"}


@dataclass
class RxSite:
    module: str
    func: str              # qualified function containing the use ("" for module level)
    node: ast.AST
    api: str
    pattern: Any           # str or bytes
    flags: int
    name: str              # global name of the compiled pattern, or "<inline>"
    callback: Optional[ast.expr] = None
    subject: Optional[ast.expr] = None
    nested: bool = False       # the use sits inside a function nested in `func` (a callback)

    @property
    def line(self) -> int:
        return getattr(self.node, "lineno", 0)


def compiled_globals(model: Model, folder: Folder, modules=None) -> Dict[str, tuple]:
    """qualified global name -> (pattern, flags) for NAME = re.compile(...)"""
    out = {}
    for mn, m in model.modules.items():
        if modules is not None and mn not in modules:
            continue
        for name, sts in m.globals_.items():
            for st in sts:
                v = getattr(st, "value", None)
                if isinstance(v, ast.Call) and norm(v.func) == "re.compile":
                    try:
                        pat = folder.fold(v.args[0], mn)
                        flags = 0
                        if len(v.args) > 1:
                            flags = int(folder.fold(v.args[1], mn))
                        for k in v.keywords:
                            if k.arg == "flags":
                                flags = int(folder.fold(k.value, mn))
                    except Unfoldable as ex:
                        raise AnalysisError(f"{mn}.{name}: regular expression is not a foldable constant ({ex})")
                    out[f"{mn}.{name}"] = (pat, flags)
    return out


def find_sites(model: Model, modules=None) -> List[RxSite]:
    """modules: restrict to the use sites and compiled patterns of these modules (a check about the filter parser does not need the
    schema patterns to fold)"""
    folder = Folder(model)
    comp = compiled_globals(model, folder, modules)
    sites: List[RxSite] = []
    for fq, fi in list(model.functions.items()):
        if isinstance(fi.node, ast.Lambda) or (modules is not None and fi.module not in modules):
            continue
        nested_ids = {id(x) for d in ast.walk(fi.node) if isinstance(d, (ast.FunctionDef, ast.Lambda)) and d is not fi.node for x in ast.walk(d)}
        for n in ast.walk(fi.node):
            if not isinstance(n, ast.Call) or not isinstance(n.func, ast.Attribute):
                continue
            attr = n.func.attr
            if attr not in APIS:
                continue
            recv = n.func.value
            rtxt = norm(recv)
            if rtxt == "re":
                if not n.args:
                    continue
                p0 = n.args[0]
                pq = model.resolve_name(fi.module, norm(p0)) if isinstance(p0, (ast.Name, ast.Attribute)) else None
                if pq in comp:
                    pat, flags = comp[pq]
                    name = pq.split(".")[-1]
                else:
                    try:
                        pat = folder.fold(p0, fi.module)
                    except Unfoldable as ex:
                        raise AnalysisError(f"{fq}:{n.lineno}: pattern of re.{attr} is not a foldable constant ({ex})")
                    if not isinstance(pat, (str, bytes)):
                        raise AnalysisError(f"{fq}:{n.lineno}: pattern of re.{attr} folds to {type(pat).__name__}")
                    flags = 0
                    for k in n.keywords:
                        if k.arg == "flags":
                            flags = int(folder.fold(k.value, fi.module))
                    name = "<inline>"
                cb = n.args[1] if attr in ("sub", "subn") and len(n.args) > 1 else None
                subj = n.args[2] if attr in ("sub", "subn") and len(n.args) > 2 else (n.args[1] if attr not in ("sub", "subn") and len(n.args) > 1 else None)
                sites.append(RxSite(fi.module, fq, n, APIS[attr], pat, flags, name, cb, subj, id(n) in nested_ids))
            else:
                def alternatives(e: ast.expr, depth: int = 0) -> List[str]:
                    # the compiled patterns the receiver can be: a module-level pattern, a choice between two, a local bound once to either
                    if isinstance(e, ast.IfExp):
                        return alternatives(e.body, depth) + alternatives(e.orelse, depth)
                    if isinstance(e, (ast.Name, ast.Attribute)):
                        q_ = model.resolve_name(fi.module, norm(e))
                        if q_ in comp:
                            return [q_]
                        if isinstance(e, ast.Name) and depth < 2:
                            binds = [b.value for b in ast.walk(fi.node) if isinstance(b, (ast.Assign, ast.AnnAssign)) and b.value is not None and
                                     any(isinstance(t_, ast.Name) and t_.id == e.id for t_ in (b.targets if isinstance(b, ast.Assign) else [b.target]))]
                            if binds:
                                out_: List[str] = []
                                for b in binds:
                                    a_ = alternatives(b, depth + 1)
                                    if not a_:
                                        return []
                                    out_ += a_
                                return out_
                    return []
                for pq in alternatives(recv):
                    pat, flags = comp[pq]
                    cb = n.args[0] if attr in ("sub", "subn") and n.args else None
                    subj = n.args[1] if attr in ("sub", "subn") and len(n.args) > 1 else (n.args[0] if n.args else None)
                    sites.append(RxSite(fi.module, fq, n, APIS[attr], pat, flags, pq.split(".")[-1], cb, subj, id(n) in nested_ids))
    # compiled patterns never used still count (module-level compile)
    used = {s.name for s in sites}
    for q, (pat, flags) in comp.items():
        if q.split(".")[-1] not in used:
            mn = q.rsplit(".", 1)[0]
            sites.append(RxSite(mn, "", model.modules[mn].globals_[q.split(".")[-1]][0], "match", pat, flags, q.split(".")[-1]))
    return sites


def match_vars(func_node: ast.AST) -> Dict[str, str]:
    """local -> pattern text, for locals bound from <pattern>.match/fullmatch/search(...) or re.match(<pattern>, ...)."""
    out: Dict[str, str] = {}
    for n in ast.walk(func_node):
        if isinstance(n, ast.Assign) and isinstance(n.value, ast.Call) and isinstance(n.value.func, ast.Attribute) and n.value.func.attr in ("match", "fullmatch", "search"):
            c = n.value
            pat = ast.unparse(c.args[0]) if ast.unparse(c.func.value) == "re" and c.args else ast.unparse(c.func.value)
            for t in n.targets:
                if isinstance(t, ast.Name):
                    out[t.id] = pat
    return out


def group_accesses(func_node: ast.AST):
    """(node, match local, group name) for every m.group("name") and m["name"] on a local bound from a match call."""
    mv = match_vars(func_node)
    for c in ast.walk(func_node):
        if isinstance(c, ast.Call) and isinstance(c.func, ast.Attribute) and c.func.attr == "group" and isinstance(c.func.value, ast.Name) and c.args \
                and isinstance(c.args[0], ast.Constant) and isinstance(c.args[0].value, str):
            yield c, c.func.value.id, c.args[0].value
        elif isinstance(c, ast.Subscript) and isinstance(c.value, ast.Name) and c.value.id in mv and isinstance(c.slice, ast.Constant) and isinstance(c.slice.value, str) \
                and isinstance(c.ctx, ast.Load):
            yield c, c.value.id, c.slice.value


def always_participating(pattern, flags: int, group) -> bool:
    """Does group `group` (number or name) take part in every successful match of the pattern?  True when it does not sit under
    an alternation, an optional / zero-minimum repetition, or a conditional: then m.group(group) is never None."""
    import re._constants as RC
    import re._parser as RP
    try:
        tree = RP.parse(pattern, flags)
    except Exception:
        return False
    gid = group
    if isinstance(group, str):
        gid = tree.state.groupdict.get(group)
        if gid is None:
            return False
    if gid == 0:
        return True

    def walk(items, certain: bool):
        for op, av in items:
            if op is RC.SUBPATTERN:
                g, _add, _del, p = av
                if g == gid:
                    return certain
                r = walk(p, certain)
                if r is not None:
                    return r
            elif op is RC.BRANCH:
                for p in av[1]:
                    r = walk(p, False)
                    if r is not None:
                        return r
            elif op in (RC.MAX_REPEAT, RC.MIN_REPEAT, getattr(RC, "POSSESSIVE_REPEAT", None)):
                lo, _hi, p = av
                r = walk(p, certain and lo >= 1)
                if r is not None:
                    return r
            elif op is RC.GROUPREF_EXISTS:
                _g, yes, no = av
                for p in (yes, no):
                    if p is not None:
                        r = walk(p, False)
                        if r is not None:
                            return r
            elif op in (RC.ASSERT, RC.ASSERT_NOT):
                r = walk(av[1], certain and op is RC.ASSERT)
                if r is not None:
                    return r
            elif op is getattr(RC, "ATOMIC_GROUP", None):
                r = walk(av, certain)
                if r is not None:
                    return r
        return None
    return bool(walk(tree, True))
