"""Regular-language questions: inclusion / difference with shortest witnesses (on-the-fly subset construction)."""
from __future__ import annotations

from collections import deque
from typing import Dict, FrozenSet, List, Optional, Sequence, Set, Tuple

from ..srcmodel import AnalysisError
from .nfa import NFA, CharSet, eps_closure

NL = 10


def atoms(nfas: Sequence[NFA], extra: Sequence[int] = ()) -> List[CharSet]:
    """Partition of the alphabet induced by every class boundary in the automata."""
    top = max(n.top for n in nfas)
    cuts: Set[int] = {0, top + 1, NL, NL + 1}
    for n in nfas:
        for p in n.positions:
            for lo, hi in p.cs.iv:
                cuts.add(lo)
                cuts.add(hi + 1)
    for c in extra:
        cuts.add(c)
        cuts.add(c + 1)
    cs = sorted(c for c in cuts if 0 <= c <= top + 1)
    return [CharSet([(a, b - 1)]) for a, b in zip(cs, cs[1:])]


class Lang:
    """Language of whole input strings accepted at a use site: L(core) . Tail."""

    def __init__(self, nfa: NFA):
        self.nfa = nfa

    def start(self):
        return (eps_closure(self.nfa, [self.nfa.start]), False, 0)   # (core states, matched-already, tail state)

    def step(self, st, c: int):
        S, done, tail = st
        nfa = self.nfa
        nxt = set()
        for s in S:
            for pi in nfa.out_pos[s]:
                if c in nfa.positions[pi].cs:
                    nxt.add(nfa.positions[pi].dst)
        S2 = eps_closure(nfa, nxt)
        fin_before = nfa.final in S
        if nfa.tail == "any":
            done2 = done or fin_before
            return (S2, done2, 0)
        if nfa.tail == "eol":
            # after the core matched, exactly one trailing "\n" may follow
            tail2 = 0
            if fin_before and c == NL:
                tail2 = 1          # consumed the optional final newline: must be at end now
            return (S2, False, tail2)
        return (S2, False, 0)

    def accepts(self, st) -> bool:
        S, done, tail = st
        nfa = self.nfa
        if nfa.tail == "any":
            return done or nfa.final in S
        if nfa.tail == "eol":
            return nfa.final in S or tail == 1
        return nfa.final in S

    def dead(self, st) -> bool:
        S, done, tail = st
        return not S and not done and tail == 0

    @staticmethod
    def key(st):
        return st


def difference_witness(a: Lang, b: Lang, extra: Sequence[int] = (), limit: int = 400000, exclude: Optional[Lang] = None) -> Optional[List[int]]:
    """Shortest string in L(a) \\ L(b) (\\ L(exclude)), or None when L(a) is included."""
    parts = atoms([a.nfa, b.nfa] + ([exclude.nfa] if exclude else []), extra)
    reps = [p.sample() for p in parts]
    s0 = (a.start(), b.start(), exclude.start() if exclude else None)
    dq = deque([(s0, None, None)])
    seen = {s0: (None, None)}
    n = 0
    while dq:
        st, _, _ = dq.popleft()
        sa, sb, se = st
        if a.accepts(sa) and not b.accepts(sb) and not (exclude and exclude.accepts(se)):
            # rebuild
            out: List[int] = []
            cur = st
            while seen[cur][0] is not None:
                prev, c = seen[cur]
                out.append(c)
                cur = prev
            out.reverse()
            return out
        if a.dead(sa):
            continue
        for c in reps:
            na = a.step(sa, c)
            if a.dead(na) and not a.accepts(na):
                continue
            nb = b.step(sb, c)
            ne = exclude.step(se, c) if exclude else None
            nst = (na, nb, ne)
            if nst not in seen:
                seen[nst] = (st, c)
                dq.append((nst, None, None))
                n += 1
                if n > limit:
                    raise AnalysisError("language comparison exceeded the state limit")
    return None


def dfa_size(l: Lang, limit: int = 100000) -> int:
    parts = atoms([l.nfa])
    reps = [p.sample() for p in parts]
    seen = {l.start()}
    dq = deque([l.start()])
    while dq:
        st = dq.popleft()
        for c in reps:
            n = l.step(st, c)
            if n not in seen:
                seen.add(n)
                dq.append(n)
                if len(seen) > limit:
                    return limit
    return len(seen)
