"""Exponential-ambiguity (EDA) detection for backtracking matchers, with witness families."""
from __future__ import annotations

from collections import deque
from typing import Dict, FrozenSet, List, Optional, Set, Tuple

from ..srcmodel import AnalysisError
from .nfa import NFA, CharSet, Pos, eps_closure


class PosGraph:
    """Position multigraph: succ[p][q] = number (capped at 2) of distinct epsilon paths from the end
    of position p to the start of position q.  An epsilon path may revisit states but may not take a
    loop's body-entry edge and later the same loop's back edge (an empty iteration, which sre refuses)."""

    def __init__(self, nfa: NFA):
        self.nfa = nfa
        self.succ: Dict[int, Dict[int, int]] = {}
        self.first: Dict[int, int] = {}
        self.can_finish: Dict[int, bool] = {}
        self.first, _ = self._reach(nfa.start)
        for p in nfa.positions:
            self.succ[p.idx], self.can_finish[p.idx] = self._reach(p.dst)

    def _reach(self, s0: int) -> Tuple[Dict[int, int], bool]:
        nfa = self.nfa
        counts: Dict[int, int] = {}
        fin = False
        # DFS over (state, entered-loops); each distinct path counted
        stack: List[Tuple[int, FrozenSet[int], FrozenSet[Tuple[int, FrozenSet[int]]]]] = [(s0, frozenset(), frozenset())]
        steps = 0
        while stack:
            s, entered, onpath = stack.pop()
            steps += 1
            if steps > 200000:
                raise AnalysisError("epsilon-path enumeration exploded")
            key = (s, entered)
            if key in onpath:
                continue
            onpath2 = onpath | {key}
            if s == nfa.final:
                fin = True
            for pi in nfa.out_pos[s]:
                counts[pi] = min(2, counts.get(pi, 0) + 1)
            for t in nfa.eps[s]:
                le = nfa.loop_of_edge.get((s, t))
                ent = entered
                if le is not None:
                    li, kind = le
                    if kind == "in":
                        ent = entered | {li}
                    elif kind == "back" and li in entered:
                        continue          # empty iteration
                stack.append((t, ent, onpath2))
        return counts, fin


def find_eda(nfa: NFA):
    """Returns a list of findings: dict(position, via, kind, pump) for every fork site."""
    g = PosGraph(nfa)
    P = nfa.positions
    n = len(P)
    # positions reachable from the start
    reach: Set[int] = set()
    todo = list(g.first)
    while todo:
        p = todo.pop()
        if p in reach:
            continue
        reach.add(p)
        todo.extend(g.succ[p])
    inter_cache: Dict[Tuple[int, int], bool] = {}

    def inter(a: int, b: int) -> bool:
        k = (a, b) if a <= b else (b, a)
        if k not in inter_cache:
            inter_cache[k] = bool(P[a].cs.intersect(P[b].cs))
        return inter_cache[k]
    # product graph on unordered... keep ordered pairs for simplicity
    nodes: Dict[Tuple[int, int], int] = {}
    edges: Dict[Tuple[int, int], List[Tuple[int, int]]] = {}
    double_diag: Set[Tuple[Tuple[int, int], Tuple[int, int]]] = set()
    work = deque((p, p) for p in reach)
    seen: Set[Tuple[int, int]] = set(work)
    while work:
        a, b = work.popleft()
        outs = []
        for a2, ma in g.succ[a].items():
            for b2, mb in g.succ[b].items():
                if not inter(a2, b2):
                    continue
                if a == b and a2 == b2:
                    if ma >= 2:
                        double_diag.add(((a, b), (a2, b2)))
                    outs.append((a2, b2))
                    continue
                if a == b and a2 > b2:
                    continue      # symmetric
                outs.append((a2, b2))
        edges[(a, b)] = outs
        for o in outs:
            if o not in seen:
                seen.add(o)
                work.append(o)
        if len(seen) > 400000:
            raise AnalysisError("ambiguity product too large")
    # Tarjan SCC (iterative)
    index: Dict[Tuple[int, int], int] = {}
    low: Dict[Tuple[int, int], int] = {}
    comp: Dict[Tuple[int, int], int] = {}
    st: List[Tuple[int, int]] = []
    onst: Set[Tuple[int, int]] = set()
    cnt = 0
    ncomp = 0
    for root in list(edges):
        if root in index:
            continue
        it = [(root, iter(edges[root]))]
        index[root] = low[root] = cnt
        cnt += 1
        st.append(root)
        onst.add(root)
        while it:
            v, children = it[-1]
            advanced = False
            for w in children:
                if w not in index:
                    index[w] = low[w] = cnt
                    cnt += 1
                    st.append(w)
                    onst.add(w)
                    it.append((w, iter(edges.get(w, []))))
                    advanced = True
                    break
                elif w in onst:
                    low[v] = min(low[v], index[w])
            if advanced:
                continue
            it.pop()
            if it:
                u = it[-1][0]
                low[u] = min(low[u], low[v])
            if low[v] == index[v]:
                while True:
                    w = st.pop()
                    onst.discard(w)
                    comp[w] = ncomp
                    if w == v:
                        break
                ncomp += 1
    members: Dict[int, List[Tuple[int, int]]] = {}
    for v, c in comp.items():
        members.setdefault(c, []).append(v)
    findings = []
    for c, vs in members.items():
        cyclic = len(vs) > 1 or any(v in edges.get(v, []) for v in vs)
        if not cyclic:
            continue
        diag = [v for v in vs if v[0] == v[1]]
        if not diag:
            continue
        offd = [v for v in vs if v[0] != v[1]]
        dd = [(u, v) for (u, v) in double_diag if comp.get(u) == c and comp.get(v) == c]
        if not offd and not dd:
            continue
        # fork sites: diagonal node with an edge (inside the SCC) to an off-diagonal node, or a doubled diagonal edge
        forks = []
        vset = set(vs)
        for d in diag:
            for o in edges.get(d, []):
                if o in vset and o[0] != o[1]:
                    forks.append((d[0], o, "two positions"))
        for u, v in dd:
            forks.append((u[0], v, "two epsilon paths"))
        seenf = set()
        for p, o, kind in forks:
            key = (p, tuple(sorted(o)), kind)
            if key in seenf:
                continue
            seenf.add(key)
            pump = cycle_word(nfa, edges, vset, (p, p), o)
            findings.append({"position": p, "successors": o, "kind": kind, "pump": pump, "scc": c})
    return g, findings


def cycle_word(nfa: NFA, edges, vset, start, first) -> Optional[List[CharSet]]:
    """A word (list of char classes) labelling a cycle start -> first -> ... -> start inside the SCC."""
    P = nfa.positions
    prev: Dict[Tuple[int, int], Optional[Tuple[int, int]]] = {first: None}
    dq = deque([first])
    found = None
    while dq:
        v = dq.popleft()
        if v == start and v != first:
            found = v
            break
        for w in edges.get(v, []):
            if w in vset and w not in prev:
                prev[w] = v
                dq.append(w)
            if w == start and start not in prev:
                prev[start] = v
    if start not in prev and first != start:
        return None
    path = []
    v = start if first != start else first
    if first == start:
        return [P[start[0]].cs]
    while v is not None:
        path.append(v)
        v = prev[v]
    path.reverse()         # first ... start
    word = [P[a].cs.intersect(P[b].cs) for a, b in path]
    return word


def prefix_to(nfa: NFA, g: PosGraph, target: int) -> Optional[List[CharSet]]:
    """Shortest word from the start that ends by taking position `target`."""
    prev: Dict[int, Optional[int]] = {}
    dq = deque()
    for p in g.first:
        prev[p] = None
        dq.append(p)
    while dq:
        p = dq.popleft()
        if p == target:
            break
        for q in g.succ[p]:
            if q not in prev:
                prev[q] = p
                dq.append(q)
    if target not in prev:
        return None
    path = []
    p: Optional[int] = target
    while p is not None:
        path.append(p)
        p = prev[p]
    path.reverse()
    return [nfa.positions[i].cs for i in path]


def failing_suffix(nfa: NFA, x: List[CharSet], w: List[CharSet], max_len: int = 6):
    """Search a suffix s such that x w^k s is rejected as a whole (no prefix accepted under the use site's
    semantics for tail='any'; not fully accepted otherwise). Returns (sample string pieces) or None."""
    P = nfa.positions

    def step(S: FrozenSet[int], c: int) -> FrozenSet[int]:
        nxt = set()
        for s in S:
            for pi in nfa.out_pos[s]:
                if c in P[pi].cs:
                    nxt.add(P[pi].dst)
        return eps_closure(nfa, nxt)
    S = eps_closure(nfa, [nfa.start])
    accepted_prefix = nfa.final in S
    xs = [cs.sample() for cs in x]
    ws = [cs.sample() for cs in w]
    for c in xs:
        S = step(S, c)
        accepted_prefix = accepted_prefix or nfa.final in S
    for _ in range(3):
        for c in ws:
            S = step(S, c)
            accepted_prefix = accepted_prefix or nfa.final in S
    if not S:
        return None
    if nfa.tail == "any" and accepted_prefix:
        return None        # a prefix already matches: match() succeeds without exhausting the alternatives
    # candidate symbols: one representative per class boundary
    bounds = set()
    for p in P:
        for lo, hi in p.cs.iv:
            bounds.add(lo)
            bounds.add(min(hi + 1, nfa.top))
    cands = sorted(bounds | {0x21, 0x00 if nfa.is_bytes else 0x21})
    dq = deque([(S, [])])
    seen = {S}
    while dq:
        T, suf = dq.popleft()
        # end of input here: rejected if final not reachable with the tail semantics
        if suf:
            fin_here = nfa.final in T
            if not T:
                return xs, ws, suf
            if nfa.tail in ("end", "eol") and not fin_here and len(suf) >= 1:
                # not accepted as a whole; for 'eol' a trailing newline could still match: require the last char not to be \n
                if not (nfa.tail == "eol" and suf[-1] == 10):
                    return xs, ws, suf
        if len(suf) >= max_len:
            continue
        for c in cands:
            U = step(T, c)
            if nfa.tail == "any" and nfa.final in U:
                continue
            if U not in seen or not U:
                seen.add(U)
                dq.append((U, suf + [c]))
    return None


def show(codes: List[int], is_bytes: bool) -> str:
    return "".join(chr(c) if 0x20 <= c < 0x7F else (f"\\x{c:02x}" if c < 256 else f"\\u{c:04x}") for c in codes)


def count_runs(nfa: NFA, word: List[int], upto: int, cap: int = 1 << 20) -> int:
    """Number of distinct partial runs of the automaton over word[:upto] (paths from the start state; epsilon cycles are not
    followed twice), honouring look-ahead assertions recorded on epsilon edges: such an edge may be taken at position i only if
    the asserted sub-pattern matches (or, negated, does not match) a prefix of word[i:].  The rest of the word (word[upto:]) is
    only ever looked at by assertions."""
    from .nfa import build
    from .lang import Lang
    edges = getattr(nfa, "assert_edges", {})
    sub_cache: Dict[int, object] = {}

    def holds(key, i: int) -> bool:
        neg, direction, items = edges[key]
        if direction != 1:
            raise AnalysisError("look-behind assertions are not modelled")
        if id(items) not in sub_cache:
            pat, flags = nfa.build_args
            sub_cache[id(items)] = Lang(build(pat, flags, "match", lookaround="error", items_override=items))
        lg = sub_cache[id(items)]
        st = lg.start()
        ok = lg.accepts(st)
        for c in word[i:]:
            if ok:
                break
            st = lg.step(st, c)
            ok = lg.accepts(st)
        return (not ok) if neg else ok

    def closure(counts: Dict[int, int], i: int) -> Dict[int, int]:
        # number of epsilon paths from the counted states to every state reachable at position i (cycles cut)
        out: Dict[int, int] = {}

        def walk(s: int, k: int, on: frozenset) -> None:
            out[s] = min(cap, out.get(s, 0) + k)
            for t in nfa.eps[s]:
                if t in on:
                    continue
                if (s, t) in edges and not holds((s, t), i):
                    continue
                walk(t, k, on | {t})
        for s, k in counts.items():
            walk(s, k, frozenset([s]))
        return out
    cur = closure({nfa.start: 1}, 0)
    for i in range(upto):
        c = word[i]
        nxt: Dict[int, int] = {}
        for s, k in cur.items():
            for pi in nfa.out_pos[s]:
                if c in nfa.positions[pi].cs:
                    d = nfa.positions[pi].dst
                    nxt[d] = min(cap, nxt.get(d, 0) + k)
        cur = closure(nxt, i + 1)
        if not cur:
            return 0
    return min(cap, sum(cur.values()))


def confirmed_exponential(nfa: NFA, xs: List[int], ws: List[int], suf: List[int]) -> Optional[bool]:
    """With look-ahead assertions honoured: do the runs over x.w^n still double with n?  True / False / None (undecided)."""
    counts = []
    for n in (4, 6, 8, 10):
        word = list(xs) + list(ws) * n + list(suf)
        counts.append(count_runs(nfa, word, len(xs) + len(ws) * n))
    if counts[-1] >= 1 << 9 and counts[1] >= 1 << 5 and counts[-1] >= 8 * counts[1]:
        return True
    if counts[-1] <= 4 * max(1, counts[0]) and counts[-1] < 200:
        return False
    return None
