"""Shared structural lemmas about ASN1Reader (used by C02, C06, C07)."""
from __future__ import annotations

import ast
from typing import List, Optional, Set, Tuple

from .report import Finding, Run
from .srcmodel import AnalysisError, FuncInfo, Model, norm, walk_no_nested

READER = "sansldap.asn1.ASN1Reader"
NOT_ENOUGH = "sansldap.asn1.NotEnougData"
from .anchors import is_incomplete  # noqa: E402


def view_store_methods(model: Model) -> List[FuncInfo]:
    c = model.cls(READER)
    out = []
    for name, fi in c.methods.items():
        if name in ("__init__",):
            continue
        if any(isinstance(n, ast.Attribute) and n.attr == "_view" and isinstance(n.ctx, ast.Store) for n in ast.walk(fi.node)):
            out.append(fi)
    return out


def lemma_no_consume_on_failure(model: Model, run: Run, prop: str) -> None:
    """L1/L2: a read_* method advances `self._view` only after its validating helper
    returned, and by exactly the `consumed` value that helper returned."""
    rc = model.cls(READER)
    # advance helpers: a method whose only effect on the view is `self._view = self._view[<its parameter>:]`
    adv_helpers = {}
    for name, m_ in rc.methods.items():
        ps_ = m_.params()[1:]
        for st_ in m_.node.body:
            if isinstance(st_, ast.Assign) and any(isinstance(t, ast.Attribute) and t.attr == "_view" for t in st_.targets):
                v_ = st_.value
                if isinstance(v_, ast.Subscript) and isinstance(v_.slice, ast.Slice) and norm(v_.value) == "self._view" and v_.slice.upper is None and v_.slice.step is None \
                        and isinstance(v_.slice.lower, ast.Name) and v_.slice.lower.id in ps_ and len(ps_) == 1 and name not in ("skip_value",) and not name.startswith("read"):
                    adv_helpers[name] = m_

    def advance_of(stmt: ast.stmt):
        """the name holding the consumed count if stmt advances the view (directly or through an advance helper)"""
        if isinstance(stmt, ast.Assign) and any(isinstance(t, ast.Attribute) and t.attr == "_view" for t in stmt.targets):
            v_ = stmt.value
            if isinstance(v_, ast.Subscript) and isinstance(v_.slice, ast.Slice) and norm(v_.value) == "self._view" and v_.slice.upper is None and v_.slice.step is None and isinstance(v_.slice.lower, ast.Name):
                return v_.slice.lower.id
            return ""
        if isinstance(stmt, ast.Expr) and isinstance(stmt.value, ast.Call) and isinstance(stmt.value.func, ast.Attribute) and norm(stmt.value.func.value) == "self" \
                and stmt.value.func.attr in adv_helpers and len(stmt.value.args) == 1 and isinstance(stmt.value.args[0], ast.Name):
            return stmt.value.args[0].id
        return None
    methods = [f for f in rc.methods.values() if f.name not in ("skip_value", "get_remaining_data", "__init__") and f.name not in adv_helpers and
               any(advance_of(s_) is not None for s_ in ast.walk(f.node) if isinstance(s_, ast.stmt))]
    n_pairs = 0
    # L6: sibling agreement on reader state - every method that moves the view writes the same set of instance attributes
    # (a cached header, a position counter ... that one sibling forgets to reset is stale state)
    def writes(m_, seen=()):
        out = {n_.attr for n_ in ast.walk(m_.node) if isinstance(n_, ast.Attribute) and isinstance(n_.ctx, (ast.Store, ast.Del)) and norm(n_.value) == "self"}
        for c_ in ast.walk(m_.node):
            if isinstance(c_, ast.Call) and isinstance(c_.func, ast.Attribute) and norm(c_.func.value) == "self" and c_.func.attr in rc.methods and c_.func.attr not in seen and c_.func.attr != m_.name:
                out |= writes(rc.methods[c_.func.attr], seen + (m_.name,))
        return out
    movers = [f for f in rc.methods.values() if f.name != "__init__" and "_view" in writes(f)]
    wsets = {f.name: frozenset(writes(f)) for f in movers}
    if wsets:
        from collections import Counter
        common = Counter(wsets.values()).most_common(1)[0][0]
        for name, ws in sorted(wsets.items()):
            ok = ws == common
            run.ob("L6-reader-state-siblings", ok, {"method": name, "writes": sorted(ws)})
            if not ok:
                fi_ = rc.methods[name]
                run.fail(Finding("L6-reader-state-siblings", fi_.qualname, f"writes={sorted(ws)} vs {sorted(common)}",
                                 f"ASN1Reader.{name} moves the view but writes {sorted(ws)} while its siblings write {sorted(common)}: reader state it does not reset goes stale", model.loc(fi_.module, fi_.node)))
    for fi in methods:
        body = [s for s in fi.node.body if not (isinstance(s, ast.Expr) and isinstance(s.value, ast.Constant))]
        stores = [(i, s) for i, s in enumerate(body) if advance_of(s) is not None]
        nested_stores = [n for n in ast.walk(fi.node) if isinstance(n, ast.stmt) and advance_of(n) is not None]
        ok = len(stores) == 1 and len(nested_stores) == 1
        why = "exactly one top-level advance of the view expected"
        helper_q = None
        helper_qs: List[Optional[str]] = []
        if ok:
            i, st = stores[0]
            cname0 = advance_of(st)
            ok = bool(cname0)
            why = "the advance is not `self._view[consumed:]`"
            if ok:
                cname = cname0
                # binding of `consumed`: tuple-unpack of a helper call on self._view, earlier in the same block
                bind = [(j, s) for j, s in enumerate(body[:i]) if isinstance(s, ast.Assign) and isinstance(s.targets[0], ast.Tuple)
                        and len(s.targets[0].elts) == 2 and isinstance(s.targets[0].elts[1], ast.Name) and s.targets[0].elts[1].id == cname]
                ok = len(bind) == 1 and isinstance(bind[0][1].value, ast.Call) and bind[0][1].value.args and norm(bind[0][1].value.args[0]) == "self._view"
                why = "`consumed` is not the second result of a validating helper applied to self._view before the advance"
                if ok:
                    helper_q = model.resolve_name(fi.module, norm(bind[0][1].value.func))
                    fname = norm(bind[0][1].value.func)
                    helper_qs = [helper_q]
                    if helper_q not in model.functions and fname in fi.params():
                        # the helper is a parameter (one shared read-and-advance method): every call site in the class names it
                        idx = fi.params().index(fname) - 1
                        helper_qs = []
                        for m2 in model.cls(READER).methods.values():
                            for c in walk_no_nested(m2.node):
                                if isinstance(c, ast.Call) and isinstance(c.func, ast.Attribute) and c.func.attr == fi.name and isinstance(c.func.value, ast.Name) and c.func.value.id == "self":
                                    a = c.args[idx] if 0 <= idx < len(c.args) else next((k.value for k in c.keywords if k.arg == fname), None)
                                    helper_qs.append(model.resolve_name(m2.module, norm(a)) if isinstance(a, (ast.Name, ast.Attribute)) else None)
                    ok = bool(helper_qs) and all(h in model.functions for h in helper_qs)
                    why = "validating helper not resolved"
                    # nothing between the helper call and the advance may reassign consumed
                    between = body[bind[0][0] + 1:i]
                    if any(isinstance(n, ast.Name) and n.id == cname and isinstance(n.ctx, ast.Store) for s in between for n in ast.walk(s)):
                        ok, why = False, "`consumed` is reassigned between validation and advance"
        run.ob("L1-advance-after-validation", ok, {"method": fi.qualname.split(".")[-1], "helper": helper_q})
        if not ok:
            run.fail(Finding("L1-advance-after-validation", fi.qualname, norm(stores[0][1]) if stores else "no advance", why, model.loc(fi.module, stores[0][1] if stores else fi.node)))
        for hq in (helper_qs if ok else []):
            if hq is None:
                continue
            n_pairs += 1
            okh, whyh, term = helper_consumed_exact(model, model.functions[hq], 0)
            run.ob("L2-consumed-is-header-plus-content", okh, {"helper": hq.split(".")[-1], "terminal": term})
            if not okh:
                run.fail(Finding("L2-consumed-is-header-plus-content", hq, whyh[:100], f"{hq.split('.')[-1]}: {whyh}", model.loc(model.functions[hq].module, model.functions[hq].node)))
    run.floor("reader method / validating helper pairs", n_pairs, 3)


def helper_consumed_exact(model: Model, fi: FuncInfo, depth: int) -> Tuple[bool, str, str]:
    """Every return of the helper yields (content, consumed) where consumed is the
    helper's header length plus content length and the content slice was length-checked."""
    if depth > 4:
        return False, "helper chain too deep", ""
    rets = [n for n in walk_no_nested(fi.node) if isinstance(n, ast.Return)]
    if not rets:
        return False, "no return", ""
    data_param = fi.params()[0] if fi.params() else None
    term = ""
    for r in rets:
        v = r.value
        if isinstance(v, ast.Call):
            q = model.resolve_name(fi.module, norm(v.func))
            if q in model.functions and v.args and isinstance(v.args[0], ast.Name) and v.args[0].id == data_param:
                ok, why, term = helper_consumed_exact(model, model.functions[q], depth + 1)
                if not ok:
                    return ok, why, term
                continue
            return False, f"return of an unrecognised call `{norm(v)[:50]}`", ""
        if isinstance(v, ast.Tuple) and len(v.elts) == 2:
            second = v.elts[1]
            if isinstance(second, ast.Name):
                # bound from a tuple-unpack of a helper call on the data param
                binds = [s for s in walk_no_nested(fi.node) if isinstance(s, ast.Assign) and isinstance(s.targets[0], ast.Tuple) and len(s.targets[0].elts) == 2
                         and isinstance(s.targets[0].elts[1], ast.Name) and s.targets[0].elts[1].id == second.id]
                if len(binds) == 1 and isinstance(binds[0].value, ast.Call):
                    q = model.resolve_name(fi.module, norm(binds[0].value.func))
                    a0 = binds[0].value.args[0] if binds[0].value.args else None
                    if q in model.functions and isinstance(a0, ast.Name) and a0.id == data_param:
                        ok, why, term = helper_consumed_exact(model, model.functions[q], depth + 1)
                        if not ok:
                            return ok, why, term
                        continue
                return False, f"`{second.id}` is not the consumed count of a validating helper", ""
            # terminal form: (view[:data_length], tag_length + data_length)
            first = v.elts[0]
            if not (isinstance(second, ast.BinOp) and isinstance(second.op, ast.Add) and isinstance(second.left, ast.Name) and isinstance(second.right, ast.Name)):
                return False, f"consumed `{norm(second)}` is not header length + content length", ""
            names = {second.left.id, second.right.id}
            if not (isinstance(first, ast.Subscript) and isinstance(first.slice, ast.Slice) and first.slice.lower is None and isinstance(first.slice.upper, ast.Name) and first.slice.upper.id in names):
                return False, f"content `{norm(first)}` is not view[:content_length]", ""
            dlen = first.slice.upper.id
            tlen = (names - {dlen}).pop() if len(names) == 2 else None
            base = norm(first.value)
            # base must be the original view advanced by the header length, with a length check that raises NotEnougData
            adv = [s for s in walk_no_nested(fi.node) if isinstance(s, ast.Assign) and isinstance(s.targets[0], ast.Name) and s.targets[0].id == base
                   and isinstance(s.value, ast.Subscript) and isinstance(s.value.slice, ast.Slice) and s.value.slice.lower is not None and norm(s.value.slice.lower) == tlen]
            if len(adv) != 1:
                return False, f"`{base}` is not the input advanced by exactly the header length `{tlen}`", ""
            guards = []
            for n in walk_no_nested(fi.node):
                if isinstance(n, ast.If) and isinstance(n.test, ast.Compare) and len(n.test.ops) == 1 and n.body and isinstance(n.body[-1], ast.Raise):
                    t = n.test
                    txt = (norm(t.left), type(t.ops[0]).__name__, norm(t.comparators[0]))
                    if txt in ((f"len({base})", "Lt", dlen), (dlen, "Gt", f"len({base})")):
                        ex = n.body[-1].exc
                        exq = model.resolve_name(fi.module, norm(ex.func if isinstance(ex, ast.Call) else ex)) if ex is not None else None
                        if is_incomplete(model, exq) and n.lineno > adv[0].lineno and n.lineno < r.lineno:
                            guards.append(n)
            if not guards:
                return False, f"no `if len({base}) < {dlen}: raise NotEnougData` between the advance and the return (silent clamping)", ""
            # dlen / tlen must come from the header (unpack of header or of the header routine), not be recomputed
            term = fi.qualname.split(".")[-1]
            continue
        return False, f"unrecognised return `{norm(v)[:50]}`", ""
    return True, "", term


def stream_reader_uses(model: Model, entry_q: str = "sansldap._messages.unpack_ldap_message") -> Tuple[Set[str], List[str]]:
    """Methods invoked on the stream-level reader (the first parameter of unpack_ldap_message),
    following the parameter through calls to package functions."""
    seen: Set[Tuple[str, str]] = set()
    todo = [(entry_q, model.func(entry_q).params()[0])]
    methods: Set[str] = set()
    escapes: List[str] = []
    while todo:
        fq, pname = todo.pop()
        if (fq, pname) in seen:
            continue
        seen.add((fq, pname))
        fi = model.functions[fq]
        for n in walk_no_nested(fi.node):
            if isinstance(n, ast.Call):
                if isinstance(n.func, ast.Attribute) and isinstance(n.func.value, ast.Name) and n.func.value.id == pname:
                    methods.add(n.func.attr)
                for i, a in enumerate(n.args):
                    if isinstance(a, ast.Name) and a.id == pname:
                        q = model.resolve_name(fi.module, norm(n.func)) if isinstance(n.func, (ast.Name, ast.Attribute)) else None
                        if q in model.functions:
                            ps = model.functions[q].params()
                            if i < len(ps):
                                todo.append((q, ps[i]))
                        else:
                            escapes.append(f"{fq}: {norm(n)[:60]}")
            elif isinstance(n, (ast.Assign, ast.Return)) and n.value is not None and isinstance(n.value, ast.Name) and n.value.id == pname:
                escapes.append(f"{fq}: {norm(n)[:60]}")
    return methods, escapes


def lemma_no_silent_clamp(model: Model, run: Run, mr) -> None:
    """T1: in the reader side of asn1.py every upper-bounded slice of the input is dominated by a
    fact that the input is at least that long (slicing never raises: a short input would silently
    yield fewer octets and a wrong length/tag/value)."""
    from .facts import const_int
    n_sites = 0
    from .anchors import asn1 as asn1_anchors, reachable
    an = asn1_anchors(model)
    reader_side = {f.qualname for h in list(an.reader_helper.values()) + [an.header] for f in reachable(model, h)} | {fi.qualname for fi in model.cls(READER).methods.values()}
    for fq, fi in list(model.functions.items()):
        if fi.module != "sansldap.asn1" or isinstance(fi.node, ast.Lambda) or fq not in reader_side:
            continue
        fl = mr.flow_for(fi)
        for n in walk_no_nested(fi.node):
            if isinstance(n, ast.Subscript) and isinstance(n.slice, ast.Slice) and n.slice.upper is not None and isinstance(n.ctx, ast.Load):
                bt = mr.r.strip_opt(mr.r.type_of(n.value, fi))
                if bt[0] != "prim" or bt[1] not in ("bytes", "bytearray", "memoryview", "byteslike"):
                    continue
                n_sites += 1
                x = norm(n.value)
                up = n.slice.upper
                facts = fl.facts_at.get(id(n), frozenset())
                cu = const_int(up)
                if cu is not None:
                    ok = cu <= 0 or ("T", x) in facts and cu == 1 or any(f[0] == "LEN>=" and f[1] == x and f[2].lstrip("-").isdigit() and int(f[2]) >= cu for f in facts)
                else:
                    ok = ("LEN>=", x, norm(up)) in facts
                    if not ok and isinstance(up, ast.BinOp) and isinstance(up.op, ast.Add) and isinstance(up.left, ast.Name) and const_int(up.right) == 1:
                        # x[i:i + 1] with 0 <= i < len(x)
                        ok = ("LTLEN", up.left.id, x) in facts or ("IDX", up.left.id, x) in facts or \
                            any(f[0] == "LT" and f[1] == up.left.id and (("LEN>=", x, f[2]) in facts or ("ISLEN", f[2], x) in facts) for f in facts)     # i < V <= len(x)
                run.ob("T1-no-silent-clamp", ok, {"function": fi.name, "slice": norm(n)})
                if not ok:
                    run.fail(Finding("T1-no-silent-clamp", fq, norm(n), f"`{norm(n)}` is taken without a dominating check that `{x}` has at least `{norm(up)}` octets: "
                                     "a short input is silently truncated instead of raising NotEnougData", model.loc(fi.module, n)))
    # T2: a single octet of the input is read in a way that does not depend on the item format of the buffer it came in: `view[i]` on a
    # memoryview yields the item *as its format says* (a signed char for array('b') / .cast('b'), a bytes object for 'c'), while
    # `struct.unpack("B", view[i:i + 1])` and `bytes(view[i:i + 1])` see the octet.  The reader takes "bytes, bytearray or memoryview":
    # an element read by index is only an octet when the buffer is known to be bytes / bytearray / a view made here over those.
    n_idx = 0
    for fq, fi in list(model.functions.items()):
        if fi.module != "sansldap.asn1" or isinstance(fi.node, ast.Lambda) or fq not in reader_side:
            continue
        for n in walk_no_nested(fi.node):
            if isinstance(n, ast.Subscript) and not isinstance(n.slice, ast.Slice) and isinstance(n.ctx, ast.Load):
                bt = mr.r.strip_opt(mr.r.type_of(n.value, fi))
                if bt[0] != "prim" or bt[1] not in ("memoryview", "byteslike"):
                    continue
                n_idx += 1
                run.ob("T2-octets-read-independently-of-the-buffer-format", False, {"function": fi.name, "read": norm(n)})
                run.fail(Finding("T2-octets-read-independently-of-the-buffer-format", fq, norm(n),
                                 f"`{norm(n)}` reads an element of a caller-supplied buffer by index: for a memoryview that is the item as the view's format converts it "
                                 "(negative for a signed-char view, a bytes object for 'c'), not the octet - the same octets decode to a different length or tag depending on "
                                 "what holds them", model.loc(fi.module, n)))
    run.ob("T2-octets-read-independently-of-the-buffer-format", True, {"indexed_reads_of_views": n_idx})
    run.floor("upper-bounded input slices and indexed reads", n_sites + n_idx, 2)


def _truth_table(e: ast.expr, view: str, n: int):
    """value of a __bool__ body expression when the view holds n octets (None: a form that is not modelled)"""
    if isinstance(e, ast.Constant):
        return e.value
    if norm(e) == view:
        return ("view", n)
    if isinstance(e, ast.Attribute) and e.attr in ("nbytes",) and norm(e.value) == view:
        return n
    if isinstance(e, ast.Call) and isinstance(e.func, ast.Name) and e.func.id in ("bool", "len") and len(e.args) == 1 and not e.keywords:
        v = _truth_table(e.args[0], view, n)
        if v is None:
            return None
        if e.func.id == "len":
            return v[1] if isinstance(v, tuple) else None
        return (v[1] > 0) if isinstance(v, tuple) else bool(v)
    if isinstance(e, ast.UnaryOp) and isinstance(e.op, ast.Not):
        v = _truth_table(e.operand, view, n)
        if v is None:
            return None
        return not ((v[1] > 0) if isinstance(v, tuple) else v)
    if isinstance(e, ast.IfExp):
        t = _truth_table(e.test, view, n)
        if t is None:
            return None
        t = (t[1] > 0) if isinstance(t, tuple) else t
        return _truth_table(e.body if t else e.orelse, view, n)
    if isinstance(e, ast.BoolOp):
        vals = [_truth_table(v, view, n) for v in e.values]
        if any(v is None for v in vals):
            return None
        bs = [(v[1] > 0) if isinstance(v, tuple) else bool(v) for v in vals]
        return all(bs) if isinstance(e.op, ast.And) else any(bs)
    if isinstance(e, ast.Compare) and len(e.ops) == 1:
        a, b = _truth_table(e.left, view, n), _truth_table(e.comparators[0], view, n)
        if a is None or b is None or isinstance(a, tuple) or isinstance(b, tuple) or isinstance(a, bool) or isinstance(b, bool):
            return None
        op = e.ops[0]
        table = {ast.Gt: a > b, ast.GtE: a >= b, ast.Lt: a < b, ast.LtE: a <= b, ast.Eq: a == b, ast.NotEq: a != b}
        return table.get(type(op))
    return None


def lemma_reader_truth(model: Model, run: Run) -> None:
    """L8: `while reader:` / `if reader:` are the only tests for "octets left" in the decoders and in receive(); the reader is
    true exactly when its view holds at least one octet.  Anything weaker loses delivered octets (they are neither parsed
    nor kept), anything stronger spins or raises on an empty remainder."""
    rc = model.cls(READER)
    fi = rc.methods.get("__bool__") or rc.methods.get("__len__")
    if fi is None:
        raise AnalysisError("ASN1Reader defines neither __bool__ nor __len__: truth of a reader is not its remaining data")
    body = [s for s in fi.node.body if not (isinstance(s, ast.Expr) and isinstance(s.value, ast.Constant))]
    if len(body) != 1 or not isinstance(body[0], ast.Return) or body[0].value is None:
        raise AnalysisError(f"{fi.qualname}: not a single return expression")
    e = body[0].value
    bad = None
    for n in range(0, 300):
        v = _truth_table(e, "self._view", n)
        if v is None:
            raise AnalysisError(f"{fi.qualname}: `{norm(e)}` is not a modelled test of self._view")
        if fi.name == "__len__":
            v = v[1] if isinstance(v, tuple) else v
            if isinstance(v, bool) or not isinstance(v, int):
                raise AnalysisError(f"{fi.qualname}: `{norm(e)}` is not a length")
            truth = v > 0
        else:
            truth = (v[1] > 0) if isinstance(v, tuple) else bool(v)
        if truth != (n > 0):
            bad = n
            break
    ok = bad is None
    run.ob("L8-reader-true-iff-octets-remain", ok, {"method": fi.qualname.split(".")[-1], "expression": norm(e)})
    if not ok:
        run.fail(Finding("L8-reader-true-iff-octets-remain", fi.qualname, norm(e)[:80],
                         f"ASN1Reader.{fi.name} returns `{norm(e)}`: with {bad} octet(s) left the reader is {'false' if bad else 'true'}, so "
                         + ("delivered octets are dropped by every `while reader:` loop instead of being parsed or kept for the next delivery" if bad else "an empty remainder is read"),
                         model.loc(fi.module, body[0])))


def lemma_identity_before_completeness(model: Model, run: Run) -> None:
    """L7: in the validating helper every rejection that depends on the header alone (wrong identifier) comes before the
    "content not complete yet" exit: octets that can never become the expected element are refused on arrival, not after
    waiting for as many further octets as their bogus length field asks for."""
    from .anchors import asn1 as asn1_anchors
    an = asn1_anchors(model)
    fi = an.validate
    raises = [r for r in walk_no_nested(fi.node) if isinstance(r, ast.Raise) and r.exc is not None]
    ne, other = [], []
    for r in raises:
        q = model.resolve_name(fi.module, norm(r.exc.func if isinstance(r.exc, ast.Call) else r.exc))
        (ne if is_incomplete(model, q) else other).append(r)
    run.coverage["validating_helper_raises"] = {"incomplete": len(ne), "rejecting": len(other)}
    for r in other:
        late = [x for x in ne if x.lineno < r.lineno]
        ok = not late
        run.ob("L7-identifier-rejected-before-waiting-for-content", ok, {"helper": fi.name, "raise": norm(r)[:60]})
        if not ok:
            run.fail(Finding("L7-identifier-rejected-before-waiting-for-content", fi.qualname, norm(r.exc.func if isinstance(r.exc, ast.Call) else r.exc),
                             f"{fi.name} raises the incomplete-data signal (line {late[0].lineno}) before it rejects a wrong identifier (line {r.lineno}): "
                             "invalid input is buffered until its claimed length has arrived instead of failing the session at once", model.loc(fi.module, r)))


def lemma_peek_is_pure(model: Model, run: Run) -> None:
    """L9: a reader method that does not advance the view (peek_header, get_remaining_data, __bool__ ...) writes no reader
    state.  Anything it remembers (a cached header keyed on a position or on id()) can be stale after the next advance, and
    the movers do not know they have to reset it (L6 only compares the movers with each other)."""
    rc = model.cls(READER)

    def writes(m_) -> Set[str]:
        return {n_.attr for n_ in ast.walk(m_.node) if isinstance(n_, ast.Attribute) and isinstance(n_.ctx, (ast.Store, ast.Del)) and norm(n_.value) == "self"}
    n = 0
    for name, fi in sorted(rc.methods.items()):
        if name == "__init__":
            continue
        ws = writes(fi)
        # movers: write the view attribute, directly or through another method of the class
        calls_mover = any(isinstance(c_, ast.Call) and isinstance(c_.func, ast.Attribute) and norm(c_.func.value) == "self" and c_.func.attr in rc.methods and
                          "_view" in writes(rc.methods[c_.func.attr]) for c_ in ast.walk(fi.node))
        if "_view" in ws or calls_mover:
            continue
        n += 1
        ok = not ws
        run.ob("L9-non-advancing-methods-keep-no-state", ok, {"method": name, "writes": sorted(ws)})
        if not ok:
            run.fail(Finding("L9-non-advancing-methods-keep-no-state", fi.qualname, f"writes={sorted(ws)}",
                             f"ASN1Reader.{name} does not advance the reader but writes {sorted(ws)}: whatever it remembers is not reset by the methods that advance "
                             "and can describe a value that has already been consumed", model.loc(fi.module, fi.node)))
    run.floor("non-advancing reader methods", n, 2)


def receive_anchor(model: Model):
    """LDAPSession.receive as the checks anchored on it need it: the method that itself sets up the reader over the incoming
    bytes (directly or through a module-level helper).  When receive has become a thin wrapper around another method of the
    class (a template method with hooks) the path rules written for it do not describe the code any more: that is an analysis
    error of the check, not a finding about the library."""
    fi = model.find_method("sansldap._session.LDAPSession", "receive")
    if fi is None:
        raise AnalysisError("LDAPSession.receive not found")

    def builds_reader(f, depth=0) -> bool:
        for c in walk_no_nested(f.node):
            if isinstance(c, ast.Call) and isinstance(c.func, (ast.Name, ast.Attribute)):
                if model.resolve_name(f.module, norm(c.func)) == READER:
                    return True
                if isinstance(c.func, ast.Name) and depth < 2:
                    q = model.resolve_name(f.module, c.func.id)
                    g = model.functions.get(q) if q else None
                    if g is not None and g.cls is None and not isinstance(g.node, ast.Lambda) and builds_reader(g, depth + 1):
                        return True
        return False
    def reaches_reader(f, depth=0) -> bool:
        """... or through methods of the session it calls on self (the decode loop moved into a private method)"""
        if builds_reader(f):
            return True
        if depth >= 2 or not f.cls:
            return False
        for c in walk_no_nested(f.node):
            if isinstance(c, ast.Call) and isinstance(c.func, ast.Attribute) and isinstance(c.func.value, ast.Name) and c.func.value.id == "self":
                g = model.find_method(f.cls, c.func.attr)
                if g is not None and g is not f and not isinstance(g.node, ast.Lambda) and reaches_reader(g, depth + 1):
                    return True
        return False
    for _hop in range(2):
        if builds_reader(fi):
            break
        # a template method: receive is `try: return self._receive(data) except ...: <attach the notification>; raise`
        body = [b for b in fi.node.body if not (isinstance(b, ast.Expr) and isinstance(b.value, ast.Constant))]
        st = body[0] if len(body) == 1 else None
        inner = st.body[0] if isinstance(st, ast.Try) and len(st.body) == 1 and not st.orelse else st
        nxt = None
        if isinstance(inner, ast.Return) and isinstance(inner.value, ast.Call) and isinstance(inner.value.func, ast.Attribute) and \
                isinstance(inner.value.func.value, ast.Name) and inner.value.func.value.id == "self" and not inner.value.keywords and \
                [norm(a) for a in inner.value.args] == fi.params()[1:]:
            nxt = model.find_method("sansldap._session.LDAPSession", inner.value.func.attr)
            # the decode method must be the base class's own for every session class (no override changes what is analysed)
            if nxt is not None and any(model.find_method(k, inner.value.func.attr) is not nxt for k in model.subclasses("sansldap._session.LDAPSession")):
                nxt = None
        if nxt is None or isinstance(nxt.node, ast.Lambda):
            break
        fi = nxt
    if not reaches_reader(fi):
        raise AnalysisError("LDAPSession.receive does not set up the reader itself (it delegates its whole body to another method): the rules anchored on receive do not apply")
    return fi


def lemma_consuming_methods_advance(model: Model, run: Run, rule: str = "L11-consuming-methods-advance") -> None:
    """L11: every ASN1Reader method that consumes (read_*, skip_value) re-binds the reader's view on every path that returns -
    directly or through another method of the reader that does.  A path that returns with the view untouched leaves the
    reader where it was: every `while reader: ... reader.skip_value(h)` loop that relies on it spins forever on the input
    that takes that path."""
    from .props.c07 import must_pass
    rd = model.cls(READER)
    # the attribute that holds the view: what peek_header / __bool__ read
    views = {norm(x) for m in rd.methods.values() if m.name in ("__bool__", "__len__", "peek_header") for x in ast.walk(m.node)
             if isinstance(x, ast.Attribute) and isinstance(x.value, ast.Name) and x.value.id == "self"}
    if not views:
        raise AnalysisError("ASN1Reader: the attribute holding the remaining input was not identified")
    memo = {}

    def advances(m) -> bool:
        if m.qualname in memo:
            return memo[m.qualname]
        memo[m.qualname] = False

        def hit(x) -> bool:
            if isinstance(x, (ast.Assign, ast.AugAssign, ast.AnnAssign)):
                tg = x.targets if isinstance(x, ast.Assign) else [x.target]
                if any(norm(t_) in views for t_ in tg):
                    return True
            if isinstance(x, ast.Call) and isinstance(x.func, ast.Attribute) and isinstance(x.func.value, ast.Name) and x.func.value.id == "self":
                sub = rd.methods.get(x.func.attr)
                if sub is not None and sub is not m and not isinstance(sub.node, ast.Lambda) and advances(sub):
                    return True
            return False
        memo[m.qualname] = must_pass(m.node.body, hit)
        return memo[m.qualname]
    n = 0
    for name, m in sorted(rd.methods.items()):
        if not (name.startswith("read_") or name == "skip_value") or isinstance(m.node, ast.Lambda):
            continue
        n += 1
        ok = advances(m)
        run.ob(rule, ok, {"method": name})
        if not ok:
            run.fail(Finding(rule, m.qualname, f"{name}|path-without-advance", f"ASN1Reader.{name} can return without re-binding the view it reads from: the value it was asked to consume "
                             "is still at the front of the reader, and a decode loop that relies on the call to make progress does not terminate", model.loc(m.module, m.node)))
    run.floor("consuming reader methods", n, 6)


def lemma_no_deferred_loop_capture(model: Model, run: Run, modules, rule: str, consequence: str) -> None:
    """A lambda / nested function written inside a loop that reads a name the loop re-binds (the loop variable, or a local
    assigned in the body) sees the value of the *last* iteration when it is called later.  When the closure is stored for
    later (appended, put in a container, returned, yielded) instead of being called in the same iteration, every stored
    closure works on the last iteration's value.  Names bound as the closure's own parameters (the `x=x` idiom) are not
    captured."""
    n = 0
    for fq, fi in sorted(model.functions.items()):
        if fi.module not in modules or isinstance(fi.node, ast.Lambda) or "<locals>" in fq:
            continue
        for loop in [x for x in walk_no_nested(fi.node) if isinstance(x, (ast.For, ast.While))]:
            rebound = {x.id for b in loop.body for x in ast.walk(b) if isinstance(x, ast.Name) and isinstance(x.ctx, ast.Store)}
            if isinstance(loop, ast.For):
                rebound |= {x.id for x in ast.walk(loop.target) if isinstance(x, ast.Name)}
            if not rebound:
                continue
            for st in loop.body:
                for x in ast.walk(st):
                    if not isinstance(x, (ast.Lambda, ast.FunctionDef)) or x is fi.node:
                        continue
                    a = x.args
                    own = {p.arg for p in a.posonlyargs + a.args + a.kwonlyargs} | ({a.vararg.arg} if a.vararg else set()) | ({a.kwarg.arg} if a.kwarg else set())
                    body = [x.body] if isinstance(x, ast.Lambda) else x.body
                    own |= {y.id for b in body for y in ast.walk(b) if isinstance(y, ast.Name) and isinstance(y.ctx, ast.Store)}
                    free = {y.id for b in body for y in ast.walk(b) if isinstance(y, ast.Name) and isinstance(y.ctx, ast.Load)} - own
                    captured = sorted(free & rebound)
                    if not captured:
                        continue
                    n += 1
                    # is the closure kept for later?
                    stored = None
                    if isinstance(x, ast.Lambda):
                        for y in ast.walk(st):
                            if isinstance(y, ast.Call) and isinstance(y.func, ast.Attribute) and y.func.attr in ("append", "extend", "insert", "add", "setdefault", "appendleft", "put") and \
                                    any(z is x for a_ in list(y.args) + [k.value for k in y.keywords] for z in ast.walk(a_)):
                                stored = y
                            elif isinstance(y, (ast.Assign, ast.AnnAssign)) and y.value is not None and any(z is x for z in ast.walk(y.value)) and \
                                    (any(isinstance(t_, (ast.Subscript, ast.Attribute)) for t_ in (y.targets if isinstance(y, ast.Assign) else [y.target])) or
                                     isinstance(y.value, (ast.List, ast.Tuple, ast.Dict, ast.Set))):
                                stored = y
                            elif isinstance(y, (ast.Yield, ast.Return)) and y.value is not None and any(z is x for z in ast.walk(y.value)):
                                stored = y
                    else:
                        # a nested def: kept when its name is appended / stored / returned in the loop
                        for y in ast.walk(st):
                            if isinstance(y, ast.Call) and isinstance(y.func, ast.Attribute) and y.func.attr in ("append", "extend", "insert", "add", "setdefault") and \
                                    any(isinstance(z, ast.Name) and z.id == x.name for a_ in y.args for z in ast.walk(a_)):
                                stored = y
                    ok = stored is None
                    run.ob(rule, ok, {"function": fq.split("sansldap.")[-1], "captures": captured})
                    if not ok:
                        run.fail(Finding(rule, fq, f"{','.join(captured)}|{norm(stored)[:60]}", f"{fi.name} keeps a closure for later (`{norm(stored)[:60]}`) that reads `{', '.join(captured)}`, which the loop "
                                         f"re-binds on every iteration: when the closures run they all see the last iteration's value; {consequence}", model.loc(fi.module, stored)))
    run.ob(rule, True, {"closures_in_loops": n})
