"""Shared extraction of session path summaries + helpers for C05/C08-C12."""
from __future__ import annotations

import ast
from typing import Dict, List, Optional, Tuple

from .report import Finding, Run
from .session import (AttrRef, Const, CounterVal, Effect, EnumV, Interp, Obj, Packed, PathSummary, Sym, Unknown, desc,
                      SESSION_MOD, STATE_ENUM)
from .srcmodel import AnalysisError, Model, norm

STATES = ["BEFORE_OPEN", "BINDING", "OPENED", "CLOSED"]
MSG_BASE = "sansldap._messages.LDAPMessage"
M = "sansldap._messages."
OUT = "_outstanding_requests"
SEARCH = "_search_requests"
OBUF = "_outgoing_buffer"
SESSION_CLASSES = [f"{SESSION_MOD}.LDAPSession", f"{SESSION_MOD}.LDAPClient", f"{SESSION_MOD}.LDAPServer"]
NOTICE_ATOM = "ExtendedOperations.LDAP_NOTICE_OF_DISCONNECTION"
SASL_ATOM = "LDAPResultCode.SASL_BIND_IN_PROGRESS"


class Extraction:
    def __init__(self, model: Model):
        self.m = model
        for q in SESSION_CLASSES:
            model.cls(q)
        st = model.cls(STATE_ENUM)
        members = [k for k in st.consts if k.isupper()]
        if sorted(members) != sorted(STATES):
            raise AnalysisError(f"SessionState members changed: {members}")
        self.message_classes = model.subclasses(MSG_BASE, strict=True)
        if len(self.message_classes) < 9:
            raise AnalysisError("fewer than 9 LDAPMessage subclasses found")
        self.paths: Dict[str, List[PathSummary]] = {}
        self.entries: Dict[str, List[str]] = {}
        self.interp: Dict[str, Interp] = {}
        for q in SESSION_CLASSES:
            it = Interp(model, q, self.message_classes)
            self.interp[q] = it
            c = model.classes[q]
            # (alternative constructors and static helpers have no session of their own to act on: what they do to the session they
            # build is done through that session's entries, which are all here)
            names = sorted({n for k in c.mro if k in model.classes for n, fi in model.classes[k].methods.items()
                            if not n.startswith("_") and not isinstance(fi.node, ast.Lambda) and not fi.is_classmethod and not fi.is_staticmethod})
            self.entries[q] = names
            ps: List[PathSummary] = []
            for e in names:
                for pre in STATES:
                    # BEFORE_OPEN implies both id sets are empty (invariant I0, checked by C08:
                    # no path that stays in BEFORE_OPEN adds to a set; __init__ creates them empty)
                    pre_empty = {OUT: "empty", SEARCH: "empty"} if pre == "BEFORE_OPEN" else None
                    ps.extend(it.run_entry(e, pre, pre_empty))
            self.paths[q] = ps
        self.init_paths: Dict[str, List[PathSummary]] = {}
        for q in SESSION_CLASSES:
            self.init_paths[q] = self.interp[q].run_entry("__init__", "?")

    # ------------------------------------------------------------- helpers
    def all_paths(self):
        for q in SESSION_CLASSES:
            for p in self.paths[q]:
                yield p

    def sending_entries(self, q: str) -> List[str]:
        out = set()
        for p in self.paths[q]:
            if any(e.kind == "extend" and e.a == OBUF for e in p.effects):
                out.add(p.entry)
        return sorted(out)

    def short(self, q: str) -> str:
        return q.split(".")[-1]


def session_effects(p: PathSummary) -> List[Effect]:
    """Effects that change the session object (guards, may-raise markers and
    stamps on locally created messages are not session effects)."""
    return [e for e in p.effects if e.kind not in ("guard", "mayraise", "stamp", "implicit")]


def extends(p: PathSummary) -> List[Effect]:
    return [e for e in p.effects if e.kind == "extend" and e.a == OBUF]


def ext_msg(e: Effect) -> Optional[Obj]:
    v = e.b
    if isinstance(v, Packed) and isinstance(v.of, Obj):
        return v.of
    return None


def msg_short(o: Optional[Obj]) -> str:
    return o.cls.split(".")[-1] if o is not None else "?"


def fact(p_or_facts, needle_parts: Tuple[str, ...]) -> Optional[bool]:
    """Find the truth value of the atom whose key contains all needle parts."""
    facts = p_or_facts.facts if hasattr(p_or_facts, "facts") else p_or_facts
    hits = [v for k, v in facts.items() if all(n in k for n in needle_parts)]
    if not hits:
        return None
    if all(h is True for h in hits):
        return True
    if all(h is False for h in hits):
        return False
    return None


def is_notice_send(p: PathSummary, e: Effect) -> Optional[bool]:
    """For an extend of an ExtendedResponse built from call arguments: truth of
    `name == NOTICE` on this path (None = never tested)."""
    o = ext_msg(e)
    if o is None or not o.cls.endswith(".ExtendedResponse"):
        return False
    nm = o.fields.get("name")
    if isinstance(nm, EnumV) and nm.member == "LDAP_NOTICE_OF_DISCONNECTION":
        return True
    return fact(p, ("eq(", NOTICE_ATOM, desc(nm)))


def exc_short(p: PathSummary) -> str:
    return p.outcome.exc.cls.split(".")[-1] if p.outcome.kind == "raise" else ""


def is_ldap_error(ex: Extraction, cls: str) -> bool:
    return cls in ex.m.classes and f"{SESSION_MOD}.LDAPError" in ex.m.classes[cls].mro


def path_key(p: PathSummary) -> str:
    """Stable key for a path finding: entry, pre-state, incoming class,
    outcome and post-state (no line numbers, no incidental effects)."""
    return (f"{p.cls.split('.')[-1]}.{p.entry}|pre={p.pre_state}|in={p.msg_in.split('.')[-1] if p.msg_in else '-'}"
            f"|out={p.outcome.kind}:{exc_short(p)}|post={p.post_state}")


_cache: Dict[int, Extraction] = {}


def extraction(model: Model) -> Extraction:
    k = id(model)
    if k not in _cache:
        _cache[k] = Extraction(model)
    return _cache[k]


def where(ex: Extraction, e: Effect) -> str:
    fi = ex.m.functions.get(e.func)
    mod = fi.module if fi else SESSION_MOD
    return f"{ex.m.relpath(mod)}:{e.line}"


def common_coverage(ex: Extraction, run: Run) -> None:
    run.coverage.update({
        "classes": len(SESSION_CLASSES),
        "entries": sum(len(v) for v in ex.entries.values()),
        "paths": sum(len(v) for v in ex.paths.values()),
        "pre_states": len(STATES),
        "message_pseudo_entries": len(ex.message_classes) * 3,
        "state_write_sites": len({(e.func, e.text) for p in ex.all_paths() for e in p.effects if e.kind == "state"}),
        "max_live_paths": max(it.paths for it in ex.interp.values()),
    })
    run.assumptions += [
        "Python 3.12 semantics of if/try/raise/return/for/while and of set/bytearray methods",
        "message classes are exactly the LDAPMessage subclasses defined in _messages.py",
        "loops are analysed for zero or one iteration; rules are per effect and every later iteration starts from a pre-state that is itself analysed",
        "calls leaving _session.py (pack, constructors, unpack_ldap_message) return an opaque value or raise one of the exception classes named by the function's handlers, or an unnamed one",
    ]


# ---------------------------------------------------------------- invariant
def inv_search_subset(ex: Extraction, q: str):
    """Inductive check of  state != CLOSED  =>  _search_requests <= _outstanding_requests
    for session class q. Returns (ok, [(path, reason)])."""
    bad = []
    for p in ex.paths[q] + ex.init_paths[q]:
        if p.post_state == "CLOSED":
            continue
        for e in p.effects:
            if e.kind == "set_add" and e.a == SEARCH:
                k = f"in[{OUT}]({desc(e.b)})"
                if p.facts.get(k) is not True:
                    bad.append((p, f"{desc(e.b)} added to the search set but not (left) in the outstanding set"))
            if e.kind in ("set_remove", "set_discard") and e.a == OUT:
                k = f"in[{SEARCH}]({desc(e.b)})"
                if p.facts.get(k) is not False:
                    bad.append((p, f"{desc(e.b)} removed from the outstanding set while it may remain in the search set"))
            if e.kind == "set_assign" and e.a == OUT and p.entry != "__init__":
                bad.append((p, "outstanding set replaced while the session stays open"))
            if e.kind == "attr_call" and e.a in (OUT, SEARCH):
                bad.append((p, f"unrecognised mutation {e.a}.{e.b}"))
    return (not bad), bad


def implicit_paths(ex: Extraction, q: str) -> List[PathSummary]:
    return [p for p in ex.paths[q] if p.outcome.kind == "raise" and p.outcome.exc.origin.startswith("implicit:")]


def discharge_implicit(ex: Extraction, q: str, p: PathSummary) -> Tuple[bool, str]:
    """An implicit KeyError path `OUT.remove(x)` is infeasible when x is known to be in
    the search set on that path and search <= outstanding is inductive for the class."""
    e = [x for x in p.effects if x.kind == "implicit"][-1]
    if "_outstanding_requests.remove" in str(e.b):
        x = str(e.b)[str(e.b).index("remove(") + 7: str(e.b).index(")")]
        was_in_search = any(k == f"in[{SEARCH}]({x})" and v is True for k, v in e.snap_facts.items()) or \
            any(g.kind == "guard" and f"in {'self.' + SEARCH}" in str(g.a) and x in str(g.a) and g.b is True for g in p.effects) or \
            any(g.kind in ("set_remove",) and g.a == SEARCH and desc(g.b) == x for g in p.effects)
        if was_in_search:
            ok, bad = inv_search_subset(ex, q)
            if ok:
                return True, "id is in the search set and search <= outstanding is an inductive invariant of the class"
            return False, "needs search <= outstanding, which is not inductive: " + bad[0][1]
    return False, "no live membership fact"
