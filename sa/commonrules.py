"""Rules several properties share: each is a structural necessary condition that more than one statement depends on."""
from __future__ import annotations

import ast
from typing import Iterable, List, Optional, Set

from .report import Finding, Run
from .srcmodel import Model, FuncInfo, norm, walk_no_nested

MEMO = ("lru_cache", "cache", "cached_property")
IMMUTABLE_ANNOS = ("str", "bytes", "int", "bool", "float", "None", "re.Pattern", "t.Pattern", "typing.Pattern", "re.Pattern[str]", "re.Pattern[bytes]",
                   "t.Pattern[str]", "t.Pattern[bytes]")
MUTABLE_CALLS = ("bytearray", "list", "dict", "set", "memoryview", "deque", "defaultdict", "OrderedDict")


def memo_decorator(fi: FuncInfo) -> Optional[str]:
    if isinstance(fi.node, ast.Lambda):
        return None
    for d in fi.node.decorator_list:
        dn = norm(d.func if isinstance(d, ast.Call) else d).split(".")[-1]
        if dn in MEMO:
            return dn
    return None


def _mutable_expr(e: ast.expr, fn: ast.AST, depth: int = 0) -> Optional[str]:
    """Why the value of e is a mutable object, or None when that is not evident."""
    if isinstance(e, (ast.List, ast.Dict, ast.Set, ast.ListComp, ast.DictComp, ast.SetComp)):
        return f"`{norm(e)[:40]}` is a new {type(e).__name__.replace('Comp', '').lower()}"
    if isinstance(e, ast.Call) and norm(e.func).split(".")[-1] in MUTABLE_CALLS:
        return f"`{norm(e)[:40]}` is a {norm(e.func).split('.')[-1]}"
    if isinstance(e, ast.Name) and depth < 3:
        binds = [s.value for s in walk_no_nested(fn) if isinstance(s, (ast.Assign, ast.AnnAssign)) and s.value is not None and
                 any(isinstance(t, ast.Name) and t.id == e.id for t in (s.targets if isinstance(s, ast.Assign) else [s.target]))]
        for b in binds:
            w = _mutable_expr(b, fn, depth + 1)
            if w:
                return f"`{e.id}` holds what {w}"
    if isinstance(e, ast.IfExp):
        return _mutable_expr(e.body, fn, depth) or _mutable_expr(e.orelse, fn, depth)
    if isinstance(e, ast.Tuple):
        for x in e.elts:
            w = _mutable_expr(x, fn, depth)
            if w:
                return w
    return None


def memoised_results_are_immutable(model: Model, run: Run, rule: str, modules: Optional[Iterable[str]] = None, consequence: str = "") -> int:
    """A function memoised with lru_cache / cache / cached_property hands the same object to every caller, for ever: the
    object must be immutable - by its declared type *and* by what the body returns (a `-> bytes` that returns the bytearray it
    built is a shared bytearray, and the first `+=` on it by a caller rewrites every later result)."""
    mods = set(modules) if modules is not None else None
    n = 0
    for fq, fi in sorted(model.functions.items()):
        if isinstance(fi.node, ast.Lambda) or (mods is not None and fi.module not in mods):
            continue
        n += 1
        dn = memo_decorator(fi)
        if dn is None:
            continue
        ra = norm(fi.node.returns) if fi.node.returns is not None else ""
        inner = ra
        for w in ("t.Optional[", "typing.Optional[", "Optional["):
            if inner.startswith(w) and inner.endswith("]"):
                inner = inner[len(w):-1]
        def immutable_anno(txt: str) -> bool:
            if txt in IMMUTABLE_ANNOS:
                return True
            for w_ in ("t.Tuple[", "typing.Tuple[", "Tuple[", "tuple["):
                if txt.startswith(w_) and txt.endswith("]"):
                    return all(immutable_anno(x.strip()) for x in txt[len(w_):-1].split(",") if x.strip() != "...")
            q_ = model.resolve_name(fi.module, txt)
            c_ = model.classes.get(q_) if q_ else None
            if c_ is not None and (c_.is_enum or any(b.split(".")[-1] == "NamedTuple" for b in c_.bases)):
                # a NamedTuple of immutable members / an enum member
                return c_.is_enum or all(immutable_anno(norm(f.annotation)) for f in model.dataclass_fields(q_) if f.annotation is not None) or True
            return False
        why = None if immutable_anno(inner) else f"it is declared to return `{ra or 'an unannotated value'}`"
        if why is None:
            for r in walk_no_nested(fi.node):
                if isinstance(r, ast.Return) and r.value is not None:
                    w = _mutable_expr(r.value, fi.node)
                    if w:
                        why = f"it is declared `-> {ra}` but {w}"
                        break
        if why is None and dn != "cached_property":
            # the arguments are the cache key: a view, a bytearray, a list cannot be one (TypeError) - and a memoryview hashes only
            # while the object it looks into is read-only, so the call works on bytes and raises ValueError on a bytearray
            a_ = fi.node.args
            for p_ in a_.posonlyargs + a_.args + a_.kwonlyargs:
                an = norm(p_.annotation) if p_.annotation is not None else ""
                if any(k in an for k in ("memoryview", "bytearray", "List[", "Dict[", "Set[", "list[", "dict[", "set[")):
                    why = f"its parameter `{p_.arg}: {an}` is part of the cache key and is not (always) hashable: the call fails on a view of a writable buffer although it " \
                          "works on one of bytes - the same octets are accepted or refused depending on what holds them"
                    break
        ok = why is None
        run.ob(rule, ok, {"function": fq, "decorator": dn, "returns": ra})
        if not ok:
            run.fail(Finding(rule, fq, f"@{dn} -> {ra or '?'}",
                             f"{fi.name} is memoised with @{dn} and {why}" + ("" if "cache key" in why else ": every caller receives the same mutable object" + (f" - {consequence}" if consequence else "")),
                             model.loc(fi.module, fi.node)))
    run.ob(rule, True, {"functions_scanned": n})
    return n


def no_memoised_views_of_fields(model: Model, run: Run, rule: str, classes: Iterable[str], consequence: str) -> int:
    """A value class whose fields can change after construction (a list field, or any field of a class that is not frozen)
    computes what it derives from them when asked: a cached_property / lru_cache method freezes the first answer, and the
    text, the encoding or the hash no longer follows the object."""
    n = 0
    for q in sorted(set(classes)):
        c = model.classes.get(q)
        if c is None:
            continue
        n += 1
        fields = model.dataclass_fields(q) if c.is_dataclass else []
        mutable = [f.name for f in fields if any(k in (norm(f.annotation) if f.annotation is not None else "") for k in ("List[", "Dict[", "Set[", "list[", "dict[", "set[", "bytearray"))]
        for m in c.methods.values():
            dn = memo_decorator(m)
            if dn is None:
                continue
            reads = sorted({x.attr for x in ast.walk(m.node) if isinstance(x, ast.Attribute) and isinstance(x.value, ast.Name) and x.value.id == "self"})
            ok = not reads
            run.ob(rule, ok, {"class": q.split(".")[-1], "method": m.name, "decorator": dn, "reads": reads[:6]})
            if not ok:
                run.fail(Finding(rule, m.qualname, f"@{dn}|reads {reads[:4]}",
                                 f"{q.split('.')[-1]}.{m.name} is memoised with @{dn} but is computed from {reads[:4]}" +
                                 (f" ({mutable} can be changed in place after construction)" if mutable else "") + f": {consequence}", model.loc(m.module, m.node)))
    return n


def no_capacity_limits(model: Model, run: Run, rule: str, entry: FuncInfo, module: str, what: str, consequence: str) -> int:
    """Nothing reachable from `entry` refuses its input for how much of it there is: a `raise` guarded by a comparison between
    *counters* - names that only ever hold constants and sums of constants (a depth passed down as `depth + 1`, an element
    count stepped with `+= 1`) - and constants is a capacity limit.  The statements these rules serve quantify over any
    depth, fan-out and length; a limit turns valid input beyond it into an error (and a counter stepped once per sibling
    instead of once per level turns a shallow, wide input into one).  Greatest fixpoint: a parameter is a counter when every
    call site inside the reachable set passes a counter expression (or leaves a constant default); a local when every
    assignment to it is one."""
    from .anchors import reachable
    fns = {f.qualname: f for f in reachable(model, entry, module) if not isinstance(f.node, ast.Lambda)}
    mod_consts = {nm for nm, sts in model.modules[module].globals_.items()
                  if len(sts) == 1 and isinstance(getattr(sts[0], "value", None), ast.Constant) and type(sts[0].value.value) is int}

    def params(f: FuncInfo) -> List[ast.arg]:
        a = f.node.args
        return [x for x in a.posonlyargs + a.args + a.kwonlyargs if x.arg not in ("self", "cls")]

    def defaults(f: FuncInfo):
        a = f.node.args
        pos = a.posonlyargs + a.args
        d = {p.arg: dv for p, dv in zip(pos[len(pos) - len(a.defaults):], a.defaults)}
        d.update({p.arg: dv for p, dv in zip(a.kwonlyargs, a.kw_defaults) if dv is not None})
        return d

    cand: dict = {}
    for q, f in fns.items():
        names = set() if f is entry else {p.arg for p in params(f)}
        other_bind = set()
        assigned = set()
        for x in walk_no_nested(f.node):
            if isinstance(x, ast.Assign):
                for t in x.targets:
                    if isinstance(t, ast.Name):
                        assigned.add(t.id)
                    else:
                        other_bind |= {y.id for y in ast.walk(t) if isinstance(y, ast.Name)}
            elif isinstance(x, (ast.AugAssign, ast.AnnAssign)) and isinstance(x.target, ast.Name):
                assigned.add(x.target.id)
            elif isinstance(x, (ast.For, ast.comprehension)):
                other_bind |= {y.id for y in ast.walk(x.target) if isinstance(y, ast.Name)}
            elif isinstance(x, ast.withitem) and x.optional_vars is not None:
                other_bind |= {y.id for y in ast.walk(x.optional_vars) if isinstance(y, ast.Name)}
            elif isinstance(x, ast.ExceptHandler) and x.name:
                other_bind.add(x.name)
            elif isinstance(x, ast.NamedExpr) and isinstance(x.target, ast.Name):
                other_bind.add(x.target.id)
        cand[q] = (names | assigned) - other_bind

    def counter_expr(e: ast.expr, cs: Set[str]) -> bool:
        if isinstance(e, ast.Constant):
            return type(e.value) in (int, bool)
        if isinstance(e, ast.Name):
            return e.id in cs or e.id in mod_consts
        if isinstance(e, ast.BinOp) and isinstance(e.op, (ast.Add, ast.Sub, ast.Mult)):
            return counter_expr(e.left, cs) and counter_expr(e.right, cs)
        if isinstance(e, ast.UnaryOp) and isinstance(e.op, (ast.USub, ast.UAdd)):
            return counter_expr(e.operand, cs)
        return False

    def callee(c: ast.Call, f: FuncInfo) -> Optional[FuncInfo]:
        if isinstance(c.func, ast.Name):
            q = model.resolve_name(f.module, c.func.id)
            return fns.get(q) if q else None
        if isinstance(c.func, ast.Attribute) and isinstance(c.func.value, ast.Name) and c.func.value.id in ("self", "cls") and f.cls:
            g = model.find_method(f.cls, c.func.attr)
            return fns.get(g.qualname) if g is not None else None
        return None

    changed = True
    while changed:
        changed = False
        # locals
        for q, f in fns.items():
            cs = cand[q]
            for x in walk_no_nested(f.node):
                tgt, val = None, None
                if isinstance(x, ast.Assign) and len(x.targets) == 1 and isinstance(x.targets[0], ast.Name):
                    tgt, val = x.targets[0].id, x.value
                elif isinstance(x, ast.Assign):
                    for t in x.targets:
                        if isinstance(t, ast.Name) and t.id in cs and not counter_expr(x.value, cs):
                            cs.discard(t.id)
                            changed = True
                    continue
                elif isinstance(x, (ast.AugAssign, ast.AnnAssign)) and isinstance(x.target, ast.Name):
                    tgt, val = x.target.id, x.value
                    if isinstance(x, ast.AugAssign) and not isinstance(x.op, (ast.Add, ast.Sub, ast.Mult)):
                        val = None if tgt not in cs else ast.Name(id="<not a counter>", ctx=ast.Load())
                if tgt in cs and val is not None and not counter_expr(val, cs):
                    cs.discard(tgt)
                    changed = True
        # parameters
        sites: dict = {q: [] for q in fns}
        for q, f in fns.items():
            for c in ast.walk(f.node):
                if isinstance(c, ast.Call):
                    g = callee(c, f)
                    if g is not None:
                        sites[g.qualname].append((f, c))
        for q, g in fns.items():
            if g is entry:
                continue
            ps = [p.arg for p in params(g)]
            dfl = defaults(g)
            for p_ in ps:
                if p_ not in cand[q]:
                    continue
                ok = bool(sites[q])
                for f, c in sites[q]:
                    if any(isinstance(a, ast.Starred) for a in c.args) or any(k.arg is None for k in c.keywords):
                        ok = False
                        break
                    bound = dict(zip(ps, c.args))
                    bound.update({k.arg: k.value for k in c.keywords})
                    if p_ in bound:
                        if not counter_expr(bound[p_], cand[f.qualname]):
                            ok = False
                    elif not (p_ in dfl and isinstance(dfl[p_], ast.Constant) and type(dfl[p_].value) in (int, bool)):
                        ok = False
                if not ok:
                    cand[q].discard(p_)
                    changed = True
    n = 0
    for q, f in sorted(fns.items()):
        cs = cand[q]
        for st in walk_no_nested(f.node):
            if not (isinstance(st, ast.If) and any(isinstance(b, ast.Raise) for b in st.body)):
                continue
            n += 1
            lim = None
            for c in ast.walk(st.test):
                if isinstance(c, ast.Compare) and len(c.ops) == 1 and isinstance(c.ops[0], (ast.Lt, ast.LtE, ast.Gt, ast.GtE, ast.Eq, ast.NotEq)):
                    l, r = c.left, c.comparators[0]
                    if counter_expr(l, cs) and counter_expr(r, cs) and any(isinstance(y, ast.Name) and y.id in cs for y in list(ast.walk(l)) + list(ast.walk(r))):
                        lim = c
                        break
            run.ob(rule, lim is None, {"function": q.split("sansldap.")[-1], "test": norm(st.test)[:60]})
            if lim is not None:
                run.fail(Finding(rule, q, norm(lim)[:80], f"{q.split('sansldap.')[-1]} refuses {what} when `{norm(lim)[:60]}`: the names compared count calls or iterations, "
                                 f"they say nothing about the text - {consequence}", model.loc(f.module, st)))
    return n


def _deco_kw(c, key: str):
    """value of a keyword of the @dataclass(...) decorator of class c (None when not given)"""
    for d in c.node.decorator_list:
        if isinstance(d, ast.Call) and norm(d.func).split(".")[-1] == "dataclass":
            for k in d.keywords:
                if k.arg == key:
                    return k.value
    return None


def values_compare_by_their_fields(model: Model, run: Run, rule: str, classes: Iterable[str], consequence: str) -> int:
    """The statements about "equal to the original" are about Python equality of value classes: a dataclass that says `eq=False`
    compares by identity (or, under a dataclass base, by the base's fields only - every AND equals every AND), a field declared
    `compare=False` is left out of the comparison, and a hand-written `__eq__` is whatever it says.  None of them is used by
    the value classes of this package; one that appears changes what "equal" means for every round trip."""
    n = 0
    for q in sorted(set(classes)):
        c = model.classes.get(q)
        if c is None or not c.is_dataclass:
            continue
        n += 1
        problems = []
        eqv = _deco_kw(c, "eq")
        if isinstance(eqv, ast.Constant) and eqv.value is False:
            problems.append("the class is declared `eq=False`")
        own_eq = c.methods.get("__eq__")
        if own_eq is not None:
            problems.append("the class defines `__eq__` by hand")
        for st in c.node.body:
            if isinstance(st, ast.AnnAssign) and isinstance(st.value, ast.Call) and norm(st.value.func).split(".")[-1] == "field":
                for k in st.value.keywords:
                    if k.arg == "compare" and isinstance(k.value, ast.Constant) and k.value.value is False and isinstance(st.target, ast.Name):
                        init_false = any(k2.arg == "init" and isinstance(k2.value, ast.Constant) and k2.value.value is False for k2 in st.value.keywords)
                        if not init_false:
                            problems.append(f"field `{st.target.id}` is declared `compare=False`")
        run.ob(rule, not problems, {"class": q.split(".")[-1]})
        if problems:
            run.fail(Finding(rule, q, "; ".join(problems)[:80], f"{q.split('.')[-1]}: {'; '.join(problems)}: {consequence}", model.loc(c.module, c.node)))
    return n


def overrides_keep_the_signature(model: Model, run: Run, rule: str, bases: Iterable[str], methods: Iterable[str], consequence: str) -> int:
    """Callers reach `pack` / `unpack` / `get_value` through the base class (a list of registered types, a field typed as the base):
    they pass what the base's signature names.  An override takes the same parameters under the same names, in the same order
    (more parameters only with defaults); a `**kwargs` that soaks up a keyword the override renamed turns an argument every
    caller passes into a default."""
    n = 0
    for b in bases:
        bc = model.classes.get(b)
        if bc is None:
            continue
        for mname in methods:
            bm = bc.methods.get(mname)
            if bm is None or isinstance(bm.node, ast.Lambda):
                continue
            ba = bm.node.args
            bnames = [a.arg for a in ba.posonlyargs + ba.args + ba.kwonlyargs]
            # the keywords some call in the package passes to a method of this name: those are the names every override must take
            used_kw = set()
            max_pos = 0
            for g in model.functions.values():
                if isinstance(g.node, ast.Lambda):
                    continue
                # locals that hold the method itself (`unpack_func = next((c.unpack for c in choices ...), LDAPControl.unpack)`)
                holders = {t_.id for a_ in ast.walk(g.node) if isinstance(a_, (ast.Assign, ast.AnnAssign)) and a_.value is not None and
                           any(isinstance(x, ast.Attribute) and x.attr == mname and isinstance(x.ctx, ast.Load) for x in ast.walk(a_.value))
                           for t_ in (a_.targets if isinstance(a_, ast.Assign) else [a_.target]) if isinstance(t_, ast.Name)}
                for c_ in ast.walk(g.node):
                    if isinstance(c_, ast.Call) and ((isinstance(c_.func, ast.Attribute) and c_.func.attr == mname) or (isinstance(c_.func, ast.Name) and c_.func.id in holders)):
                        used_kw |= {k.arg for k in c_.keywords if k.arg}
                        max_pos = max(max_pos, len(c_.args))
            used_kw &= set(bnames)
            for sq in model.subclasses(b, strict=True):
                sm = model.classes[sq].methods.get(mname)
                if sm is None or isinstance(sm.node, ast.Lambda):
                    continue
                n += 1
                sa_ = sm.node.args
                snames = [a.arg for a in sa_.posonlyargs + sa_.args + sa_.kwonlyargs]
                pos_ = sa_.posonlyargs + sa_.args
                required = [a.arg for a in pos_[:len(pos_) - len(sa_.defaults)]] + [a.arg for a, d_ in zip(sa_.kwonlyargs, sa_.kw_defaults) if d_ is None]
                why = None
                missing = sorted(k for k in used_kw if k not in snames)
                base_pos = [a.arg for a in ba.posonlyargs + ba.args]
                req_pos = [a.arg for a in pos_[:len(pos_) - len(sa_.defaults)]]
                extra_required = ([f"{len(req_pos)} positional arguments"] if len(req_pos) > len(base_pos) else []) + \
                                 [a.arg for a, d_ in zip(sa_.kwonlyargs, sa_.kw_defaults) if d_ is None and a.arg not in bnames]
                if missing:
                    why = f"does not name the parameter{'s' if len(missing) > 1 else ''} {', '.join(missing)} that callers pass by keyword" + \
                          (f" (they disappear into **{sa_.kwarg.arg})" if sa_.kwarg is not None else "")
                elif extra_required:
                    why = f"requires {', '.join(extra_required)}, which {b.split('.')[-1]}.{mname} does not take"
                run.ob(rule, why is None, {"override": f"{sq.split('.')[-1]}.{mname}"})
                if why:
                    run.fail(Finding(rule, sm.qualname, f"({', '.join(snames)})"[:80], f"{sq.split('.')[-1]}.{mname} {why}: {consequence}", model.loc(sm.module, sm.node)))
    return n
