"""Engine B - TLV grammar extraction from the writer idiom (pack/_pack_inner/get_value) and the
reader idiom (_unpack_*/unpack classmethods) of the codec, by abstract interpretation of the AST."""
from __future__ import annotations

import ast
import copy
from dataclasses import dataclass, field
from typing import Any, Dict, List, Optional, Tuple

from .fold import EnumConst, Folder, TagConst, Unfoldable
from .resolve import Resolver
from .srcmodel import AnalysisError, FuncInfo, Model, norm, walk_no_nested

ASN1 = "sansldap.asn1"
WRITE_KINDS = {"write_boolean": "boolean", "write_enumerated": "enumerated", "write_integer": "integer", "write_octet_string": "octet_string"}
PUSH_KINDS = {"push_sequence": "sequence", "push_sequence_of": "sequence", "push_set": "set", "push_set_of": "set"}
READ_KINDS = {"read_boolean": "boolean", "read_enumerated": "enumerated", "read_integer": "integer", "read_octet_string": "octet_string"}
READ_CONS = {"read_sequence": "sequence", "read_sequence_of": "sequence", "read_set": "set", "read_set_of": "set"}
UNIVERSAL = {"boolean": 1, "integer": 2, "octet_string": 4, "enumerated": 10, "sequence": 16, "set": 17}


@dataclass
class Src:
    kind: str                 # field | elem | const | call | unknown
    path: str = ""            # dotted field path from the message root ("result.matched_dn")
    conv: str = "identity"    # identity | str(<enc>) | enum
    text: str = ""

    def __repr__(self):
        return f"{self.kind}:{self.path}" + (f"|{self.conv}" if self.conv != "identity" else "")


@dataclass
class WNode:
    kind: str                             # prim | cons | opt | rep | ref | encaps
    ukind: str = ""                       # universal kind of a prim / constructed kind of a cons
    tag: Optional[TagConst] = None
    src: Optional[Src] = None
    cond: Optional[Tuple[str, str]] = None    # ('notnone'|'truthy', path)
    nt: str = ""
    children: List["WNode"] = field(default_factory=list)
    line: int = 0
    func: str = ""
    modes: str = ""                       # keyword arguments of the write call other than the tag, when not the method's default

    def brief(self) -> str:
        if self.kind == "prim":
            return f"{self.ukind}{self.tag} <- {self.src}"
        if self.kind == "cons":
            return f"{self.ukind}{self.tag} {{ {', '.join(c.brief() for c in self.children)} }}"
        if self.kind == "opt":
            return f"[{self.cond[0]} {self.cond[1]}: {', '.join(c.brief() for c in self.children)}]"
        if self.kind == "rep":
            return f"*({self.src}: {', '.join(c.brief() for c in self.children)})"
        if self.kind == "ref":
            return f"<{self.nt} {self.src}>"
        if self.kind == "encaps":
            return f"octets{self.tag}{{ {', '.join(c.brief() for c in self.children)} }}"
        return self.kind


def default_tag_by_evaluation(model: Model, folder: Folder, fi: FuncInfo, sinks: Set[str], unset: Tuple[str, ...] = ("tag", "header")) -> Optional[TagConst]:
    """The tag a write_* / push_* / read_* method ends up using when the caller passes none: the method (and the package
    helpers it hands the tag on to) is followed with the `tag` / `header` parameters bound to None, assignments and
    constant-decidable tests evaluated by the folder, until a call of one of `sinks` (the TLV packing routine, the
    ASN1Writer constructor, the validating helper) is reached; the tag among its arguments is the default."""
    UNSET = object()

    def tag_of_args(call: ast.Call, module: str, env: Dict[str, Any]) -> Optional[TagConst]:
        vals = []
        for a in list(call.args) + [k.value for k in call.keywords]:
            try:
                vals.append(folder.fold(a, module, env, None))
            except Unfoldable:
                vals.append(UNSET)
        for v in vals:
            if isinstance(v, TagConst):
                return v
        cls_ = [v for v in vals if isinstance(v, EnumConst) and v.cls.endswith(".TagClass")]
        flag = [v for v in vals if isinstance(v, bool)]
        num = [v for v in vals if (isinstance(v, int) and not isinstance(v, bool)) or (isinstance(v, EnumConst) and not v.cls.endswith(".TagClass"))]
        if len(cls_) == 1 and len(flag) == 1 and len(num) == 1:
            return TagConst(cls_[0], num[0], flag[0])
        return None

    class FuncRef:
        def __init__(self, fi_: FuncInfo):
            self.fi = fi_

    def callee_of(call: ast.Call, fi_: FuncInfo, env: Optional[Dict[str, Any]] = None):
        f = call.func
        if isinstance(f, ast.Name) and env is not None and isinstance(env.get(f.id), FuncRef):
            return env[f.id].fi.qualname, env[f.id].fi          # a function handed in as an argument
        if isinstance(f, ast.Name):
            q = model.resolve_name(fi_.module, f.id)
            if q in model.classes:
                return q, None
            return q, model.functions.get(q) if q else None
        if isinstance(f, ast.Attribute) and isinstance(f.value, ast.Name) and f.value.id in ("self", "cls") and fi_.cls:
            mt = model.find_method(fi_.cls, f.attr)
            return (mt.qualname if mt else None), mt
        return None, None

    def through_calls(e: ast.AST, fi_: FuncInfo, env: Dict[str, Any], depth: int) -> Optional[TagConst]:
        for c in ast.walk(e):
            if not isinstance(c, ast.Call):
                continue
            q, callee = callee_of(c, fi_, env)
            if q in sinks:
                t = tag_of_args(c, fi_.module, env)
                if t is not None:
                    return t
            if callee is None or isinstance(callee.node, ast.Lambda) or callee.module != fi_.module or depth > 4:
                continue
            ps = callee.params()
            off = 1 if callee.cls and not callee.is_staticmethod and isinstance(c.func, ast.Attribute) else 0
            ps_ = ps[off:]
            env2: Dict[str, Any] = {}
            a_ = callee.node.args
            allp = (a_.posonlyargs + a_.args)
            for p_, d in list(zip(allp[len(allp) - len(a_.defaults):], a_.defaults)) + [(p2, d2) for p2, d2 in zip(a_.kwonlyargs, a_.kw_defaults) if d2 is not None]:
                try:
                    env2[p_.arg] = folder.fold(d, callee.module)
                except Unfoldable:
                    pass
            for p_, a in [(ps_[i], a) for i, a in enumerate(c.args) if i < len(ps_)] + [(k.arg, k.value) for k in c.keywords if k.arg in ps_]:
                try:
                    env2[p_] = folder.fold(a, fi_.module, env, None)
                except Unfoldable:
                    env2.pop(p_, None)
                    if isinstance(a, ast.Name):
                        gq = model.resolve_name(fi_.module, a.id)
                        g = model.functions.get(gq) if gq else None
                        if g is not None and g.cls is None and not isinstance(g.node, ast.Lambda):
                            env2[p_] = FuncRef(g)
            r = run(callee.node.body, callee, env2, depth + 1)
            if r is not None:
                return r
        return None

    def run(stmts, fi_: FuncInfo, env: Dict[str, Any], depth: int) -> Optional[TagConst]:
        for s_ in stmts:
            if isinstance(s_, (ast.Assign, ast.AnnAssign)) and s_.value is not None:
                tg = s_.targets if isinstance(s_, ast.Assign) else [s_.target]
                try:
                    val = folder.fold(s_.value, fi_.module, env, None)
                except Unfoldable:
                    r = through_calls(s_.value, fi_, env, depth)
                    if r is not None:
                        return r
                    val = UNSET
                for t_ in tg:
                    for x in ast.walk(t_):
                        if isinstance(x, ast.Name):
                            if val is UNSET or not isinstance(t_, ast.Name):
                                env.pop(x.id, None)
                            else:
                                env[x.id] = val
                continue
            if isinstance(s_, ast.If):
                try:
                    t = folder.fold(s_.test, fi_.module, env, None)
                    branches = [s_.body if t else s_.orelse]
                except Unfoldable:
                    r = through_calls(s_.test, fi_, env, depth)
                    if r is not None:
                        return r
                    branches = [s_.body, s_.orelse]
                for b in branches:
                    r = run(b, fi_, dict(env) if len(branches) > 1 else env, depth)
                    if r is not None:
                        return r
                continue
            if isinstance(s_, (ast.With, ast.For, ast.While, ast.Try)):
                for fld in ("body", "orelse", "finalbody"):
                    r = run(getattr(s_, fld, []) or [], fi_, env, depth)
                    if r is not None:
                        return r
                continue
            if isinstance(s_, (ast.Return, ast.Expr, ast.AugAssign, ast.Raise)):
                r = through_calls(s_, fi_, env, depth)
                if r is not None:
                    return r
                if isinstance(s_, (ast.Return, ast.Raise)):
                    return None
        return None
    env0: Dict[str, Any] = {p_: None for p_ in fi.params() if p_ in unset}
    a0 = fi.node.args
    allp0 = a0.posonlyargs + a0.args
    for p_, d in list(zip(allp0[len(allp0) - len(a0.defaults):], a0.defaults)) + [(p2, d2) for p2, d2 in zip(a0.kwonlyargs, a0.kw_defaults) if d2 is not None]:
        if p_.arg not in env0:
            try:
                env0[p_.arg] = folder.fold(d, fi.module)
            except Unfoldable:
                pass
    return run(fi.node.body, fi, env0, 0)


class WriterExtractor:
    def __init__(self, model: Model):
        self.m = model
        self.folder = Folder(model)
        self.r = Resolver(model)
        self.default_tags: Dict[str, TagConst] = {}
        self.nonconst: List[tuple] = []
        self._load_defaults()

    def _load_defaults(self) -> None:
        """Default universal tags of each write_*/push_* as written in asn1.py itself."""
        w = self.m.cls(f"{ASN1}.ASN1Writer")
        for name, kind in list(PUSH_KINDS.items()):
            fi = self.m.find_method(w.qualname, name)
            if fi is None:
                raise AnalysisError(f"ASN1Writer.{name} not found")
            tag = self._default_in(fi)
            if tag is None:
                from .anchors import asn1 as _aa
                tag = default_tag_by_evaluation(self.m, self.folder, fi, {f.qualname for f in _aa(self.m).packer_family} | {f"{ASN1}.ASN1Writer"})
            if tag is None:
                raise AnalysisError(f"default tag of ASN1Writer.{name} not found")
            self.default_tags[name] = tag
        from .anchors import asn1 as asn1_anchors
        an = asn1_anchors(self.m)
        for name, kind in WRITE_KINDS.items():
            callee = an.writer_helper.get(name)
            tag = self._default_in(self.m.find_method(w.qualname, name))       # the method itself may carry the default
            if tag is None:
                tag = self._default_in(callee) if callee else None
            hops = 0
            while tag is None and callee is not None and hops < 3:
                # write_enumerated's helper delegates to the integer helper with  tag=tag or DEFAULT
                nxt = None
                for n in ast.walk(callee.node):
                    if isinstance(n, ast.Call) and isinstance(n.func, ast.Name):
                        q = self.m.resolve_name(ASN1, n.func.id)
                        if q in self.m.functions and self.m.functions[q] is not an.packer:
                            for k in n.keywords:
                                if k.arg == "tag" and isinstance(k.value, ast.BoolOp):
                                    try:
                                        tag = self.folder.fold(k.value.values[-1], ASN1)
                                    except Unfoldable:
                                        tag = None
                            nxt = self.m.functions[q]
                callee = nxt if tag is None else None
                hops += 1
            if not isinstance(tag, TagConst):
                mfi = self.m.find_method(w.qualname, name)
                tag = default_tag_by_evaluation(self.m, self.folder, mfi, {f.qualname for f in an.packer_family} | {f"{ASN1}.ASN1Writer"}) if mfi else None
            if not isinstance(tag, TagConst):
                raise AnalysisError(f"default tag of ASN1Writer.{name} not found")
            self.default_tags[name] = tag

    def _default_in(self, fi: Optional[FuncInfo], tagname: str = "tag", env: Optional[Dict[str, Any]] = None, depth: int = 0) -> Optional[TagConst]:
        """The constant a missing tag is replaced with: `if not tag: tag = <const>` in fi, or in the helper fi hands its
        tag parameter to (the helper's other arguments folded at this call site)."""
        if fi is None or depth > 3:
            return None
        for n in ast.walk(fi.node):
            if isinstance(n, ast.BoolOp) and isinstance(n.op, ast.Or) and len(n.values) == 2 and norm(n.values[0]) == tagname:
                try:
                    v = self.folder.fold(n.values[1], ASN1, env)
                except Unfoldable:
                    v = None
                if isinstance(v, TagConst):
                    return v
        for n in ast.walk(fi.node):
            if isinstance(n, ast.If) and isinstance(n.test, ast.UnaryOp) and isinstance(n.test.op, ast.Not) and norm(n.test.operand) == tagname:
                for s in n.body:
                    if isinstance(s, ast.Assign) and norm(s.targets[0]) == tagname:
                        try:
                            v = self.folder.fold(s.value, ASN1, env)
                        except Unfoldable:
                            return None
                        return v if isinstance(v, TagConst) else None
        for n in ast.walk(fi.node):
            if not isinstance(n, ast.Call):
                continue
            callee = None
            if isinstance(n.func, ast.Name):
                q = self.m.resolve_name(fi.module, n.func.id)
                callee = self.m.functions.get(q) if q else None
            elif isinstance(n.func, ast.Attribute) and isinstance(n.func.value, ast.Name) and n.func.value.id in ("self", "cls") and fi.cls:
                callee = self.m.find_method(fi.cls, n.func.attr)
            if callee is None or callee is fi or isinstance(callee.node, ast.Lambda):
                continue
            ps = callee.params()
            if callee.cls and not callee.is_staticmethod:
                ps = ps[1:]
            pairs = [(ps[i], a) for i, a in enumerate(n.args) if i < len(ps)] + [(k.arg, k.value) for k in n.keywords if k.arg in ps]
            tparam = next((p_ for p_, a in pairs if isinstance(a, ast.Name) and a.id == tagname), None)
            if tparam is None:
                continue
            env2: Dict[str, Any] = {}
            for p_, a in pairs:
                if p_ != tparam:
                    try:
                        env2[p_] = self.folder.fold(a, fi.module, env)
                    except Unfoldable:
                        pass
            v = self._default_in(callee, tparam, env2, depth + 1)
            if v is not None:
                return v
        return None

    # ------------------------------------------------------------------ entry
    def grammar(self, cls_q: str, method: str, self_path: str = "") -> List[WNode]:
        fi = self.m.find_method(cls_q, method)
        if fi is None:
            raise AnalysisError(f"{cls_q}.{method} not found")
        root: List[WNode] = []
        env: Dict[str, Any] = {}
        params = fi.params()
        env[params[0]] = ("self", self_path, cls_q)
        # the writer parameter, if any
        for p in params[1:]:
            t = self.r.env(fi).get(p)
            if t == ("inst", f"{ASN1}.ASN1Writer"):
                env[p] = ("writer", root)
        ret = self._block(fi.node.body, env, fi, cls_q)
        if ret is not None:
            return ret
        return root

    # ------------------------------------------------------------------ statements
    @staticmethod
    def _guard_clause(s: ast.stmt) -> Optional[ast.expr]:
        """`if not X: return` / `if X is None: return`  ->  the presence test under which the rest of the block runs."""
        if not (isinstance(s, ast.If) and not s.orelse and len(s.body) == 1 and isinstance(s.body[0], ast.Return) and s.body[0].value is None):
            return None
        t = s.test
        if isinstance(t, ast.UnaryOp) and isinstance(t.op, ast.Not):
            return t.operand
        if isinstance(t, ast.Compare) and len(t.ops) == 1 and isinstance(t.ops[0], ast.Is) and isinstance(t.comparators[0], ast.Constant) and t.comparators[0].value is None:
            return ast.copy_location(ast.Compare(left=t.left, ops=[ast.IsNot()], comparators=t.comparators), t)
        return None

    def _block(self, stmts: List[ast.stmt], env: Dict[str, Any], fi: FuncInfo, cls_q: str) -> Optional[List[WNode]]:
        for i, s in enumerate(stmts):
            g = self._guard_clause(s)
            if g is not None and i + 1 < len(stmts):
                rest = ast.copy_location(ast.If(test=g, body=list(stmts[i + 1:]), orelse=[]), s)
                return self._stmt(rest, env, fi, cls_q)
            r = self._stmt(s, env, fi, cls_q)
            if r is not None:
                return r
        return None

    def _tag(self, e: Optional[ast.expr], fi: FuncInfo, cls_q: str, env: Optional[Dict[str, Any]] = None) -> Optional[TagConst]:
        if e is None:
            return None
        if isinstance(e, ast.Name) and env is not None and env.get(e.id, ("",))[0] == "const":
            v = env[e.id][1]
            if v is None or isinstance(v, TagConst):
                return v
        cenv = {k: v[1] for k, v in (env or {}).items() if v and v[0] == "const"}
        # a helper parameter bound to the caller's self (the object being packed): its class constants are the caller's
        from .fold import SelfRef
        for k, v in (env or {}).items():
            if v and v[0] == "self" and k not in ("self", "cls") and len(v) > 2 and not v[1]:
                cenv[k] = SelfRef(v[2])
        try:
            v = self.folder.fold(e, fi.module, cenv, cls_q)
        except Unfoldable as ex:
            # ASN1Tag(<class>, <number>, <something computed at run time>): the identifier octet depends on the value being
            # written - recorded as a finding of its own (C01 W15 / C03 B11), extraction goes on with the foldable parts
            if isinstance(e, ast.Call) and self.m.resolve_name(fi.module, norm(e.func)) == f"{ASN1}.ASN1Tag":
                parts = dict(zip(["tag_class", "tag_number", "is_constructed"], e.args))
                parts.update({k.arg: k.value for k in e.keywords if k.arg})
                try:
                    tc = self.folder.fold(parts["tag_class"], fi.module, None, cls_q)
                    tn = self.folder.fold(parts["tag_number"], fi.module, None, cls_q)
                except (Unfoldable, KeyError):
                    tc = tn = None
                if tc is not None and tn is not None:
                    self.nonconst.append((fi.qualname, getattr(e, "lineno", 0), norm(e), str(ex), cls_q))
                    return TagConst(tc, tn, False)
            raise AnalysisError(f"{fi.qualname}: tag `{norm(e)}` does not fold to a constant ({ex})")
        if not isinstance(v, TagConst):
            raise AnalysisError(f"{fi.qualname}: tag `{norm(e)}` folds to {v!r}")
        return v

    def _src(self, e: ast.expr, env: Dict[str, Any], fi: FuncInfo) -> Src:
        conv = "identity"
        cur = e
        if isinstance(cur, ast.Call) and isinstance(cur.func, ast.Attribute) and cur.func.attr == "encode":
            conv = enc_conv(cur, fi.node)
            cur = cur.func.value
        if isinstance(cur, ast.Attribute) and cur.attr == "value" and self._is_enum_field(cur.value, env, fi):
            conv = "enum"
            cur = cur.value
        if isinstance(cur, ast.Attribute) and isinstance(cur.value, ast.Name) and cur.value.id in env and env[cur.value.id][0] == "self":
            base = env[cur.value.id][1]
            return Src("field", (base + "." if base else "") + cur.attr, conv, norm(e))
        if isinstance(cur, ast.Name) and cur.id in env:
            v = env[cur.id]
            if v[0] == "elem":
                return Src("elem", v[1], conv, norm(e))
            if v[0] == "src":
                s = v[1]
                return Src(s.kind, s.path, conv if conv != "identity" else s.conv, norm(e))
        if isinstance(cur, ast.Constant):
            return Src("const", repr(cur.value), conv, norm(e))
        return Src("unknown", "", conv, norm(e))

    def _is_enum_field(self, e: ast.expr, env, fi: FuncInfo) -> bool:
        t = self.r.strip_opt(self.r.type_of(e, fi))
        return t[0] == "inst" and t[1] in self.m.classes and self.m.classes[t[1]].is_enum

    def _inert_flag(self, name: str, fi: FuncInfo) -> bool:
        """`name` is a parameter of this writer with a constant true default that no call anywhere in the package sets to anything else:
        in a condition it is `True` (a switch added for callers outside the package; what they make of it is theirs)."""
        if isinstance(fi.node, ast.Lambda):
            return False
        a = fi.node.args
        pos = a.posonlyargs + a.args
        dfl = {p_.arg: d_ for p_, d_ in zip(pos[len(pos) - len(a.defaults):], a.defaults)}
        dfl.update({p_.arg: d_ for p_, d_ in zip(a.kwonlyargs, a.kw_defaults) if d_ is not None})
        d = dfl.get(name)
        if not (isinstance(d, ast.Constant) and d.value is True):
            return False
        if any(isinstance(x, ast.Name) and x.id == name and isinstance(x.ctx, (ast.Store, ast.Del)) for x in ast.walk(fi.node)):
            return False
        cache = self.__dict__.setdefault("_kw_set_away", {})
        if name not in cache:
            away = False
            for g in self.m.functions.values():
                if isinstance(g.node, ast.Lambda):
                    continue
                for c_ in ast.walk(g.node):
                    if isinstance(c_, ast.Call):
                        for k_ in c_.keywords:
                            if k_.arg == name and not (isinstance(k_.value, ast.Constant) and k_.value.value is True) and not (isinstance(k_.value, ast.Name) and k_.value.id == name):
                                away = True
                            if k_.arg is None:
                                away = away or False
            cache[name] = away
        return not cache[name]

    def _cond(self, t: ast.expr, env, fi: FuncInfo) -> Optional[Tuple[str, Src]]:
        if isinstance(t, ast.BoolOp) and isinstance(t.op, ast.And):
            rest = [v for v in t.values if not (isinstance(v, ast.Name) and self._inert_flag(v.id, fi))]
            if len(rest) == 1 and len(rest) < len(t.values):
                return self._cond(rest[0], env, fi)
        if isinstance(t, ast.Compare) and len(t.ops) == 1 and isinstance(t.ops[0], ast.IsNot) and isinstance(t.comparators[0], ast.Constant) and t.comparators[0].value is None:
            return "notnone", self._src(t.left, env, fi)
        if isinstance(t, (ast.Attribute, ast.Name)):
            return "truthy", self._src(t, env, fi)
        return None

    def _stmt(self, s: ast.stmt, env: Dict[str, Any], fi: FuncInfo, cls_q: str) -> Optional[List[WNode]]:
        if isinstance(s, ast.Expr):
            if isinstance(s.value, ast.Constant):
                return None
            if isinstance(s.value, ast.Call):
                self._call(s.value, env, fi, cls_q, None)
            return None
        if isinstance(s, (ast.Assign, ast.AnnAssign)):
            tg = s.targets[0] if isinstance(s, ast.Assign) else s.target
            v = s.value
            if isinstance(tg, ast.Name) and v is not None:
                if isinstance(v, ast.Call):
                    q = self.m.resolve_name(fi.module, norm(v.func)) if isinstance(v.func, (ast.Name, ast.Attribute)) else None
                    if q == f"{ASN1}.ASN1Writer" and not v.args and not v.keywords:
                        env[tg.id] = ("writer", [], "root")
                        return None
                    inner = v
                    while isinstance(inner, ast.Call) and isinstance(inner.func, ast.Name) and inner.func.id in ("bytes", "bytearray") and len(inner.args) == 1:
                        inner = inner.args[0]
                    if isinstance(inner, ast.Call) and isinstance(inner.func, ast.Attribute) and inner.func.attr == "get_data" and isinstance(inner.func.value, ast.Name) \
                            and env.get(inner.func.value.id, ("",))[0] == "writer":
                        env[tg.id] = ("writerdata", env[inner.func.value.id][1])
                        return None
                    r = self._call(v, env, fi, cls_q, tg.id)
                    if r is not None:
                        env[tg.id] = r
                        return None
                # x = None if <field> is None else f(<field>)   /   x = f(<field>) if <field> is not None else None :
                # x is None exactly when the field is, and otherwise carries the field (through f)
                carried = self._optional_carry(v, env, fi)
                if carried is not None:
                    env[tg.id] = ("src", carried)
                    return None
                try:
                    val = self.folder.fold(v, fi.module, None, cls_q)
                    env[tg.id] = ("const", val)
                except Unfoldable:
                    env[tg.id] = ("src", self._src(v, env, fi))
            return None
        if isinstance(s, ast.With):
            item = s.items[0]
            c = item.context_expr
            if not (isinstance(c, ast.Call) and isinstance(c.func, ast.Attribute) and c.func.attr in PUSH_KINDS and isinstance(c.func.value, ast.Name)):
                raise AnalysisError(f"{fi.qualname}:{s.lineno}: unsupported with-statement in a writer")
            w = env.get(c.func.value.id)
            if not w or w[0] != "writer":
                raise AnalysisError(f"{fi.qualname}:{s.lineno}: push on something that is not a writer")
            tag_e = c.args[0] if c.args else None
            for k in c.keywords:
                if k.arg == "tag":
                    tag_e = k.value
            tag = self._tag(tag_e, fi, cls_q, env) or self.default_tags[c.func.attr]
            node = WNode("cons", PUSH_KINDS[c.func.attr], tag, line=s.lineno, func=fi.qualname)
            env2 = dict(env)
            if item.optional_vars is not None and isinstance(item.optional_vars, ast.Name):
                env2[item.optional_vars.id] = ("writer", node.children)
            r = self._block(s.body, env2, fi, cls_q)
            # a child writer hands its octets to the parent when its block is left: what the block itself wrote to the parent comes first
            w[1].append(node)
            for k2, v2 in env2.items():
                if k2 not in env:
                    env[k2] = v2
            return r
        if isinstance(s, ast.If):
            cd = self._cond(s.test, env, fi)
            if cd is None:
                raise AnalysisError(f"{fi.qualname}:{s.lineno}: condition `{norm(s.test)}` in a writer is not a presence test")
            if s.orelse:
                raise AnalysisError(f"{fi.qualname}:{s.lineno}: else-branch in a writer")
            # children are collected into per-writer shadow lists and wrapped
            shadows: Dict[int, Tuple[List[WNode], List[WNode]]] = {}
            env2 = dict(env)
            for k, v in env.items():
                if v[0] == "writer":
                    sh: List[WNode] = []
                    shadows[id(v[1])] = (v[1], sh)
                    env2[k] = ("writer", sh) + tuple(v[2:])
            r = self._block(s.body, env2, fi, cls_q)
            for real, sh in shadows.values():
                if sh:
                    real.append(WNode("opt", cond=(cd[0], cd[1].path if cd[1].kind in ("field", "elem") else cd[1].text), src=cd[1], children=sh, line=s.lineno, func=fi.qualname))
            # a local that was None (or unbound) before and is derived from a field under `if <field> is not None:` stands for that
            # field afterwards (it is None exactly when the field is)
            for k2, v2 in env2.items():
                if v2 and v2[0] == "src" and (k2 not in env or env[k2] == ("const", None)) and k2 not in shadows:
                    env[k2] = v2
            return r
        if isinstance(s, ast.For):
            if not isinstance(s.target, ast.Name):
                raise AnalysisError(f"{fi.qualname}:{s.lineno}: unsupported loop target in a writer")
            it = self._src(s.iter, env, fi)
            if it.kind != "field":
                raise AnalysisError(f"{fi.qualname}:{s.lineno}: writer loop over `{norm(s.iter)}` which is not a message field")
            shadows = {}
            env2 = dict(env)
            for k, v in env.items():
                if v[0] == "writer":
                    sh = []
                    shadows[id(v[1])] = (v[1], sh)
                    env2[k] = ("writer", sh) + tuple(v[2:])
            et = self.r.strip_opt(self.r.type_of(s.iter, fi))
            elem_cls = et[1][1] if et[0] == "list" and et[1][0] == "inst" else None
            env2[s.target.id] = ("elemobj", it.path, elem_cls) if elem_cls else ("elem", it.path)
            self._block(s.body, env2, fi, cls_q)
            for real, sh in shadows.values():
                if sh:
                    real.append(WNode("rep", src=it, children=sh, line=s.lineno, func=fi.qualname))
            return None
        if isinstance(s, ast.Return):
            v = s.value
            if v is None:
                return None
            # bytes(writer.get_data()) / writer.get_data() / self.value
            inner = v
            while isinstance(inner, ast.Call) and isinstance(inner.func, ast.Name) and inner.func.id in ("bytes", "bytearray") and len(inner.args) == 1:
                inner = inner.args[0]
            if isinstance(inner, ast.Call) and isinstance(inner.func, ast.Attribute) and inner.func.attr == "get_data" and isinstance(inner.func.value, ast.Name):
                w = env.get(inner.func.value.id)
                if w and w[0] == "writer":
                    return w[1]
            if isinstance(inner, ast.Name) and env.get(inner.id, ("",))[0] == "writerdata":
                return env[inner.id][1]
            if isinstance(inner, ast.Call) and isinstance(inner.func, ast.Name):
                r = self._helper_call(inner, env, fi, cls_q, "<ret>")
                if r is not None and r[0] == "grammar":
                    return r[1]
            src = self._src(v, env, fi)
            return [WNode("value", src=src, line=s.lineno, func=fi.qualname)]
        if isinstance(s, ast.Pass):
            return None
        if isinstance(s, ast.Raise):
            return [WNode("abstract", line=s.lineno, func=fi.qualname)]
        raise AnalysisError(f"{fi.qualname}:{s.lineno}: unsupported statement {type(s).__name__} in a writer")

    def _call(self, c: ast.Call, env: Dict[str, Any], fi: FuncInfo, cls_q: str, assign_to: Optional[str]):
        f = c.func
        if isinstance(f, ast.Name):
            return self._helper_call(c, env, fi, cls_q, assign_to)
        if not isinstance(f, ast.Attribute):
            return None
        recv = f.value
        # writer.write_x(value, tag)
        if f.attr in WRITE_KINDS and isinstance(recv, ast.Name) and env.get(recv.id, ("",))[0] == "writer":
            w = env[recv.id]
            tag_e = c.args[1] if len(c.args) > 1 else None
            for k in c.keywords:
                if k.arg == "tag":
                    tag_e = k.value
            tag = self._tag(tag_e, fi, cls_q, env) or self.default_tags[f.attr]
            val = c.args[0] if c.args else None
            src = self._src(val, env, fi) if val is not None else Src("unknown")
            if isinstance(val, ast.Name) and env.get(val.id, ("",))[0] == "grammar":
                w[1].append(WNode("encaps", "octet_string", tag, children=env[val.id][1], line=c.lineno, func=fi.qualname))
            else:
                w[1].append(WNode("prim", WRITE_KINDS[f.attr], tag, src, line=c.lineno, func=fi.qualname,
                                  modes=call_modes(self.m, f"{ASN1}.ASN1Writer", f.attr, c, ("tag", "value"), 1)))
            return None
        # nested grammar calls:  <obj>._pack_inner(writer, options) / <obj>.pack(writer, options) / self.get_value(options)
        wargs = [a for a in c.args if isinstance(a, ast.Name) and env.get(a.id, ("",))[0] == "writer"]
        target_obj = None
        if isinstance(recv, ast.Name) and recv.id in env and env[recv.id][0] in ("self", "elemobj"):
            v = env[recv.id]
            target_obj = (v[1], v[2], v[0] == "elemobj")
        elif isinstance(recv, ast.Attribute) and isinstance(recv.value, ast.Name) and env.get(recv.value.id, ("",))[0] == "self":
            base = env[recv.value.id][1]
            t = self.r.strip_opt(self.r.type_of(recv, fi))
            if t[0] == "inst":
                target_obj = ((base + "." if base else "") + recv.attr, t[1], False)
        elif isinstance(recv, ast.Name) and env.get(recv.id, ("",))[0] == "elem":
            # element of a list field whose element type is a class (filters)
            t = self.r.strip_opt(self.r.type_of(recv, fi))
            if t[0] == "inst":
                target_obj = (env[recv.id][1] + "[]", t[1], True)
        if target_obj is None and isinstance(recv, ast.Call) and isinstance(recv.func, ast.Name) and recv.func.id == "super" and wargs and fi.cls is not None:
            # super().m(writer, ...): the next definition of m after the current class in the concrete class's MRO, same object
            nxt = self.m.find_method(cls_q, f.attr, after=fi.cls)
            selfname = next((k for k, v in env.items() if v and v[0] == "self"), None)
            if nxt is not None and selfname is not None:
                self.grammar_into_fi(nxt, env[selfname][1], wargs, env, cls_q)
                return None
        if target_obj is None:
            if wargs:
                # a writer handed to something that is not followed: what it writes is not in the grammar
                raise AnalysisError(f"{fi.qualname}:{c.lineno}: the writer is handed to `{norm(c.func)[:40]}`, which the extractor does not follow")
            return None
        path, tcls, is_elem = target_obj
        if isinstance(recv, ast.Name) and env[recv.id][0] == "self" and self.m.find_method(cls_q, f.attr) is not None:
            # call on self: inline with the concrete class
            sub = self.grammar_into(cls_q, f.attr, path, wargs, env, call=c, caller=fi)
            if assign_to is not None:
                return self._value_of(sub)
            return None
        # call on a field object / element
        subs = self.m.subclasses(tcls, strict=True)
        if subs or self._is_abstract(tcls, f.attr):
            # polymorphic: a nonterminal named after the base class - which stands for what the classes' `pack` writes
            if wargs and f.attr != "pack":
                raise AnalysisError(f"{fi.qualname}:{c.lineno}: the writer is handed to `{norm(c.func)[:50]}`, a method other than pack() of a polymorphic field: what it writes is not in the grammar")
            if wargs:
                env[wargs[0].id][1].append(WNode("ref", nt=tcls, src=Src("elem" if is_elem else "field", path), line=c.lineno, func=fi.qualname))
            return None
        self.grammar_into(tcls, f.attr, path, wargs, env)
        return None

    def _optional_carry(self, v: ast.expr, env: Dict[str, Any], fi: FuncInfo):
        """`None if <field> is None else f(<field>)` / `f(<field>) if <field> is not None else None`: the value is None exactly when
        the field is, and otherwise carries the field (through f): the source it stands for, or None"""
        if isinstance(v, ast.IfExp) and isinstance(v.test, ast.Compare) and len(v.test.ops) == 1 and isinstance(v.test.comparators[0], ast.Constant) and \
                v.test.comparators[0].value is None and isinstance(v.test.ops[0], (ast.Is, ast.IsNot)):
            none_arm, val_arm = (v.body, v.orelse) if isinstance(v.test.ops[0], ast.Is) else (v.orelse, v.body)
            if isinstance(none_arm, ast.Constant) and none_arm.value is None:
                tested = self._src(v.test.left, env, fi)
                carried = self._src(val_arm, env, fi)
                if tested.kind in ("field", "elem") and carried.kind == tested.kind and carried.path == tested.path:
                    return carried
        return None

    def _bind_call_args(self, c: ast.Call, hf: FuncInfo, ps: List[str], env: Dict[str, Any], env2: Dict[str, Any], fi: FuncInfo, cls_q: str) -> None:
        """parameters `ps` of the callee (positional order, without the receiver) bound to what the caller passes: writers, field
        sources, constants"""
        pairs = [(i, None, a) for i, a in enumerate(c.args)] + [(None, k.arg, k.value) for k in c.keywords]
        for i, kw, a in pairs:
            p_ = ps[i] if i is not None and i < len(ps) else kw
            if p_ is None or p_ not in ps or p_ in env2:
                continue
            if isinstance(a, ast.Name) and a.id in env:
                env2[p_] = env[a.id]
            else:
                oc = self._optional_carry(a, env, fi)
                if oc is not None:
                    env2[p_] = ("src", oc)
                    continue
                sr = self._src(a, env, fi)
                if sr.kind in ("field", "elem"):
                    env2[p_] = ("src", sr)
                    continue
                try:
                    env2[p_] = ("const", self.folder.fold(a, fi.module, None, cls_q))
                except Unfoldable:
                    if sr.kind != "unknown":
                        env2[p_] = ("src", sr)
                    mentions_field = any((isinstance(x, ast.Attribute) and isinstance(x.value, ast.Name) and x.value.id == "self") or
                                         (isinstance(x, ast.Name) and env.get(x.id, ("",))[0] == "src") for x in ast.walk(a))
                    if mentions_field and sr.kind not in ("field", "elem") and isinstance(a, (ast.IfExp, ast.BoolOp, ast.BinOp, ast.Subscript)):
                        raise AnalysisError(f"{fi.qualname}:{c.lineno}: argument `{norm(a)[:60]}` of the writer helper {hf.name} is computed from fields in a way the extractor does not follow")

    def _helper_call(self, c: ast.Call, env: Dict[str, Any], fi: FuncInfo, cls_q: str, assign_to: Optional[str]):
        """A module-level helper that is handed a writer: interpreted in place, with its parameters bound to the
        caller's writer / field sources (a pack loop moved out of a method reads the same)."""
        pairs = [(i, None, a) for i, a in enumerate(c.args)] + [(None, k.arg, k.value) for k in c.keywords]
        wnames = [a for _, _, a in pairs if isinstance(a, ast.Name) and env.get(a.id, ("",))[0] == "writer"]
        q = self.m.resolve_name(fi.module, c.func.id)
        hf = self.m.functions.get(q) if q else None
        if not wnames:
            # a helper that builds its own root writer and returns the encoded value (an extracted get_value body)
            own_writer = hf is not None and hf.cls is None and not isinstance(hf.node, ast.Lambda) and \
                any(isinstance(x, ast.Call) and self.m.resolve_name(hf.module, norm(x.func)) == f"{ASN1}.ASN1Writer" for x in ast.walk(hf.node) if isinstance(x, ast.Call) and isinstance(x.func, (ast.Name, ast.Attribute)))
            if not own_writer:
                return None
        if hf is None or hf.cls is not None or isinstance(hf.node, ast.Lambda):
            raise AnalysisError(f"{fi.qualname}:{c.lineno}: a writer is handed to `{norm(c.func)}`, which is not a package function")
        if getattr(self, "_helper_depth", 0) > 4:
            raise AnalysisError(f"{fi.qualname}:{c.lineno}: helper nesting too deep")
        ps = hf.params()
        env2: Dict[str, Any] = {}
        self._bind_call_args(c, hf, ps, env, env2, fi, cls_q)
        # parameters left to their defaults
        a_ = hf.node.args
        allp = a_.posonlyargs + a_.args
        for p_, d in list(zip(allp[len(allp) - len(a_.defaults):], a_.defaults)) + [(p2, d2) for p2, d2 in zip(a_.kwonlyargs, a_.kw_defaults) if d2 is not None]:
            if p_.arg not in env2:
                try:
                    env2[p_.arg] = ("const", self.folder.fold(d, hf.module, None, None))
                except Unfoldable:
                    pass
        self._helper_depth = getattr(self, "_helper_depth", 0) + 1
        try:
            sub = self._block(hf.node.body, env2, hf, cls_q)
        finally:
            self._helper_depth -= 1
        if assign_to is not None:
            return self._value_of(sub)
        return None

    def _is_abstract(self, cls_q: str, method: str) -> bool:
        fi = self.m.find_method(cls_q, method)
        if fi is None:
            return True
        body = [s for s in fi.node.body if not (isinstance(s, ast.Expr) and isinstance(s.value, ast.Constant))]
        return len(body) == 1 and isinstance(body[0], ast.Raise)

    def grammar_into(self, cls_q: str, method: str, self_path: str, wargs: List[ast.Name], env: Dict[str, Any], call: Optional[ast.Call] = None, caller: Optional[FuncInfo] = None):
        fi = self.m.find_method(cls_q, method)
        if fi is None:
            raise AnalysisError(f"{cls_q}.{method} not found")
        return self.grammar_into_fi(fi, self_path, wargs, env, cls_q, call, caller)

    def grammar_into_fi(self, fi: FuncInfo, self_path: str, wargs: List[ast.Name], env: Dict[str, Any], cls_q: str, call: Optional[ast.Call] = None, caller: Optional[FuncInfo] = None):
        env2: Dict[str, Any] = {}
        params = fi.params()
        env2[params[0]] = ("self", self_path, cls_q)
        wi = 0
        for p in params[1:]:
            t = self.r.env(fi).get(p)
            if t == ("inst", f"{ASN1}.ASN1Writer") and wi < len(wargs):
                env2[p] = env[wargs[wi].id]
                wi += 1
        if call is not None and caller is not None and self_path == "" and not any(isinstance(a, ast.Starred) for a in call.args) and all(k.arg for k in call.keywords):
            # a method of the object's own class handed pieces of the object (self._pack_x(writer, options, self.attribute, ...))
            self._bind_call_args(call, fi, params[1:], env, env2, caller, cls_q)
        return self._block(fi.node.body, env2, fi, cls_q)

    def _value_of(self, sub: Optional[List[WNode]]):
        if sub is None:
            return ("src", Src("unknown"))
        if len(sub) == 1 and sub[0].kind == "value":
            return ("src", sub[0].src)
        return ("grammar", sub)


# ---------------------------------------------------------------------------------- flattening
@dataclass
class Leaf:
    path: str                    # field path the value is written from ("" for structural nodes)
    ukind: str
    tag: TagConst
    conv: str
    opt: Optional[str]           # None mandatory | notnone | truthy
    opt_path: str
    repeated: bool
    chain: Tuple[Tuple[str, Tuple[str, int, bool]], ...]    # constructed parents from the root: (kind, tag triple)
    index: int                   # position among its siblings
    ref: str = ""                # nonterminal for ref leaves
    node: Optional[WNode] = None
    encaps: bool = False


def flatten(nodes: List[WNode], chain=(), opt=None, opt_path="", rep=False, out: Optional[List[Leaf]] = None, counter: Optional[List[int]] = None) -> List[Leaf]:
    out = out if out is not None else []
    counter = counter if counter is not None else [0]
    for n in nodes:
        if n.kind == "prim":
            out.append(Leaf(n.src.path if n.src and n.src.kind in ("field", "elem") else "", n.ukind, n.tag, n.src.conv if n.src else "identity", opt, opt_path, rep or (n.src is not None and n.src.kind == "elem"), chain, counter[0], node=n))
            counter[0] += 1
        elif n.kind == "cons":
            idx = counter[0]
            counter[0] += 1
            out.append(Leaf("", n.ukind, n.tag, "identity", opt, opt_path, rep, chain, idx, node=n))
            flatten(n.children, chain + ((n.ukind, n.tag.triple()),), None, "", False, out, [0])
        elif n.kind == "encaps":
            idx = counter[0]
            counter[0] += 1
            out.append(Leaf("", "octet_string", n.tag, "identity", opt, opt_path, rep, chain, idx, node=n, encaps=True))
            flatten(n.children, chain + (("encaps", n.tag.triple()),), None, "", False, out, [0])
        elif n.kind == "opt":
            flatten(n.children, chain, n.cond[0], n.cond[1], rep, out, counter)
        elif n.kind == "rep":
            flatten(n.children, chain, opt, opt_path, True, out, counter)
        elif n.kind == "ref":
            out.append(Leaf(n.src.path if n.src else "", "ref", TagConst(None, -1, False), "identity", opt, opt_path, rep, chain, counter[0], ref=n.nt, node=n))
            counter[0] += 1
    return out


# ====================================================================================== reader side
@dataclass
class TagSpec:
    how: str                       # explicit | default | header
    tag: Optional[TagConst] = None     # explicit / default
    cls_name: Optional[str] = None     # header: class required by the dominating test (None = any)
    number: Optional[int] = None       # header: number required by the dominating test (None = any)

    def accepts(self, t: TagConst) -> bool:
        if self.how in ("explicit", "default"):
            return self.tag is not None and self.tag.triple() == t.triple()
        if self.cls_name is not None and self.cls_name != t.cls_name:
            return False
        if self.number is not None and self.number != t.num:
            return False
        return True

    def __repr__(self):
        if self.how == "header":
            return f"<header {self.cls_name or '*'} {self.number if self.number is not None else '*'} p|c>"
        return f"{self.tag}" + ("(default)" if self.how == "default" else "")


@dataclass
class RNode:
    kind: str                      # prim | cons | optset | rep | ref | unchecked
    ukind: str = ""
    spec: Optional[TagSpec] = None
    var: str = ""                  # local the value is bound to
    conv: str = "identity"
    enum_cls: str = ""
    children: List["RNode"] = field(default_factory=list)
    alts: List[Tuple[TagSpec, List["RNode"]]] = field(default_factory=list)
    skip_unknown: bool = False
    loop: bool = False
    nt: str = ""
    line: int = 0
    func: str = ""
    appended_to: str = ""          # list local the value is appended to
    modes: str = ""                # keyword arguments of the read call other than tag/header/hint, when not the method's default

    def brief(self) -> str:
        if self.kind == "prim":
            return f"{self.ukind}{self.spec} -> {self.var or self.appended_to + '[]'}" + (f"|{self.conv}" if self.conv != "identity" else "")
        if self.kind == "cons":
            return f"{self.ukind}{self.spec} {{ {', '.join(c.brief() for c in self.children)} }}"
        if self.kind == "optset":
            return ("*" if self.loop else "") + "optset(" + "; ".join(f"{sp}: {', '.join(c.brief() for c in cs)}" for sp, cs in self.alts) + (", skip-unknown" if self.skip_unknown else "") + ")"
        if self.kind == "rep":
            return f"*({', '.join(c.brief() for c in self.children)})"
        if self.kind == "ref":
            return f"<{self.nt} -> {self.var or self.appended_to + '[]'}>"
        if self.kind == "unchecked":
            return f"UNCHECKED-OPTIONAL({', '.join(c.brief() for c in self.children)})"
        if self.kind == "encaps":
            return f"encapsulated-in({self.nt}){{ {', '.join(c.brief() for c in self.children)} }}"
        return self.kind


@dataclass
class ReaderResult:
    func: str
    nodes: List[RNode]
    cls: str                                  # class constructed by the return
    field_of_var: Dict[str, str]              # local -> dataclass field (from the return constructor call)
    defaults: Dict[str, ast.expr]             # local -> initial value expression
    conv_of_var: Dict[str, str]               # conversions applied after the read (x.decode(...) at the constructor call)
    returns: List[ast.Return] = field(default_factory=list)
    inlines: Dict[str, "ReaderResult"] = field(default_factory=dict)     # caller local -> result of an inlined helper reader
    encaps_of: Dict[str, str] = field(default_factory=dict)             # reader local -> value it was constructed over
    appended: Dict[str, str] = field(default_factory=dict)              # local -> list local it was appended to
    structs: Dict[str, Dict[str, str]] = field(default_factory=dict)    # local bound to Cls(f=v, ...) -> {v: f}
    flat_body: Optional[List[ast.stmt]] = None                          # the decoder's body after helper inlining

    def field_path(self, node: "RNode") -> Optional[str]:
        """dataclass field (dotted through inlined helpers) that the value read by `node` ends up in."""
        def own(res: "ReaderResult", n: "RNode") -> Optional[str]:
            v = n.var
            if n.appended_to:
                v = n.appended_to
            def resolve(v: str, depth: int = 0) -> Optional[str]:
                seen = set()
                while v not in res.field_of_var and v in res.appended and v not in seen:
                    seen.add(v)
                    v = res.appended[v]          # a list whose elements are handed on to another list / a local copied into another
                if v in res.field_of_var:
                    return res.field_of_var[v]
                if depth < 4:
                    # a local that is an argument of `x = Cls(f=v, ...)`: the field f of wherever x ends up
                    for sv, mp in res.structs.items():
                        if v in mp:
                            outer = resolve(sv, depth + 1)
                            if outer is not None:
                                return mp[v] if outer in ("<self>", "") else f"{outer}.{mp[v]}"
                return None
            return resolve(v)
        if node.func == self.func:
            return own(self, node)
        for var, sub in self.inlines.items():
            if sub.func == node.func:
                inner = own(sub, node)
                outer = self.field_of_var.get(var) or self.field_of_var.get(self.appended.get(var, ""))
                if inner is None:
                    return None
                if inner == "<self>":
                    return outer
                if outer is None or inner.startswith("#"):
                    return inner if outer is None else outer
                return f"{outer}.{inner}"
            deep = sub.field_path(node) if sub.inlines else None
            if deep is not None:
                outer = self.field_of_var.get(var) or self.field_of_var.get(self.appended.get(var, ""))
                return f"{outer}.{deep}" if outer else deep
        return None


CLASSES4 = frozenset({"UNIVERSAL", "APPLICATION", "CONTEXT_SPECIFIC", "PRIVATE"})


def const_int_(e) -> Optional[int]:
    return e.value if isinstance(e, ast.Constant) and isinstance(e.value, int) and not isinstance(e.value, bool) else None


class Box:
    """A set of (tag class, tag number) pairs: classes x numbers, numbers given as a finite set or its complement."""
    def __init__(self, classes, nums_in=None, nums_notin=frozenset()):
        self.classes = frozenset(classes)
        self.nums_in = None if nums_in is None else frozenset(nums_in)
        self.nums_notin = frozenset(nums_notin)

    def empty(self) -> bool:
        return not self.classes or (self.nums_in is not None and not self.nums_in)

    def meet(self, o: "Box") -> "Box":
        cl = self.classes & o.classes
        if self.nums_in is not None and o.nums_in is not None:
            return Box(cl, self.nums_in & o.nums_in)
        if self.nums_in is not None:
            return Box(cl, self.nums_in - o.nums_notin)
        if o.nums_in is not None:
            return Box(cl, o.nums_in - self.nums_notin)
        return Box(cl, None, self.nums_notin | o.nums_notin)

    def complement(self) -> List["Box"]:
        out = [Box(CLASSES4 - self.classes)]
        if self.nums_in is not None:
            out.append(Box(self.classes, None, self.nums_in))
        elif self.nums_notin:
            out.append(Box(self.classes, self.nums_notin))
        return [b for b in out if not b.empty()]


def region_meet(a: List[Box], b: List[Box]) -> List[Box]:
    return [m for x in a for y in b for m in [x.meet(y)] if not m.empty()]


def region_not(a: List[Box]) -> List[Box]:
    out = [Box(CLASSES4)]
    for x in a:
        out = region_meet(out, x.complement())
    return out


def enc_conv(call: ast.Call, fn_node: Optional[ast.AST] = None) -> str:
    """`str(<encoding>)` for an x.encode(<enc>) / x.decode(<enc>) call, with a local that merely holds `<opts>.<attr>` (a hoisted
    `encoding = options.string_encoding`) resolved to that attribute."""
    a = call.args[0] if call.args else next((k.value for k in call.keywords if k.arg == "encoding"), None)
    if a is None:
        return "str(utf-8)"
    if isinstance(a, ast.Name) and fn_node is not None:
        binds = [x.value for x in ast.walk(fn_node) if isinstance(x, (ast.Assign, ast.AnnAssign)) and x.value is not None and
                 any(isinstance(t, ast.Name) and t.id == a.id for t in (x.targets if isinstance(x, ast.Assign) else [x.target]))]
        if len(binds) == 1 and isinstance(binds[0], ast.Attribute):
            a = binds[0]
    return f"str({norm(a).split('.')[-1]})"


def _value_guards(body: List[ast.stmt]) -> Optional[List[ast.stmt]]:
    """`if C: return <const>` ... `return E`   ==>   `ret = <const>` / `if not C: ... ret = E` / `return ret`
    (an optional-read helper written with early returns reads like the nested form). Applied only when every early return is a
    guard clause at the top level of the body returning the same constant."""
    guards = [(i, s) for i, s in enumerate(body[:-1]) if isinstance(s, ast.If) and not s.orelse and len(s.body) == 1 and isinstance(s.body[0], ast.Return)
              and (s.body[0].value is None or isinstance(s.body[0].value, ast.Constant))]
    if not guards:
        return None
    others = [x for b in body[:-1] for x in ast.walk(b) if isinstance(x, ast.Return)]
    if len(others) != len(guards):
        return None            # a return somewhere deeper: leave the body alone
    consts = {repr(s.body[0].value.value) if s.body[0].value is not None else "None" for _, s in guards}
    if len(consts) != 1:
        return None
    final = body[-1]
    if isinstance(final.value, ast.Call) and isinstance(final.value.func, ast.Name) and final.value.func.id[:1].isupper():
        return None            # constructor returns are handled by the field-wise rewrite below
    ret = "__ret"
    cval = guards[0][1].body[0].value or ast.Constant(value=None)

    def mk_assign(val, at):
        a = ast.Assign(targets=[ast.Name(id=ret, ctx=ast.Store())], value=val)
        ast.copy_location(a, at)
        ast.fix_missing_locations(a)
        return a

    def nest(stmts: List[ast.stmt]) -> List[ast.stmt]:
        for i, s in enumerate(stmts):
            if any(s is g for _, g in guards):
                t = s.test
                neg = t.operand if isinstance(t, ast.UnaryOp) and isinstance(t.op, ast.Not) else ast.UnaryOp(op=ast.Not(), operand=t)
                inner = nest(stmts[i + 1:])
                new_if = ast.If(test=neg, body=inner or [ast.Pass()], orelse=[])
                ast.copy_location(new_if, s)
                ast.fix_missing_locations(new_if)
                return list(stmts[:i]) + [new_if]
        return list(stmts)
    core = list(body[:-1]) + [mk_assign(final.value, final)]
    out = [mk_assign(cval, body[0])] + nest(core)
    r = ast.Return(value=ast.Name(id=ret, ctx=ast.Load()))
    ast.copy_location(r, final)
    ast.fix_missing_locations(r)
    return out + [r]


def normalise_guards(body: List[ast.stmt]) -> List[ast.stmt]:
    """Early-return guard clauses of a decoder are rewritten into the nested form the extractor reads:

        if not C: return K(a=x, b=None)              b = None
        REST                                  ==>    if C:
        return K(a=x, b=y)                               REST
                                                     return K(a=x, b=y)

    Only when the early return builds the same class with the same arguments, except for arguments that are a constant in
    the early return and a local (first bound in REST) in the final one.  Anything else is left untouched."""
    if len(body) >= 2 and isinstance(body[-1], ast.Return) and body[-1].value is not None:
        v = _value_guards(body)
        if v is not None:
            return v
    if len(body) < 2 or not (isinstance(body[-1], ast.Return) and isinstance(body[-1].value, ast.Call)):
        return body
    final = body[-1].value
    fkw = {k.arg: k.value for k in final.keywords if k.arg}
    for i, s in enumerate(body[:-1]):
        if not (isinstance(s, ast.If) and not s.orelse and len(s.body) == 1 and isinstance(s.body[0], ast.Return) and isinstance(s.body[0].value, ast.Call)):
            continue
        early = s.body[0].value
        if norm(early.func) != norm(final.func) or [norm(a) for a in early.args] != [norm(a) for a in final.args]:
            continue
        ekw = {k.arg: k.value for k in early.keywords if k.arg}
        if set(ekw) != set(fkw):
            continue
        pre: List[ast.stmt] = []
        ok = True
        bound_before = {x.id for b in body[:i] for x in ast.walk(b) if isinstance(x, ast.Name) and isinstance(x.ctx, ast.Store)}
        for k, ev in ekw.items():
            fv = fkw[k]
            if norm(ev) == norm(fv):
                continue
            if isinstance(ev, ast.Constant) and isinstance(fv, ast.Name) and fv.id not in bound_before:
                a = ast.Assign(targets=[ast.Name(id=fv.id, ctx=ast.Store())], value=ev)
                ast.copy_location(a, s)
                ast.fix_missing_locations(a)
                pre.append(a)
            else:
                ok = False
        if not ok:
            continue
        t = s.test
        neg = t.operand if isinstance(t, ast.UnaryOp) and isinstance(t.op, ast.Not) else ast.UnaryOp(op=ast.Not(), operand=t)
        rest = normalise_guards(list(body[i + 1:]))
        inner = rest[:-1] if rest and isinstance(rest[-1], ast.Return) and norm(rest[-1]) == norm(body[-1]) else None
        if inner is None:
            continue
        # assignments hoisted by the recursive call stay inside; that is fine: they precede their own guard
        new_if = ast.If(test=neg, body=inner or [ast.Pass()], orelse=[])
        ast.copy_location(new_if, s)
        ast.fix_missing_locations(new_if)
        return list(body[:i]) + pre + [new_if, body[-1]]
    return body


def call_modes(model: Model, cls_q: str, meth: str, call: ast.Call, inert: Tuple[str, ...], npos_inert: int) -> str:
    """the arguments of a reader/writer method call that select a mode of the method (anything but the value, the tag, the
    header and the error hint), rendered as text; empty when each of them is the literal default of its parameter"""
    mt = model.find_method(cls_q, meth)
    out = []
    defaults = {}
    pos: List[str] = []
    if mt is not None:
        a = mt.node.args
        pos = [p.arg for p in a.posonlyargs + a.args][1:]
        dl = a.defaults
        for p_, d in zip(pos[len(pos) - len(dl):] if dl else [], dl):
            defaults[p_] = d
        for p_, d in zip(a.kwonlyargs, a.kw_defaults):
            if d is not None:
                defaults[p_.arg] = d
    pairs = [(pos[i] if i < len(pos) else f"#{i}", v) for i, v in enumerate(call.args) if i >= npos_inert]
    pairs += [(k.arg or "**", k.value) for k in call.keywords]
    for name, v in pairs:
        if name in inert:
            continue
        d = defaults.get(name)
        if d is not None and isinstance(d, ast.Constant) and isinstance(v, ast.Constant) and d.value == v.value and type(d.value) is type(v.value):
            continue
        out.append(f"{name}={norm(v)}")
    return ", ".join(sorted(out))


class ReaderExtractor:
    def __init__(self, model: Model):
        self.m = model
        self.folder = Folder(model)
        self.r = Resolver(model)
        self.default_tags: Dict[str, TagConst] = {}
        from .anchors import asn1 as asn1_anchors
        an = asn1_anchors(self.m)
        for name, kind in list(READ_KINDS.items()) + list(READ_CONS.items()):
            fi = self.m.find_method(f"{ASN1}.ASN1Reader", name)
            if fi is None:
                raise AnalysisError(f"ASN1Reader.{name} not found")
            tag = self._reader_default(fi, an)
            if not isinstance(tag, TagConst):
                tag = default_tag_by_evaluation(self.m, self.folder, fi, {an.validate.qualname})
            if not isinstance(tag, TagConst):
                raise AnalysisError(f"default tag of ASN1Reader.{name} not recovered")
            self.default_tags[name] = tag

    def _reader_default(self, fi: FuncInfo, an, env: Optional[Dict[str, Any]] = None, depth: int = 0) -> Optional[TagConst]:
        """The tag a read_* method falls back to: the else-arm of `header.tag if header else <default>` in the method itself or in
        the (module-level or private-method) helper it delegates to, with the helper's parameters bound to the constants the
        method passes."""
        if depth > 3:
            return None
        for n in ast.walk(fi.node):
            if isinstance(n, ast.IfExp) and norm(n.test) == "header":
                try:
                    v = self.folder.fold(n.orelse, ASN1, env)
                except Unfoldable:
                    v = None
                if isinstance(v, TagConst):
                    return v
        for n in ast.walk(fi.node):
            if not isinstance(n, ast.Call):
                continue
            callee = None
            if isinstance(n.func, ast.Name):
                q = self.m.resolve_name(fi.module, n.func.id)
                callee = self.m.functions.get(q) if q else None
            elif isinstance(n.func, ast.Attribute) and isinstance(n.func.value, ast.Name) and n.func.value.id in ("self", "cls") and fi.cls:
                callee = self.m.find_method(fi.cls, n.func.attr)
            if callee is None or callee is fi or isinstance(callee.node, ast.Lambda) or callee.module != ASN1:
                continue
            ps = callee.params()
            if callee.cls and not callee.is_staticmethod:
                ps = ps[1:]
            env2: Dict[str, Any] = {}
            for p_, a in [(ps[i], a) for i, a in enumerate(n.args) if i < len(ps)] + [(k.arg, k.value) for k in n.keywords if k.arg in ps]:
                try:
                    env2[p_] = self.folder.fold(a, fi.module, env)
                except Unfoldable:
                    # a module function handed on as a value (`self._read_and_advance(_read_asn1_set, ...)`): look inside it
                    if isinstance(a, ast.Name):
                        q2 = self.m.resolve_name(fi.module, a.id)
                        if q2 in self.m.functions:
                            v = self._reader_default(self.m.functions[q2], an, None, depth + 1)
                            if v is not None:
                                return v
            v = self._reader_default(callee, an, env2, depth + 1)
            if v is not None:
                return v
        return None

    # ------------------------------------------------------------------ entry
    def extract(self, fi: FuncInfo, cls_q: Optional[str] = None, reader_param: Optional[str] = None) -> ReaderResult:
        params = fi.params()
        if fi.cls and not fi.is_staticmethod:
            params = params[1:]
        rp = reader_param
        if rp is None:
            for p in params:
                if self.r.env(fi).get(p) == ("inst", f"{ASN1}.ASN1Reader"):
                    rp = p
                    break
        res = ReaderResult(fi.qualname, [], "", {}, {}, {})
        st = {"readers": {}, "headers": {}, "res": res, "fi": fi, "cls": cls_q or fi.cls, "lists": {}, "values": {}, "emitted": []}
        if rp is not None:
            st["readers"][rp] = res.nodes
        from .inline import inline_reader_helpers
        body = inline_reader_helpers(self.m, fi, normalise_guards) if not isinstance(fi.node, ast.Lambda) else list(fi.node.body)
        body = normalise_guards(body)
        res.flat_body = body
        self._block(body, st)
        # a reader (or a header) that is handed to an object the extractor does not look into - a private cursor / unpacker class -
        # is consumed out of sight: the grammar extracted here would be missing those reads, so there is no grammar
        rnames = set(st["readers"]) | set(st["headers"])
        for c in ast.walk(ast.Module(body=body, type_ignores=[])):
            if isinstance(c, ast.Call) and isinstance(c.func, (ast.Name, ast.Attribute)):
                q = self.m.resolve_name(fi.module, norm(c.func))
                if q in self.m.classes and q != f"{ASN1}.ASN1Reader" and not self.m.classes[q].is_dataclass and \
                        not any(b.endswith("NamedTuple") for b in self.m.classes[q].bases):
                    if any(isinstance(a, ast.Name) and a.id in rnames for a in list(c.args) + [k.value for k in c.keywords]):
                        raise AnalysisError(f"{fi.qualname}:{c.lineno}: the reader is handed to {q.split('.')[-1]}(...), an object whose methods consume it out of the extractor's sight")
                if isinstance(c.func, ast.Attribute) and c.func.attr != "unpack" and not (isinstance(c.func.value, ast.Name) and c.func.value.id in rnames) and \
                        q not in self.m.functions and q not in self.m.classes and \
                        any(isinstance(a, ast.Name) and a.id in st["readers"] for a in list(c.args) + [k.value for k in c.keywords]):
                    # <something>.method(reader, ...) that is neither a reader method, an unpack of a known type nor a function the
                    # extractor followed: the reads it makes are not in the grammar
                    raise AnalysisError(f"{fi.qualname}:{c.lineno}: the reader is handed to `{norm(c.func)[:40]}`, which the extractor does not follow")
        return res

    # ------------------------------------------------------------------ helpers
    def _tagtests(self, t: ast.expr, st) -> Optional[Tuple[str, TagSpec]]:
        """Conjunction of tests on `<h>.tag.tag_class == TagClass.X` / `<h>.tag.tag_number == N` -> (header var, spec)."""
        r = self._tagtests_plain(t, st)
        if r is not None:
            return r
        # any other boolean combination (negations, !=, `not (a != x or b != y)`): decide it with the (class, number) algebra;
        # it is a tag test when exactly one identifier - or one class with any number - satisfies it
        t2 = self._subst_aliases(t, st)
        for hv in [x.id for x in ast.walk(t2) if isinstance(x, ast.Name) and x.id in st["headers"]][:1]:
            reg = self._region_of(t2, st, hv)
            if reg is None:
                return None
            reg = [b for b in reg if not b.empty()]
            if len(reg) == 1 and len(reg[0].classes) == 1:
                b = reg[0]
                cn = next(iter(b.classes))
                if b.nums_in is not None and len(b.nums_in) == 1:
                    return hv, TagSpec("header", None, cn, next(iter(b.nums_in)))
                if b.nums_in is None and not b.nums_notin:
                    return hv, TagSpec("header", None, cn, None)
        return None

    def _tagtests_plain(self, t: ast.expr, st) -> Optional[Tuple[str, TagSpec]]:
        t = self._subst_aliases(t, st)
        oh = self._opt_header_test(t, st)
        if oh is not None:
            t = oh
        conj = t.values if isinstance(t, ast.BoolOp) and isinstance(t.op, ast.And) else [t]
        hv = None
        cls_name = None
        number = None
        found = False
        conj = [x for c in conj for x in self._inline_predicate(c, st)]
        conj = [y for x in conj for y in (x.values if isinstance(x, ast.BoolOp) and isinstance(x.op, ast.And) else [x])]
        for c in conj:
            if isinstance(c, ast.Name):
                continue            # `next_header and ...`
            if isinstance(c, ast.Compare) and len(c.ops) == 1 and isinstance(c.ops[0], ast.IsNot) and isinstance(c.left, ast.Name) and \
                    isinstance(c.comparators[0], ast.Constant) and c.comparators[0].value is None:
                continue            # `next_header is not None and ...`
            if isinstance(c, ast.Call) and isinstance(c.func, ast.Name) and c.func.id == "isinstance" and len(c.args) == 2 and norm(c.args[0]).endswith(".tag") and \
                    norm(c.args[1]).split(".")[-1] == "ASN1Tag":
                continue            # `isinstance(h.tag, ASN1Tag)` (what a class pattern of a match statement tests first)
            if isinstance(c, ast.Call) and isinstance(c.func, ast.Name) and c.func.id == "isinstance" and len(c.args) == 2 and isinstance(c.args[0], ast.Name) and \
                    norm(c.args[1]).split(".")[-1] == "ASN1Header":
                continue            # `isinstance(h, ASN1Header)`: h is a header, not None
            if isinstance(c, ast.Compare) and len(c.ops) == 1 and isinstance(c.ops[0], ast.Eq):
                l, r_ = c.left, c.comparators[0]
                lt = norm(l)
                if lt.endswith(".tag.tag_class") or lt.endswith(".tag_class"):
                    hv = lt.split(".")[0]
                    try:
                        v = self.folder.fold(r_, st["fi"].module, st.get("consts"), st["cls"])
                    except Unfoldable:
                        return None
                    cls_name = v.member if isinstance(v, EnumConst) else None
                    found = True
                    continue
                if lt.endswith(".tag.tag_number") or lt.endswith(".tag_number"):
                    hv = lt.split(".")[0]
                    try:
                        v = self.folder.fold(r_, st["fi"].module, st.get("consts"), st["cls"])
                    except Unfoldable:
                        return None
                    number = v.value if isinstance(v, EnumConst) else v
                    found = True
                    continue
            return None
        if not found:
            return None
        return hv, TagSpec("header", None, cls_name, number)

    def _region_of(self, t: ast.expr, st, hv: str) -> Optional[List[Box]]:
        """The set of (class, number) identifiers of header `hv` for which test t holds; None if t is not a tag test."""
        t = self._subst_aliases(t, st)
        oh = self._opt_header_test(t, st)
        if oh is not None:
            t = oh
        if isinstance(t, ast.BoolOp):
            parts = [self._region_of(v, st, hv) for v in t.values]
            if any(p_ is None for p_ in parts):
                # `h and <tests>`: a bare header name is always true here
                def _always(v: ast.expr) -> bool:
                    if isinstance(v, ast.Name) and v.id == hv:
                        return True
                    if isinstance(v, ast.Compare) and len(v.ops) == 1 and isinstance(v.ops[0], ast.IsNot) and isinstance(v.left, ast.Name) and v.left.id == hv and \
                            isinstance(v.comparators[0], ast.Constant) and v.comparators[0].value is None:
                        return True
                    if isinstance(v, ast.Call) and isinstance(v.func, ast.Name) and v.func.id == "isinstance" and len(v.args) == 2 and norm(v.args[0]) == hv + ".tag" and \
                            norm(v.args[1]).split(".")[-1] == "ASN1Tag":
                        return True
                    if isinstance(v, ast.Call) and isinstance(v.func, ast.Name) and v.func.id == "isinstance" and len(v.args) == 2 and norm(v.args[0]) == hv and \
                            norm(v.args[1]).split(".")[-1] == "ASN1Header":
                        return True
                    return False
                def _never(v: ast.expr) -> bool:
                    # `h is None` / `not h`: false whenever there is a header to test
                    if isinstance(v, ast.Compare) and len(v.ops) == 1 and isinstance(v.ops[0], ast.Is) and isinstance(v.left, ast.Name) and v.left.id == hv and \
                            isinstance(v.comparators[0], ast.Constant) and v.comparators[0].value is None:
                        return True
                    return isinstance(v, ast.UnaryOp) and isinstance(v.op, ast.Not) and isinstance(v.operand, ast.Name) and v.operand.id == hv
                if isinstance(t.op, ast.Or):
                    parts = [([] if (p_ is None and _never(v)) else p_) for p_, v in zip(parts, t.values)]
                parts = [p_ for p_, v in zip(parts, t.values) if not (p_ is None and _always(v))]
                if any(p_ is None for p_ in parts) or not parts:
                    return None
            if isinstance(t.op, ast.And):
                out = [Box(CLASSES4)]
                for p_ in parts:
                    out = region_meet(out, p_)
                return out
            return [b for p_ in parts for b in p_]
        if isinstance(t, ast.UnaryOp) and isinstance(t.op, ast.Not):
            r = self._region_of(t.operand, st, hv)
            return None if r is None else region_not(r)
        if isinstance(t, ast.Call):
            inl = self._inline_predicate(t, st)
            if len(inl) == 1 and inl[0] is t:
                return None
            out = [Box(CLASSES4)]
            for x in inl:
                r = self._region_of(x, st, hv)
                if r is None:
                    return None
                out = region_meet(out, r)
            return out
        if isinstance(t, ast.Compare) and len(t.ops) == 1:
            lt = norm(t.left)
            op = t.ops[0]
            if not (lt.startswith(hv + ".") or lt == hv):
                return None
            try:
                v = self.folder.fold(t.comparators[0], st["fi"].module, st.get("consts"), st["cls"])
            except Unfoldable:
                return None
            # h.tag[:2] == (CLASS, NUMBER): class and number compared as one pair
            if isinstance(t.left, ast.Subscript) and isinstance(t.left.slice, ast.Slice) and t.left.slice.lower is None and const_int_(t.left.slice.upper) == 2 and \
                    norm(t.left.value) in (hv + ".tag",) and isinstance(v, tuple) and len(v) == 2 and isinstance(v[0], EnumConst) and isinstance(op, (ast.Eq, ast.NotEq)):
                num = v[1].value if isinstance(v[1], EnumConst) else v[1]
                if not isinstance(num, int):
                    return None
                box = Box({v[0].member}, {num})
                return [box] if isinstance(op, ast.Eq) else region_not([box])
            # h.tag == <a whole tag>: class, number (and form) compared at once
            if lt == hv + ".tag" and isinstance(v, TagConst) and isinstance(op, (ast.Eq, ast.NotEq)):
                box = Box({v.cls_name}, {v.num})
                return [box] if isinstance(op, ast.Eq) else region_not([box])
            if isinstance(v, dict) and isinstance(op, (ast.In, ast.NotIn)):
                v = tuple(v.keys())          # membership in a table: its keys
            vals = list(v) if isinstance(v, (tuple, list, set, frozenset)) else [v]
            if any(isinstance(x, (dict, list, set)) for x in vals):
                return None
            if lt.endswith(".tag_class"):
                names = {x.member for x in vals if isinstance(x, EnumConst)}
                if len(names) != len(vals):
                    return None
                if isinstance(op, (ast.Eq, ast.In)):
                    return [Box(names)]
                if isinstance(op, (ast.NotEq, ast.NotIn)):
                    return [Box(CLASSES4 - names)]
                return None
            if lt.endswith(".tag_number"):
                nums = {x.value if isinstance(x, EnumConst) else x for x in vals}
                if not all(isinstance(x, int) for x in nums):
                    return None
                if isinstance(op, (ast.Eq, ast.In)):
                    return [Box(CLASSES4, nums)]
                if isinstance(op, (ast.NotEq, ast.NotIn)):
                    return [Box(CLASSES4, None, nums)]
                return None
        return None

    @staticmethod
    def _only_skip(body: List[ast.stmt]) -> bool:
        rest = [b for b in body if not isinstance(b, (ast.Continue, ast.Pass))]
        return len(rest) == 1 and isinstance(rest[0], ast.Expr) and isinstance(rest[0].value, ast.Call) and isinstance(rest[0].value.func, ast.Attribute) and rest[0].value.func.attr == "skip_value"

    def _dispatch_chain(self, s: ast.If, st, optset: RNode, hv: str, within: Optional[List[Box]] = None) -> bool:
        """An if/elif/else chain of arbitrary tag tests on header hv inside a dispatch loop, decided with a small set algebra
        over (class, number): each branch gets the identifiers that reach it.  False = not such a chain (nothing emitted)."""
        chain: List[Tuple[Optional[ast.expr], List[ast.stmt]]] = []
        cur: Optional[ast.If] = s
        while cur is not None:
            chain.append((cur.test, cur.body))
            if len(cur.orelse) == 1 and isinstance(cur.orelse[0], ast.If):
                cur = cur.orelse[0]
            else:
                if cur.orelse:
                    chain.append((None, cur.orelse))
                cur = None
        regions = []
        remaining = within if within is not None else [Box(CLASSES4)]
        for test, body in chain:
            if test is None:
                regions.append((remaining, body))
                break
            r = self._region_of(test, st, hv)
            if r is None:
                return False
            regions.append((region_meet(remaining, r), body))
            remaining = region_meet(remaining, region_not(r))
        plan = []
        for reg, body in regions:
            if self._only_skip(body):
                plan.append(("skip", None, body, reg))
                continue
            specs = []
            for b in reg:
                if len(b.classes) != 1:
                    return False
                cn = next(iter(b.classes))
                if b.nums_in is not None:
                    specs += [TagSpec("header", None, cn, n) for n in sorted(b.nums_in)]
                elif not b.nums_notin:
                    specs.append(TagSpec("header", None, cn, None))
                else:
                    return False
            if not specs and not reg:
                continue            # unreachable branch
            plan.append(("alt", specs, body, reg))
        for kind, specs, body, *rest_ in plan:
            if kind == "skip":
                optset.skip_unknown = True
                continue
            if len(specs) > 1:
                # several identifiers reach this branch and all it does is dispatch again on the same header (after naming
                # parts of it): the inner chain is decided within this branch's region
                pre = [b for b in body if isinstance(b, ast.Assign) and len(b.targets) == 1 and isinstance(b.targets[0], ast.Name)
                       and not any(isinstance(x, (ast.Call, ast.Lambda, ast.Await, ast.NamedExpr)) for x in ast.walk(b.value))]
                others = [b for b in body if b not in pre]
                if len(others) == 1 and isinstance(others[0], ast.If) and all(body.index(b) < body.index(others[0]) for b in pre):
                    saved_al = dict(st.get("aliases") or {})
                    if all(self._note_alias(b.targets[0].id, b.value, st) for b in pre) and self._dispatch_chain(others[0], st, optset, hv, within=rest_[0]):
                        continue
                    st["aliases"] = saved_al
            inner_ifs = [b for b in body if isinstance(b, ast.If)]
            for sp in specs:
                self._alt(body, sp, st, optset, hv)
        return True

    def _subst_aliases(self, t: ast.expr, st) -> ast.expr:
        """Locals that merely name a part of a peeked header (`tag = header.tag`, `is_ctx = tag.tag_class == ...`) are
        replaced by what they stand for, so that a test reads the same with or without the intermediate local."""
        al = st.get("aliases") or {}
        if not al or not any(isinstance(x, ast.Name) and x.id in al for x in ast.walk(t)):
            return t

        class Sub(ast.NodeTransformer):
            def visit_Name(self, n: ast.Name):
                if isinstance(n.ctx, ast.Load) and n.id in al:
                    return copy.deepcopy(al[n.id])
                return n
        out = t
        for _ in range(4):
            out = Sub().visit(copy.deepcopy(out))
            if not any(isinstance(x, ast.Name) and x.id in al for x in ast.walk(out)):
                break
        ast.fix_missing_locations(out)
        return out

    def _note_alias(self, name: str, v: ast.expr, st) -> bool:
        if any(isinstance(x, (ast.Lambda, ast.Await, ast.NamedExpr)) for x in ast.walk(v)):
            return False
        for x in ast.walk(v):
            if isinstance(x, ast.Call):
                # a call that folds to a constant (ASN1Tag.universal_tag(...), ASN1Tag(...)) is a constant
                try:
                    self.folder.fold(x, st["fi"].module, st.get("consts"), st["cls"])
                except Unfoldable:
                    return False
        names = {x.id for x in ast.walk(v) if isinstance(x, ast.Name)}
        roots = set(st["headers"]) | set(st.get("aliases") or {})
        if not names or not (names & roots):
            return False
        st.setdefault("aliases", {})[name] = v
        return True

    def _header_helper(self, name: str, call: ast.Call, st) -> bool:
        """`h = helper(reader, ...)` where the helper peeks at the next header of the reader and returns it, or None unless the
        header passes tag tests: h becomes a header local whose presence (`h is not None` / `if h:`) stands for those tests."""
        if not isinstance(call.func, ast.Name):
            return False
        rargs = [(i, a.id) for i, a in enumerate(call.args) if isinstance(a, ast.Name) and a.id in st["readers"]]
        if len(rargs) != 1:
            return False
        q = self.m.resolve_name(st["fi"].module, call.func.id)
        hf = self.m.functions.get(q) if q else None
        if hf is None or hf.cls is not None or isinstance(hf.node, ast.Lambda):
            return False
        ps = hf.params()
        if rargs[0][0] >= len(ps):
            return False
        rparam = ps[rargs[0][0]]
        body = [b for b in hf.node.body if not (isinstance(b, ast.Expr) and isinstance(b.value, ast.Constant))]
        hvar = None
        conds: List[ast.expr] = []          # conditions under which the helper returns None after the peek
        for b in body:
            if isinstance(b, ast.Assign) and len(b.targets) == 1 and isinstance(b.targets[0], ast.Name) and isinstance(b.value, ast.Call) and \
                    isinstance(b.value.func, ast.Attribute) and b.value.func.attr == "peek_header" and norm(b.value.func.value) == rparam:
                if hvar is not None:
                    return False
                hvar = b.targets[0].id
            elif isinstance(b, ast.If) and not b.orelse and len(b.body) == 1 and isinstance(b.body[0], ast.Return) and \
                    (b.body[0].value is None or (isinstance(b.body[0].value, ast.Constant) and b.body[0].value.value is None)):
                if hvar is None:
                    # before the peek: only `if not reader: return None`
                    if not (isinstance(b.test, ast.UnaryOp) and isinstance(b.test.op, ast.Not) and norm(b.test.operand) == rparam):
                        return False
                else:
                    conds.append(b.test)
            elif isinstance(b, ast.Return) and hvar is not None and isinstance(b.value, ast.Name) and b.value.id == hvar and b is body[-1]:
                pass
            elif isinstance(b, ast.Return) and hvar is not None and isinstance(b.value, ast.IfExp) and b is body[-1] and isinstance(b.value.body, ast.Name) and b.value.body.id == hvar \
                    and isinstance(b.value.orelse, ast.Constant) and b.value.orelse.value is None:
                conds.append(ast.UnaryOp(op=ast.Not(), operand=b.value.test))
            else:
                return False
        if hvar is None or not body or not isinstance(body[-1], ast.Return):
            return False
        # the header is returned exactly when no rejecting condition holds: negate and flatten into a conjunction of equalities
        lits: List[ast.expr] = []

        def neg(e: ast.expr) -> bool:
            if isinstance(e, ast.BoolOp) and isinstance(e.op, ast.Or):
                return all(neg(v) for v in e.values)
            if isinstance(e, ast.UnaryOp) and isinstance(e.op, ast.Not):
                return pos(e.operand)
            if isinstance(e, ast.Compare) and len(e.ops) == 1 and isinstance(e.ops[0], ast.NotEq):
                lits.append(ast.Compare(left=e.left, ops=[ast.Eq()], comparators=e.comparators))
                return True
            return False

        def pos(e: ast.expr) -> bool:
            if isinstance(e, ast.BoolOp) and isinstance(e.op, ast.And):
                return all(pos(v) for v in e.values)
            if isinstance(e, ast.Compare) and len(e.ops) == 1 and isinstance(e.ops[0], ast.Eq):
                lits.append(e)
                return True
            return False
        if not all(neg(c) for c in conds) or not lits:
            return False
        # substitute the helper's parameters by the call's arguments and its header local by `name`
        sub: Dict[str, ast.expr] = {hvar: ast.Name(id=name, ctx=ast.Load())}
        for i, a in enumerate(call.args):
            if i < len(ps):
                sub[ps[i]] = a
        for k in call.keywords:
            if k.arg in ps:
                sub[k.arg] = k.value

        class Sub(ast.NodeTransformer):
            def visit_Name(self, n: ast.Name):
                if isinstance(n.ctx, ast.Load) and n.id in sub:
                    return copy.deepcopy(sub[n.id])
                return n
        test = ast.BoolOp(op=ast.And(), values=[Sub().visit(copy.deepcopy(x)) for x in lits]) if len(lits) > 1 else Sub().visit(copy.deepcopy(lits[0]))
        ast.fix_missing_locations(ast.copy_location(test, call))
        for x in ast.walk(test):
            if not hasattr(x, "lineno"):
                ast.copy_location(x, call)
        st["headers"].setdefault(name, None)
        st.setdefault("peek_of", {})[name] = rargs[0][1]
        st.setdefault("opt_headers", {})[name] = test
        return True

    def _opt_header_test(self, t: ast.expr, st) -> Optional[ast.expr]:
        """`h is not None` / `h` for a header local produced by a header helper -> the tag tests it stands for."""
        oh = st.get("opt_headers") or {}
        if isinstance(t, ast.Name) and t.id in oh:
            return oh[t.id]
        if isinstance(t, ast.Compare) and len(t.ops) == 1 and isinstance(t.ops[0], ast.IsNot) and isinstance(t.left, ast.Name) and t.left.id in oh \
                and isinstance(t.comparators[0], ast.Constant) and t.comparators[0].value is None:
            return oh[t.left.id]
        return None

    def _inline_predicate(self, c: ast.expr, st, depth: int = 0) -> List[ast.expr]:
        """A call to a module-level predicate helper (straight-line aliases + one `return <bool expr>`) is replaced by its
        returned expression with the arguments substituted, so that a tag test moved into a helper reads the same."""
        if not (isinstance(c, ast.Call) and isinstance(c.func, ast.Name)) or depth > 3:
            return [c]
        q = self.m.resolve_name(st["fi"].module, c.func.id)
        hf = self.m.functions.get(q) if q else None
        if hf is None or hf.cls is not None or isinstance(hf.node, ast.Lambda):
            return [c]
        body = [b for b in hf.node.body if not (isinstance(b, ast.Expr) and isinstance(b.value, ast.Constant))]
        if not body or not isinstance(body[-1], ast.Return) or body[-1].value is None:
            return [c]
        params = hf.params()
        sub: Dict[str, ast.expr] = {}
        for p_, a in zip(params, c.args):
            sub[p_] = a
        for k in c.keywords:
            if k.arg in params:
                sub[k.arg] = k.value
        if set(params) - set(sub):
            return [c]

        class Sub(ast.NodeTransformer):
            def visit_Name(self, n: ast.Name):
                if isinstance(n.ctx, ast.Load) and n.id in sub:
                    return copy.deepcopy(sub[n.id])
                return n
        guards: List[ast.expr] = []
        for b in body[:-1]:
            if isinstance(b, ast.Assign) and len(b.targets) == 1 and isinstance(b.targets[0], ast.Name):
                sub[b.targets[0].id] = Sub().visit(copy.deepcopy(b.value))
            elif isinstance(b, ast.If) and not b.orelse and len(b.body) == 1 and isinstance(b.body[0], ast.Return) and \
                    isinstance(b.body[0].value, ast.Constant) and b.body[0].value.value is False:
                # `if G: return False` before the final return: the predicate holds only when G does not
                g = Sub().visit(copy.deepcopy(b.test))
                if isinstance(g, ast.UnaryOp) and isinstance(g.op, ast.Not):
                    guards.append(g.operand)
                elif isinstance(g, ast.Compare) and len(g.ops) == 1 and isinstance(g.ops[0], ast.Is) and isinstance(g.comparators[0], ast.Constant) and g.comparators[0].value is None:
                    guards.append(ast.Compare(left=g.left, ops=[ast.IsNot()], comparators=g.comparators))
                else:
                    guards.append(ast.UnaryOp(op=ast.Not(), operand=g))
            else:
                return [c]
        e = Sub().visit(copy.deepcopy(body[-1].value))
        if guards:
            e = ast.BoolOp(op=ast.And(), values=guards + (e.values if isinstance(e, ast.BoolOp) and isinstance(e.op, ast.And) else [e]))
            ast.copy_location(e, c)
        ast.fix_missing_locations(e)
        parts = e.values if isinstance(e, ast.BoolOp) and isinstance(e.op, ast.And) else [e]
        return [x for p_ in parts for x in self._inline_predicate(p_, st, depth + 1)]

    def _read_call(self, e: ast.expr, st) -> Optional[Tuple[str, str, ast.Call, str]]:
        """(reader var, method, call, conv) for  R.read_x(...)[.decode(enc)]"""
        conv = "identity"
        cur = e
        if isinstance(cur, ast.Call) and isinstance(cur.func, ast.Attribute) and cur.func.attr == "decode":
            conv = enc_conv(cur, st["fi"].node)
            cur = cur.func.value
        if isinstance(cur, ast.Call) and isinstance(cur.func, ast.Attribute) and isinstance(cur.func.value, ast.Name) and cur.func.value.id in st["readers"] and \
                (cur.func.attr in READ_KINDS or cur.func.attr in READ_CONS):
            return cur.func.value.id, cur.func.attr, cur, conv
        return None

    def _spec(self, call: ast.Call, meth: str, st, ctx_spec: Optional[TagSpec]) -> TagSpec:
        tag_e = None
        hdr_e = None
        # positional: read_x(tag, header, hint) ; read_enumerated(enum_type, tag, header, hint)
        pos = list(call.args)
        if meth == "read_enumerated":
            pos = pos[1:]
        if pos:
            tag_e = pos[0]
        if len(pos) > 1:
            hdr_e = pos[1]
        for k in call.keywords:
            if k.arg == "tag":
                tag_e = k.value
            elif k.arg == "header":
                hdr_e = k.value
        if tag_e is not None and not (isinstance(tag_e, ast.Constant) and tag_e.value is None):
            try:
                v = self.folder.fold(tag_e, st["fi"].module, st.get("consts"), st["cls"])
            except Unfoldable as ex:
                raise AnalysisError(f"{st['fi'].qualname}:{call.lineno}: reader tag `{norm(tag_e)}` does not fold ({ex})")
            if v is not None and not isinstance(v, TagConst):
                raise AnalysisError(f"{st['fi'].qualname}:{call.lineno}: reader tag folds to {v!r}")
            if v is not None:
                return TagSpec("explicit", v)
        if hdr_e is not None and not (isinstance(hdr_e, ast.Constant) and hdr_e.value is None):
            hv = norm(hdr_e)
            sp = st["headers"].get(hv)
            if ctx_spec is not None:
                return ctx_spec
            if sp is not None:
                return sp
            return TagSpec("header", None, None, None)
        return TagSpec("default", self.default_tags[meth])

    def _emit_read(self, target: Optional[str], e: ast.expr, st, ctx_spec: Optional[TagSpec] = None, appended_to: str = "") -> Optional[RNode]:
        rc = self._read_call(e, st)
        if rc is None:
            return None
        rv, meth, call, conv = rc
        spec = self._spec(call, meth, st, ctx_spec)
        fi = st["fi"]
        if meth in READ_CONS:
            node = RNode("cons", READ_CONS[meth], spec, var=target or "", line=call.lineno, func=fi.qualname)
            st["emitted"].append(node)
            st["readers"][rv].append(node)
            if target:
                st["readers"][target] = node.children
            return node
        node = RNode("prim", READ_KINDS[meth], spec, var=target or "", conv=conv, line=call.lineno, func=fi.qualname, appended_to=appended_to)
        node.modes = call_modes(self.m, f"{ASN1}.ASN1Reader", meth, call, ("tag", "header", "hint", "enum_type"), 0)
        if meth == "read_enumerated" and call.args:
            q = self.m.resolve_name(fi.module, norm(call.args[0]))
            node.enum_cls = q or norm(call.args[0])
        st["emitted"].append(node)
        st["readers"][rv].append(node)
        return node

    # ------------------------------------------------------------------ statements
    def _block(self, stmts: List[ast.stmt], st) -> None:
        for s in stmts:
            self._stmt(s, st)

    def _stmt(self, s: ast.stmt, st) -> None:
        fi: FuncInfo = st["fi"]
        res: ReaderResult = st["res"]
        if isinstance(s, (ast.Expr, ast.Assign, ast.Return, ast.AnnAssign)):
            # `helper(R.read_sequence(...), ...)`: a sub-reader made in the argument list of another call is first given a name
            # (`_sub = R.read_sequence(...)` then `helper(_sub, ...)`), which is the form the rest of the walk follows
            hoists: List[ast.stmt] = []
            if any(isinstance(a, ast.Call) and self._read_call(a, st) is not None and self._read_call(a, st)[1] in READ_CONS
                   for x in ast.walk(s) if isinstance(x, ast.Call) and self._read_call(x, st) is None for a in list(x.args) + [k.value for k in x.keywords]):
                s = copy.deepcopy(s)        # the shared tree is never edited
            for c in [x for x in ast.walk(s) if isinstance(x, ast.Call)]:
                if self._read_call(c, st) is not None:
                    continue
                for i, a in enumerate(list(c.args)):
                    rc = self._read_call(a, st) if isinstance(a, ast.Call) else None
                    if rc is not None and rc[1] in READ_CONS and rc[2] is a:
                        nm = f"_sub{a.lineno}_{a.col_offset}"
                        hoists.append(ast.copy_location(ast.Assign(targets=[ast.Name(id=nm, ctx=ast.Store())], value=a), s))
                        c.args[i] = ast.copy_location(ast.Name(id=nm, ctx=ast.Load()), a)
                for k in c.keywords:
                    a = k.value
                    rc = self._read_call(a, st) if isinstance(a, ast.Call) else None
                    if rc is not None and rc[1] in READ_CONS and rc[2] is a:
                        nm = f"_sub{a.lineno}_{a.col_offset}"
                        hoists.append(ast.copy_location(ast.Assign(targets=[ast.Name(id=nm, ctx=ast.Store())], value=a), s))
                        k.value = ast.copy_location(ast.Name(id=nm, ctx=ast.Load()), a)
            for h in hoists:
                ast.fix_missing_locations(h)
                self._stmt(h, st)
        if isinstance(s, ast.With) and all(isinstance(it.optional_vars, ast.Name) and isinstance(it.context_expr, ast.Call) and self._read_call(it.context_expr, st) is not None
                                           for it in s.items):
            rd = self.m.classes.get(f"{ASN1}.ASN1Reader")
            ent = rd.methods.get("__enter__") if rd is not None else None
            rets = [r_ for r_ in ast.walk(ent.node) if isinstance(r_, ast.Return)] if ent is not None and not isinstance(ent.node, ast.Lambda) else []
            if ent is not None and len(rets) == 1 and isinstance(rets[0].value, ast.Name) and rets[0].value.id == "self":
                # `with R.read_sequence(...) as sub:` with a reader whose __enter__ hands back the reader itself: `sub = R.read_sequence(...)`
                # followed by the block (what __exit__ does when the block is left is judged by the rules on the reader class)
                for it in s.items:
                    asg = ast.copy_location(ast.Assign(targets=[ast.Name(id=it.optional_vars.id, ctx=ast.Store())], value=it.context_expr), s)
                    ast.fix_missing_locations(asg)
                    self._stmt(asg, st)
                self._block(s.body, st)
                return
        if isinstance(s, ast.AugAssign) and isinstance(s.op, ast.Add) and isinstance(s.target, ast.Name) and isinstance(s.value, ast.Call):
            s = ast.copy_location(ast.Expr(value=ast.Call(func=ast.Attribute(value=s.target, attr="extend", ctx=ast.Load()), args=[s.value], keywords=[])), s)
            ast.fix_missing_locations(s)
        if isinstance(s, ast.Expr):
            v = s.value
            if isinstance(v, ast.Call) and isinstance(v.func, ast.Attribute) and v.func.attr == "extend" and isinstance(v.func.value, ast.Name) and len(v.args) == 1 and isinstance(v.args[0], ast.Name):
                # lst.extend(other_list): what was appended to other_list ends up in lst
                res.appended[v.args[0].id] = v.func.value.id
                return
            if isinstance(v, ast.Call) and isinstance(v.func, ast.Attribute) and v.func.attr == "extend" and isinstance(v.func.value, ast.Name) and len(v.args) == 1 and isinstance(v.args[0], ast.Call):
                # lst.extend(helper(reader, ...)): the helper is inlined; what it returns lands in lst
                lst = v.func.value.id
                name = f"<extend:{lst}:{s.lineno}>"
                self._nested(name, v.args[0], st)
                res.appended[name] = lst
                return
            if isinstance(v, ast.Call) and isinstance(v.func, ast.Attribute) and v.func.attr == "append" and isinstance(v.func.value, ast.Name) and v.args:
                lst = v.func.value.id
                a = v.args[0]
                # append of a fresh read, or of a previously read local
                n = self._emit_read(None, a, st, appended_to=lst)
                if n is None and isinstance(a, ast.Call) and any(isinstance(x, ast.Name) and x.id in st["readers"] for x in a.args):
                    # lst.append(helper(reader, ...)) / lst.append(Cls.unpack(reader, ...))
                    name = f"<append:{lst}:{s.lineno}>"
                    before = len(st["emitted"])
                    self._nested(name, a, st)
                    hit = False
                    for nd in st["emitted"][before:]:
                        if nd.var == name:
                            nd.var = ""
                            nd.appended_to = lst
                            hit = True
                    if not hit:
                        res.appended[name] = lst
                    return
                if n is None:
                    inner = a
                    conv = None
                    if isinstance(inner, ast.Call) and isinstance(inner.func, ast.Attribute) and inner.func.attr == "decode":
                        conv = enc_conv(inner, fi.node)
                        inner = inner.func.value
                    if isinstance(inner, ast.Name):
                        res.appended[inner.id] = lst
                        for nodes in reversed(st["emitted"]):
                            if nodes.var == inner.id and nodes.func == fi.qualname and nodes.kind in ("prim", "ref", "cons"):
                                il = getattr(nodes, "in_loop", None)
                                if il is not None and il not in st.get("loopstack", []):
                                    # read inside a loop, appended once the loop is over: only the last element is kept
                                    res.late_appends = getattr(res, "late_appends", []) + [(s.lineno, inner.id, lst)]
                                nodes.appended_to = lst
                                if conv:
                                    nodes.conv = conv
                                break
            return
        if isinstance(s, (ast.Assign, ast.AnnAssign)):
            tg = s.targets[0] if isinstance(s, ast.Assign) else s.target
            v = s.value
            if v is None:
                return
            if isinstance(tg, ast.Name):
                name = tg.id
                # a local constant (a tag, a choice number, an encoding name ...): later folds may use it
                if not any(isinstance(x, ast.Name) and (x.id in st["readers"] or x.id in st["headers"]) for x in ast.walk(v)):
                    try:
                        cv = self.folder.fold(v, fi.module, st.get("consts"), st["cls"])
                        st.setdefault("consts", {})[name] = cv
                    except Unfoldable:
                        (st.get("consts") or {}).pop(name, None)
                # peek_header
                if isinstance(v, ast.Call) and isinstance(v.func, ast.Attribute) and v.func.attr == "peek_header":
                    st["headers"].setdefault(name, None)
                    st.setdefault("peek_of", {})[name] = norm(v.func.value)
                    return
                if isinstance(v, ast.Call) and self._header_helper(name, v, st):
                    return
                n = self._emit_read(name, v, st)
                if n is not None:
                    return
                if isinstance(v, ast.Call) and self.m.resolve_name(fi.module, norm(v.func)) == f"{ASN1}.ASN1Reader" and v.args:
                    node = RNode("encaps", var=name, line=s.lineno, func=fi.qualname)
                    src = v.args[0]
                    if isinstance(src, ast.BoolOp):
                        src = src.values[0]
                    node.nt = norm(src)
                    res.nodes.append(node)
                    st["readers"][name] = node.children
                    res.encaps_of[name] = norm(src)
                    return
                # x = y.decode(enc)
                if isinstance(v, ast.Call) and isinstance(v.func, ast.Attribute) and v.func.attr == "decode" and isinstance(v.func.value, ast.Name):
                    res.conv_of_var[name] = enc_conv(v, fi.node)
                    st["values"][name] = v.func.value.id
                    # the raw local only exists to be decoded: the value read lives on under the new name
                    src_name = v.func.value.id
                    if src_name != name:
                        for nd in reversed(st["emitted"]):
                            if nd.var == src_name and nd.func == fi.qualname and nd.kind == "prim":
                                nd.var = name
                                if src_name in res.defaults and name not in res.defaults:
                                    res.defaults[name] = res.defaults[src_name]
                                break
                    return
                # x = Cls(f=a, g=b.decode(enc)): a struct local; its arguments become fields of wherever x ends up
                if isinstance(v, ast.Call) and isinstance(v.func, (ast.Name, ast.Attribute)):
                    qd = self.m.resolve_name(fi.module, norm(v.func))
                    if qd in self.m.classes and self.m.classes[qd].is_dataclass:
                        fields = [f.name for f in self.m.dataclass_fields(qd) if f.init]
                        mp: Dict[str, str] = {}
                        for fname, a in list(zip(fields, v.args)) + [(k.arg, k.value) for k in v.keywords if k.arg]:
                            inner = a
                            if isinstance(inner, ast.Call) and isinstance(inner.func, ast.Attribute) and inner.func.attr == "decode" and isinstance(inner.func.value, ast.Name):
                                res.conv_of_var[inner.func.value.id] = enc_conv(inner, fi.node)
                                inner = inner.func.value
                            if isinstance(inner, ast.Name):
                                mp[inner.id] = fname
                        res.structs[name] = mp
                        return
                # nested unpack calls
                if isinstance(v, ast.Call):
                    self._nested(name, v, st)
                    if name in st["values"] or any(nd.var == name for nd in self._all_nodes(res.nodes)):
                        return
                if self._note_alias(name, v, st):
                    return
                if isinstance(v, ast.Name) and v.id != name and (any(nd.var == v.id or nd.appended_to == v.id for nd in st["emitted"]) or v.id in res.appended or v.id in res.appended.values()):
                    # x = y where y holds a value that was read (or a list of them): x is another name for it
                    res.appended[v.id] = name
                    if v.id in res.conv_of_var and name not in res.conv_of_var:
                        res.conv_of_var[name] = res.conv_of_var[v.id]
                    if v.id in res.defaults and name not in res.defaults:
                        res.defaults[name] = res.defaults[v.id]
                    return
                (st.get("aliases") or {}).pop(name, None)
                if name not in res.defaults:
                    res.defaults[name] = v
                return
            if isinstance(tg, ast.Tuple) and isinstance(v, ast.Call):
                self._nested_tuple(tg, v, st)
            return
        if isinstance(s, ast.While):
            self._while(s, st)
            return
        if isinstance(s, ast.If):
            self._if(s, st, None)
            return
        if isinstance(s, ast.For):
            # choice dispatch loops are summarised by the dispatch rule; nothing to extract - unless the loop draws its items from
            # something that consumes a reader (a generator helper): that shape is not modelled and must not be read as "no reads"
            if any(isinstance(x, ast.Name) and x.id in st["readers"] for x in ast.walk(s.iter)):
                raise AnalysisError(f"{fi.qualname}:{s.lineno}: a reader is consumed through an iterator (`for ... in {norm(s.iter)[:50]}`): not modelled")
            return
        if isinstance(s, ast.Return):
            res.returns.append(s)
            v = s.value
            if isinstance(v, ast.Call):
                q = self.m.resolve_name(fi.module, norm(v.func)) if isinstance(v.func, (ast.Name, ast.Attribute)) else None
                if q in self.m.classes and self.m.classes[q].is_dataclass:
                    res.cls = q
                    fields = [f.name for f in self.m.dataclass_fields(q) if f.init]
                    pairs = list(zip(fields, v.args)) + [(k.arg, k.value) for k in v.keywords if k.arg]
                    for fname, a in pairs:
                        inner = a
                        if isinstance(inner, ast.Call) and isinstance(inner.func, ast.Attribute) and inner.func.attr == "decode":
                            conv = enc_conv(inner, fi.node)
                            inner = inner.func.value
                            if isinstance(inner, ast.Name):
                                res.conv_of_var[inner.id] = conv
                        if isinstance(inner, ast.Name):
                            res.field_of_var[inner.id] = fname
                        elif isinstance(inner, ast.Call) and any(isinstance(x, ast.Name) and x.id in st["readers"] for x in inner.args):
                            # Cls(field=helper(reader, ...)): the helper is inlined as if bound to a local first
                            nm = f"<arg:{fname}>"
                            self._nested(nm, inner, st)
                            res.field_of_var[nm] = fname
                        else:
                            res.field_of_var[f"<expr:{norm(a)[:40]}>"] = fname
                elif q in self.m.functions and any(isinstance(a, ast.Name) and a.id in st["readers"] for a in v.args):
                    self._nested("<return>", v, st)
                    sub = res.inlines.get("<return>")
                    if sub is not None:
                        res.cls = sub.cls
                        res.field_of_var["<return>"] = ""
            elif isinstance(v, ast.Name):
                res.cls = res.cls or "<value>"
                res.field_of_var[v.id] = "<self>"
            elif isinstance(v, ast.Tuple):
                res.cls = "<tuple>"
                for i, e in enumerate(v.elts):
                    if isinstance(e, ast.Name):
                        res.field_of_var[e.id] = f"#{i}"
                    elif self._read_call(e, st) is not None:
                        nm = f"ret{i}_{s.lineno}"
                        self._emit_read(nm, e, st)
                        res.field_of_var[nm] = f"#{i}"
            return
        if isinstance(s, (ast.Raise, ast.Pass, ast.Continue, ast.Break)):
            return
        if isinstance(s, ast.Assert) and not any(isinstance(x, ast.Call) for x in ast.walk(s.test)):
            return              # what it raises is the may-raise analysis' business; it reads nothing
        if isinstance(s, ast.Try):
            self._block(s.body, st)
            return
        if isinstance(s, ast.AugAssign) and not any(isinstance(x, ast.Name) and (x.id in st["readers"] or x.id in st["headers"]) for x in ast.walk(s)) and \
                not any(isinstance(x, ast.Call) for x in ast.walk(s.value)):
            # a counter stepped next to the reads (a nesting level, a running total): no part of the grammar
            return
        raise AnalysisError(f"{fi.qualname}:{s.lineno}: unsupported statement {type(s).__name__} in a reader")

    def _all_nodes(self, nodes: List[RNode]):
        for n in nodes:
            yield n
            yield from self._all_nodes(n.children)
            for _, cs in n.alts:
                yield from self._all_nodes(cs)

    def _nested(self, name: str, call: ast.Call, st) -> None:
        fi: FuncInfo = st["fi"]
        # <Base>.unpack(reader, options) -> nonterminal; helper(reader, ...) -> inline
        rargs = [a for a in call.args if isinstance(a, ast.Name) and a.id in st["readers"]]
        if not rargs:
            return
        rv = rargs[0].id
        f = call.func
        q = self.m.resolve_name(fi.module, norm(f)) if isinstance(f, (ast.Name, ast.Attribute)) else None
        if q in self.m.functions:
            callee = self.m.functions[q]
            if callee.cls is not None and callee.name == "unpack":
                nd = RNode("ref", nt=callee.cls, var=name, line=call.lineno, func=fi.qualname)
                st["emitted"].append(nd)
                st["readers"][rv].append(nd)
                return
            if callee.name == "unpack_ldap_control":
                nd = RNode("ref", nt="sansldap._controls.LDAPControl", var=name, line=call.lineno, func=fi.qualname)
                st["emitted"].append(nd)
                st["readers"][rv].append(nd)
                return
            # inline a helper reader: its nodes go where the argument reader points
            sub = ReaderExtractor.__new__(ReaderExtractor)
            sub.__dict__ = self.__dict__
            params = callee.params()
            idx = [i for i, a in enumerate(call.args) if isinstance(a, ast.Name) and a.id == rv][0]
            res2 = ReaderResult(callee.qualname, [], "", {}, {}, {})
            st2 = {"readers": {params[idx]: st["readers"][rv]}, "headers": {}, "res": res2, "fi": callee, "cls": st["cls"], "lists": {}, "values": {}, "emitted": st["emitted"]}
            consts: Dict[str, Any] = {}
            for p_, a in [(params[i], a) for i, a in enumerate(call.args) if i < len(params)] + [(k.arg, k.value) for k in call.keywords if k.arg in params]:
                if isinstance(a, ast.Name) and a.id in st["readers"]:
                    continue
                try:
                    consts[p_] = self.folder.fold(a, fi.module, st.get("consts"), st["cls"])
                except Unfoldable:
                    pass
            st2["consts"] = consts
            # constant arguments (e.g. the class object for cls.filter_id) are visible through folding with self_cls
            self._block(normalise_guards(list(callee.node.body)), st2)
            node = RNode("inline", var=name, line=call.lineno, func=fi.qualname)
            node.nt = callee.qualname
            node.sub = res2
            st["res"].nodes  # keep
            st.setdefault("inlines", {})[name] = res2
            st["res"].inlines[name] = res2
            st["values"][name] = f"<inline {callee.name}>"
            return
        # unpack_func(protocol_reader, ...) -> protocolOp dispatch
        if isinstance(f, ast.Name):
            st["readers"][rv].append(RNode("ref", nt="<dispatch:" + f.id + ">", var=name, line=call.lineno, func=fi.qualname))

    def _nested_tuple(self, tg: ast.Tuple, call: ast.Call, st) -> None:
        self._nested("<tuple>", call, st)
        sub = st.get("inlines", {}).get("<tuple>")
        if sub is not None:
            # map returned tuple components to the target names
            for v, fld in sub.field_of_var.items():
                if fld.startswith("#"):
                    i = int(fld[1:])
                    if i < len(tg.elts) and isinstance(tg.elts[i], ast.Name):
                        for nd in st["emitted"]:
                            if nd.var == v and nd.func == sub.func:
                                nd.var = tg.elts[i].id
                                nd.func = st["fi"].qualname
                            elif nd.appended_to == v and nd.func == sub.func:
                                nd.appended_to = tg.elts[i].id
                                nd.func = st["fi"].qualname
                        if v in sub.conv_of_var:
                            st["res"].conv_of_var[tg.elts[i].id] = sub.conv_of_var[v]
                        if v in sub.defaults and tg.elts[i].id not in st["res"].defaults:
                            st["res"].defaults[tg.elts[i].id] = sub.defaults[v]

    def _while(self, s: ast.While, st) -> None:
        start_ = len(st["emitted"])
        st.setdefault("loopstack", []).append(id(s))
        try:
            self._while_inner(s, st)
        finally:
            st["loopstack"].pop()
            for nd in st["emitted"][start_:]:
                if getattr(nd, "in_loop", None) is None:
                    nd.in_loop = id(s)

    def _while_inner(self, s: ast.While, st) -> None:
        fi: FuncInfo = st["fi"]
        if not (isinstance(s.test, ast.Name) and s.test.id in st["readers"]):
            raise AnalysisError(f"{fi.qualname}:{s.lineno}: reader loop condition `{norm(s.test)}` is not a reader")
        rv = s.test.id
        peeks = [b for b in s.body if isinstance(b, ast.Assign) and isinstance(b.value, ast.Call) and isinstance(b.value.func, ast.Attribute) and b.value.func.attr == "peek_header"]
        target = st["readers"][rv]
        if peeks:
            hv = peeks[0].targets[0].id
            st["headers"].setdefault(hv, None)
            node = RNode("optset", loop=True, line=s.lineno, func=fi.qualname)
            target.append(node)
            body = list(s.body)

            def plain_tail(b) -> bool:
                return isinstance(b, (ast.Continue, ast.Pass)) or (isinstance(b, ast.Expr) and isinstance(b.value, ast.Call) and isinstance(b.value.func, ast.Attribute) and b.value.func.attr == "skip_value")
            for i, b in enumerate(body):
                # `if T: <...>; continue` followed by more than the usual skip: the rest of the body is the else-branch of T
                if isinstance(b, ast.If) and not b.orelse and b.body and isinstance(b.body[-1], ast.Continue) and body[i + 1:] and not all(plain_tail(x) for x in body[i + 1:]) \
                        and not any(isinstance(x, ast.Continue) for y in b.body[:-1] for x in ast.walk(y)):
                    nb = ast.If(test=b.test, body=b.body[:-1] or [ast.copy_location(ast.Pass(), b)], orelse=body[i + 1:])
                    ast.copy_location(nb, b)
                    body = body[:i] + [nb]
                    break
            # a branch that has read its component must not go on to the loop's trailing skip_value: the header it would skip by
            # is the one already consumed
            tail_skips = [i for i, b in enumerate(body) if isinstance(b, ast.Expr) and isinstance(b.value, ast.Call) and isinstance(b.value.func, ast.Attribute)
                          and b.value.func.attr == "skip_value"]
            if tail_skips:
                def falls_through(blk) -> bool:
                    """can control leave this block by falling off its end?"""
                    if not blk:
                        return True
                    last = blk[-1]
                    if isinstance(last, (ast.Continue, ast.Break, ast.Return, ast.Raise)):
                        return False
                    if isinstance(last, ast.If):
                        return falls_through(last.body) or falls_through(last.orelse)
                    return True

                def reading_blocks(blk):
                    """innermost blocks that contain a read on this reader directly"""
                    direct = [x for x in blk if not isinstance(x, (ast.If, ast.While, ast.For)) and
                              any(isinstance(c, ast.Call) and isinstance(c.func, ast.Attribute) and isinstance(c.func.value, ast.Name) and c.func.value.id == rv and
                                  c.func.attr.startswith("read") for c in ast.walk(x))]
                    if direct:
                        yield blk
                    for x in blk:
                        if isinstance(x, ast.If):
                            yield from reading_blocks(x.body)
                            yield from reading_blocks(x.orelse)
                for i, b in enumerate(body[:tail_skips[0]]):
                    if isinstance(b, ast.If):
                        for blk in list(reading_blocks(b.body)) + list(reading_blocks(b.orelse)):
                            if falls_through(blk) and falls_through([b]):
                                node.read_then_skip = getattr(node, "read_then_skip", []) + [(blk[0].lineno, norm(blk[-1])[:60])]
            for b in body:
                if b is peeks[0]:
                    continue
                if isinstance(b, ast.If):
                    self._if(b, st, node, hv, rv)
                elif isinstance(b, ast.Expr) and isinstance(b.value, ast.Call) and isinstance(b.value.func, ast.Attribute) and b.value.func.attr == "skip_value":
                    node.skip_unknown = True
                elif isinstance(b, (ast.Continue, ast.Pass)):
                    pass
                elif isinstance(b, ast.Assign) and len(b.targets) == 1 and isinstance(b.targets[0], ast.Name) and self._note_alias(b.targets[0].id, b.value, st):
                    pass
                else:
                    raise AnalysisError(f"{fi.qualname}:{b.lineno}: unsupported statement in a tag-dispatch loop")
            return
        node = RNode("rep", line=s.lineno, func=fi.qualname)
        target.append(node)
        saved = st["readers"][rv]
        st["readers"][rv] = node.children
        self._block(s.body, st)
        st["readers"][rv] = saved

    def _if(self, s: ast.If, st, optset: Optional[RNode], hv: Optional[str] = None, rv: Optional[str] = None, outer: Optional[TagSpec] = None) -> None:
        fi: FuncInfo = st["fi"]
        if optset is not None and hv is not None and outer is None:
            tests = []
            c_: Optional[ast.If] = s
            while c_ is not None:
                tests.append(c_.test)
                c_ = c_.orelse[0] if len(c_.orelse) == 1 and isinstance(c_.orelse[0], ast.If) else None
            if any(self._tagtests(t_, st) is None for t_ in tests) and self._dispatch_chain(s, st, optset, hv):
                return
        # a test on a header whose identifier is already decided (inside the branch taken for one tag): the test is decided too
        t_sub = self._subst_aliases(s.test, st)
        bound_h = [h_ for h_ in st["headers"] if isinstance(st["headers"].get(h_), TagSpec) and any(isinstance(x, ast.Name) and x.id == h_ for x in ast.walk(t_sub))]
        if len(bound_h) == 1:
            sp_ = st["headers"][bound_h[0]]
            reg_ = self._region_of(t_sub, st, bound_h[0]) if sp_.cls_name is not None and sp_.number is not None else None
            if reg_ is not None:
                here = region_meet([Box({sp_.cls_name}, {sp_.number})], reg_)
                self._block(s.body if here else s.orelse, st)
                return
        tt = self._tagtests(s.test, st)
        if tt is not None:
            h, spec = tt
            if outer is not None:
                spec = TagSpec("header", None, spec.cls_name or outer.cls_name, spec.number if spec.number is not None else outer.number)
            # nested refinement (class test outside, number tests inside)
            inner_ifs = [b for b in s.body if isinstance(b, ast.If) and self._tagtests(b.test, st) is not None]
            if inner_ifs and len(inner_ifs) == len([b for b in s.body if not isinstance(b, (ast.Continue, ast.Pass))]):
                for b in inner_ifs:
                    self._if(b, st, optset, hv, rv, spec)
            else:
                self._alt(s.body, spec, st, optset, h)
            cur = s.orelse
            while cur:
                if len(cur) == 1 and isinstance(cur[0], ast.If):
                    self._if(cur[0], st, optset, hv, rv, outer)
                    cur = []
                else:
                    if optset is not None and any(isinstance(b, ast.Expr) and isinstance(b.value, ast.Call) and isinstance(b.value.func, ast.Attribute) and b.value.func.attr == "skip_value" for b in cur):
                        optset.skip_unknown = True
                        cur = [b for b in cur if not (isinstance(b, ast.Expr) and isinstance(b.value, ast.Call) and isinstance(b.value.func, ast.Attribute) and b.value.func.attr == "skip_value")]
                    self._block(cur, st)
                    cur = []
            return
        # `if R:` guard around an optional tail
        if isinstance(s.test, ast.Name) and s.test.id in st["readers"]:
            rvar = s.test.id
            has_peek = any(isinstance(b, ast.Assign) and isinstance(b.value, ast.Call) and isinstance(b.value.func, ast.Attribute) and b.value.func.attr == "peek_header" for b in s.body)
            if has_peek:
                node = RNode("optset", loop=False, line=s.lineno, func=fi.qualname)
                st["readers"][rvar].append(node)
                for b in s.body:
                    if isinstance(b, ast.If):
                        self._if(b, st, node, None, rvar)
                    elif isinstance(b, ast.Assign) and isinstance(b.value, ast.Call) and isinstance(b.value.func, ast.Attribute) and b.value.func.attr == "peek_header":
                        st["headers"].setdefault(b.targets[0].id, None)
                        # peek refresh inside a guard (controls): plain bookkeeping
                    elif isinstance(b, ast.Assign) and len(b.targets) == 1 and isinstance(b.targets[0], ast.Name):
                        self._note_alias(b.targets[0].id, b.value, st)        # tag = next_header.tag
                if not node.alts:
                    st["readers"][rvar].remove(node)
                return
            # `if reader: ... while reader: <reads> ...`: the guard only repeats the loop's own test (nothing reads from the reader
            # outside that loop): the block is read as if the guard were not there
            loops = [b for b in s.body if isinstance(b, ast.While) and isinstance(b.test, ast.Name) and b.test.id == rvar]
            in_loops = {id(x) for w in loops for x in ast.walk(w)}
            outside = [x for b in s.body for x in ast.walk(b) if isinstance(x, ast.Call) and id(x) not in in_loops and
                       (self._read_call(x, st) is not None or any(isinstance(a, ast.Name) and a.id == rvar for a in list(x.args) + [k.value for k in x.keywords]))]
            if loops and not outside and not s.orelse:
                self._block(s.body, st)
                return
            # reads with no tag test at all
            node = RNode("unchecked", line=s.lineno, func=fi.qualname)
            saved = st["readers"][rvar]
            st["readers"][rvar] = node.children
            self._block(s.body, st)
            st["readers"][rvar] = saved
            if node.children:
                saved.append(node)
            return
        # other conditions (duplicate checks, `if not unpack_func: raise`): walk both branches for reads
        t_sub = self._subst_aliases(s.test, st)
        mentions_header = any(isinstance(x, ast.Name) and x.id in st["headers"] for x in ast.walk(t_sub))
        reads_inside = any(self._read_call(x, st) is not None for b in list(s.body) + list(s.orelse) for x in ast.walk(b) if isinstance(x, ast.Call))
        if mentions_header and reads_inside and not (isinstance(t_sub, ast.Name) or (isinstance(t_sub, ast.Compare) and isinstance(t_sub.comparators[0], ast.Constant) and t_sub.comparators[0].value is None)):
            # a condition on a peeked header that is not understood as a tag test guards a read: reading on would give the
            # component a wildcard tag - there is no grammar to report on
            raise AnalysisError(f"{fi.qualname}:{s.lineno}: test `{norm(s.test)[:70]}` on a peeked header is not understood as a tag test")
        unbound_h = sorted({k.value.id for b in list(s.body) + list(s.orelse) for x in ast.walk(b) if isinstance(x, ast.Call) and self._read_call(x, st) is not None
                            for k in x.keywords if k.arg == "header" and isinstance(k.value, ast.Name) and k.value.id in st["headers"] and st["headers"].get(k.value.id) is None})
        if unbound_h and not (isinstance(t_sub, ast.Name) and t_sub.id in st["readers"]):
            # a read that is handed a peeked header whose identifier no enclosing test has decided, under a condition that is not a tag
            # test (`tag_id == (cls, number)` on a slice of the tag, a flag computed elsewhere): the component would get a wildcard tag
            raise AnalysisError(f"{fi.qualname}:{s.lineno}: read of the peeked header `{unbound_h[0]}` under `{norm(s.test)[:60]}`, which is not understood as a tag test")
        self._block(s.body, st)
        self._block(s.orelse, st)

    def _alt(self, body: List[ast.stmt], spec: TagSpec, st, optset: Optional[RNode], hv: str) -> None:
        fi: FuncInfo = st["fi"]
        # collect the reads of this branch into a private list
        reader_vars = list(st["readers"].keys())
        saved = {k: st["readers"][k] for k in reader_vars}
        priv: Dict[str, List[RNode]] = {k: [] for k in reader_vars}
        for k in reader_vars:
            st["readers"][k] = priv[k]
        st["headers"][hv] = spec
        self._block([b for b in body if not isinstance(b, ast.Continue)], st)
        st["headers"][hv] = None
        got: List[RNode] = []
        for k in reader_vars:
            got += priv[k]
            st["readers"][k] = saved[k]
        # sub-readers created inside the branch stay registered
        if optset is not None:
            optset.alts.append((spec, got))
        else:
            # ordered optional outside a loop (controls): an optset of its own on the reader it read from
            for k in reader_vars:
                if priv[k]:
                    node = RNode("optset", loop=False, line=body[0].lineno if body else 0, func=fi.qualname)
                    node.alts.append((spec, priv[k]))
                    saved[k].append(node)
