"""Constant folder over the AST (no execution of sansldap code).

Folds module-level and class-level constants, f-strings, string concatenation,
`.encode("utf-8")`, `re.X` flags, enum members and ASN1Tag constructor calls.
Anything else raises Unfoldable.
"""
from __future__ import annotations

import ast
import re
from dataclasses import dataclass
from typing import Any, Dict, Optional

from .srcmodel import AnalysisError, Model, norm


class Unfoldable(Exception):
    pass


@dataclass(frozen=True)
class EnumConst:
    cls: str
    member: str
    value: Any

    def __repr__(self):
        return f"{self.cls.split('.')[-1]}.{self.member}"


@dataclass(frozen=True)
class TagConst:
    tag_class: Any        # EnumConst of TagClass
    number: Any           # int or EnumConst of TypeTagNumber
    constructed: bool

    @property
    def num(self) -> int:
        return self.number.value if isinstance(self.number, EnumConst) else self.number

    @property
    def cls_name(self) -> str:
        return self.tag_class.member if isinstance(self.tag_class, EnumConst) else str(self.tag_class)

    def triple(self):
        return (self.cls_name, self.num, bool(self.constructed))

    def __repr__(self):
        return f"[{self.cls_name} {self.num} {'c' if self.constructed else 'p'}]"


ASN1 = "sansldap.asn1"


class SelfRef:
    """The caller's self/cls, handed to a helper: attribute reads fold to class constants of that class."""
    def __init__(self, cls: str):
        self.cls = cls

    def __repr__(self):
        return f"<self of {self.cls}>"


class Folder:
    def __init__(self, model: Model):
        self.m = model
        self._stack = set()

    def enum_member(self, cls_q: str, member: str) -> EnumConst:
        c = self.m.classes[cls_q]
        if member not in c.consts:
            raise Unfoldable(f"{cls_q} has no member {member}")
        v = c.consts[member]
        if isinstance(v, ast.Call) and norm(v.func).endswith("auto"):
            # enum.auto(): one more than the value of the member before it (1 for the first), unless the class says otherwise
            if "_generate_next_value_" in c.methods or any("_generate_next_value_" in self.m.classes[b].methods for b in c.mro if b in self.m.classes):
                raise Unfoldable(f"{cls_q}.{member}: auto() under a custom _generate_next_value_")
            last = 0
            val = None
            for k, kv in c.consts.items():
                if k.startswith("_"):
                    continue
                if isinstance(kv, ast.Call) and norm(kv.func).endswith("auto"):
                    cur = last + 1
                else:
                    cur = self.fold(kv, c.module)
                    if isinstance(cur, tuple) and cur:
                        cur = cur[0]
                if not isinstance(cur, int):
                    raise Unfoldable(f"{cls_q}.{member}: auto() after a member that is not an int")
                last = cur
                if k == member:
                    val = cur
                    break
            if val is None:
                raise Unfoldable(f"{cls_q} has no member {member}")
        else:
            val = self.fold(v, c.module)
        return EnumConst(cls_q, member, val)

    def fold(self, e: ast.expr, module: str, env: Optional[Dict[str, Any]] = None, self_cls: Optional[str] = None) -> Any:
        env = env or {}
        if isinstance(e, ast.Constant):
            return e.value
        if isinstance(e, ast.JoinedStr):
            parts = []
            for v in e.values:
                if isinstance(v, ast.Constant):
                    parts.append(v.value)
                elif isinstance(v, ast.FormattedValue):
                    if v.format_spec is not None or v.conversion not in (-1, 115):
                        raise Unfoldable("format spec in f-string")
                    x = self.fold(v.value, module, env, self_cls)
                    if isinstance(x, int) and not isinstance(x, bool):
                        x = str(x)            # f"{2}" is "2": an integer literal formats as its decimal digits
                    if not isinstance(x, str):
                        raise Unfoldable("non-str interpolation")
                    parts.append(x)
            return "".join(parts)
        if isinstance(e, ast.Name):
            if e.id in env:
                return env[e.id]
            if e.id in ("True", "False", "None"):
                return {"True": True, "False": False, "None": None}[e.id]
            return self.fold_global(module, e.id)
        if isinstance(e, ast.Attribute):
            # a helper parameter that was bound to the caller's self/cls
            if isinstance(e.value, ast.Name) and isinstance(env.get(e.value.id), SelfRef):
                return self.fold(ast.copy_location(ast.Attribute(value=ast.Name(id="self", ctx=ast.Load()), attr=e.attr, ctx=ast.Load()), e), module, {}, env[e.value.id].cls)
            # self.X / cls.X class constants of the concrete class
            if isinstance(e.value, ast.Name) and e.value.id in ("self", "cls") and e.value.id not in env and self_cls is not None:
                cc = self.m.class_const(self_cls, e.attr)
                if cc is not None:
                    owner, expr = cc
                    # dataclass field(default=...) wrappers
                    if isinstance(expr, ast.Call) and norm(expr.func).split(".")[-1] == "field":
                        for kw in expr.keywords:
                            if kw.arg == "default":
                                return self.fold(kw.value, self.m.classes[owner].module)
                        raise Unfoldable(f"{self_cls}.{e.attr} has no constant default")
                    return self.fold(expr, self.m.classes[owner].module)
                # a property whose body is one `return <expr>`: the expression, folded for the same concrete class
                pm = self.m.find_method(self_cls, e.attr)
                if pm is not None and not isinstance(pm.node, ast.Lambda) and any(norm(d).split(".")[-1] in ("property", "cached_property") for d in pm.node.decorator_list):
                    pbody = [b for b in pm.node.body if not (isinstance(b, ast.Expr) and isinstance(b.value, ast.Constant))]
                    key = ("prop", self_cls, e.attr)
                    if len(pbody) == 1 and isinstance(pbody[0], ast.Return) and pbody[0].value is not None and key not in self._stack:
                        self._stack.add(key)
                        try:
                            return self.fold(pbody[0].value, pm.module, {}, self_cls)
                        finally:
                            self._stack.discard(key)
                raise Unfoldable(f"{self_cls}.{e.attr} is not a class constant")
            txt = norm(e)
            if txt.startswith("re.") and hasattr(re, e.attr) and isinstance(getattr(re, e.attr), re.RegexFlag):
                return getattr(re, e.attr)
            q = self.m.resolve_name(module, norm(e.value)) if isinstance(e.value, (ast.Name, ast.Attribute)) else None
            if q in self.m.classes:
                c = self.m.classes[q]
                if c.is_enum and e.attr in c.consts:
                    return self.enum_member(q, e.attr)
                cc = self.m.class_const(q, e.attr)
                if cc is not None:
                    owner, expr = cc
                    if isinstance(expr, ast.Call) and norm(expr.func).split(".")[-1] == "field":
                        for kw in expr.keywords:
                            if kw.arg == "default":
                                return self.fold(kw.value, self.m.classes[owner].module)
                    return self.fold(expr, self.m.classes[owner].module)
            base = self.fold(e.value, module, env, self_cls)
            if isinstance(base, EnumConst) and e.attr == "value":
                return base.value
            if isinstance(base, EnumConst) and e.attr == "name":
                return base.member
            if isinstance(base, TagConst):
                return {"tag_class": base.tag_class, "tag_number": base.number, "is_constructed": base.constructed}[e.attr]
            raise Unfoldable(f"attribute {txt}")
        if isinstance(e, ast.BinOp):
            l = self.fold(e.left, module, env, self_cls)
            r = self.fold(e.right, module, env, self_cls)
            try:
                if isinstance(e.op, ast.Add):
                    return l + r
                if isinstance(e.op, ast.BitOr):
                    return l | r
                if isinstance(e.op, ast.Mod):
                    return l % r
                if isinstance(e.op, ast.Mult):
                    return l * r
                if isinstance(e.op, ast.Sub):
                    return l - r
                if isinstance(e.op, ast.LShift):
                    return l << r
            except Exception as ex:
                raise Unfoldable(str(ex))
            raise Unfoldable("operator")
        if isinstance(e, ast.UnaryOp):
            v = self.fold(e.operand, module, env, self_cls)
            if isinstance(e.op, ast.Not):
                return not v
            if isinstance(e.op, ast.USub):
                return -v
            raise Unfoldable("unary")
        if isinstance(e, ast.Call):
            f = e.func
            ftxt = norm(f)
            if isinstance(f, ast.Attribute) and f.attr == "encode":
                base = self.fold(f.value, module, env, self_cls)
                if isinstance(base, str):
                    enc = self.fold(e.args[0], module, env, self_cls) if e.args else "utf-8"
                    return base.encode(enc)
                raise Unfoldable("encode of non-str")
            if isinstance(f, ast.Name) and f.id == "isinstance" and len(e.args) == 2 and isinstance(e.args[0], ast.Name) and e.args[0].id == "self" and self_cls:
                ks = e.args[1].elts if isinstance(e.args[1], ast.Tuple) else [e.args[1]]
                for k in ks:
                    q = self.m.resolve_name(module, norm(k))
                    if q is None:
                        raise Unfoldable("isinstance class")
                    if self.m.is_subclass(self_cls, q):
                        return True
                return False
            if isinstance(f, ast.Attribute) and f.attr == "join" and len(e.args) == 1 and not e.keywords:
                # "<sep>".join(<comprehension over an enum class / a constant tuple>)
                sep = self.fold(f.value, module, env, self_cls)
                if not isinstance(sep, (str, bytes)):
                    raise Unfoldable("join on a non-constant separator")
                items = self._fold_iterable(e.args[0], module, env, self_cls)
                if not all(isinstance(x, type(sep)) for x in items):
                    raise Unfoldable("join of non-text items")
                return sep.join(items)
            if isinstance(f, ast.Name) and f.id in ("bytes", "bytearray") and len(e.args) == 1 and not e.keywords and isinstance(e.args[0], (ast.Tuple, ast.List)):
                items = [self.fold(x, module, env, self_cls) for x in e.args[0].elts]
                if all(isinstance(x, int) and not isinstance(x, bool) and 0 <= x <= 255 for x in items):
                    return bytes(items)
                raise Unfoldable("bytes of non-octets")
            if isinstance(f, ast.Name) and f.id in ("chr", "ord", "len", "hex") and len(e.args) == 1 and not e.keywords and f.id not in env:
                a0 = self.fold(e.args[0], module, env, self_cls)
                try:
                    return {"chr": chr, "ord": ord, "len": len, "hex": hex}[f.id](a0)
                except Exception as ex:
                    raise Unfoldable(str(ex))
            q = self.m.resolve_name(module, ftxt)
            if q == f"{ASN1}.ASN1Tag":
                args = {}
                names = ["tag_class", "tag_number", "is_constructed"]
                for n, a in zip(names, e.args):
                    args[n] = self.fold(a, module, env, self_cls)
                for k in e.keywords:
                    args[k.arg] = self.fold(k.value, module, env, self_cls)
                if set(args) != set(names):
                    raise Unfoldable("ASN1Tag arity")
                return TagConst(args["tag_class"], args["tag_number"], bool(args["is_constructed"]))
            # classmethod helpers on ASN1Tag (universal_tag and any sibling written the same way):
            if q and q.rsplit(".", 1)[0] == f"{ASN1}.ASN1Tag" and q in self.m.functions:
                fi = self.m.functions[q]
                return self.fold_function_call(fi, e, module, env, self_cls)
            # a private module-level helper of the package that is a single `return <expr>`
            if q in self.m.functions and self.m.functions[q].cls is None and not isinstance(self.m.functions[q].node, ast.Lambda) and not self.m.functions[q].node.decorator_list:
                return self.fold_function_call(self.m.functions[q], e, module, env, self_cls)
            raise Unfoldable(f"call {ftxt}")
        if isinstance(e, ast.IfExp):
            t = self.fold(e.test, module, env, self_cls)
            return self.fold(e.body if t else e.orelse, module, env, self_cls)
        if isinstance(e, ast.BoolOp):
            vals = [self.fold(v, module, env, self_cls) for v in e.values]
            r = vals[0]
            for v in vals[1:]:
                r = (r and v) if isinstance(e.op, ast.And) else (r or v)
            return r
        if isinstance(e, ast.Compare) and len(e.ops) == 1:
            a = self.fold(e.left, module, env, self_cls)
            b = self.fold(e.comparators[0], module, env, self_cls)
            op = e.ops[0]
            if isinstance(op, ast.Eq):
                return a == b
            if isinstance(op, ast.NotEq):
                return a != b
            if isinstance(op, ast.Is):
                return a is b
            if isinstance(op, ast.IsNot):
                return a is not b
            raise Unfoldable("compare")
        if isinstance(e, ast.Tuple):
            return tuple(self.fold(x, module, env, self_cls) for x in e.elts)
        if isinstance(e, ast.DictComp) and len(e.generators) == 1 and isinstance(e.generators[0].target, ast.Name) and not e.generators[0].is_async:
            g = e.generators[0]
            out = {}
            for item in self._fold_iterable(g.iter, module, env, self_cls):
                env2 = dict(env or {})
                env2[g.target.id] = item
                if all(self.fold(c, module, env2, self_cls) for c in g.ifs):
                    out[self._key(self.fold(e.key, module, env2, self_cls))] = self.fold(e.value, module, env2, self_cls)
            return out
        if isinstance(e, ast.Dict) and all(k is not None for k in e.keys):
            return {self._key(self.fold(k, module, env, self_cls)): self.fold(v, module, env, self_cls) for k, v in zip(e.keys, e.values)}
        if isinstance(e, ast.Subscript):
            base = self.fold(e.value, module, env, self_cls)
            idx = self.fold(e.slice, module, env, self_cls)
            if isinstance(base, dict):
                k = self._key(idx)
                if k in base:
                    return base[k]
                raise Unfoldable(f"key {idx!r} not in the table")
            if isinstance(base, (tuple, str, bytes)) and isinstance(idx, int) and not isinstance(idx, bool) and -len(base) <= idx < len(base):
                return base[idx]
            raise Unfoldable("subscript")
        raise Unfoldable(f"expression {type(e).__name__}: {norm(e)[:60]}")

    def _fold_iterable(self, e: ast.expr, module: str, env, self_cls) -> list:
        """the items of a tuple / list display, of an enum class (its members in definition order) or of a one-generator
        comprehension over one of those, folded"""
        if isinstance(e, (ast.Tuple, ast.List)):
            return [self.fold(x, module, env, self_cls) for x in e.elts]
        if isinstance(e, (ast.Name, ast.Attribute)):
            q = self.m.resolve_name(module, norm(e))
            if q in self.m.classes and self.m.classes[q].is_enum:
                c = self.m.classes[q]
                return [self.enum_member(q, name) for name in c.consts if not name.startswith("_")]
            v = self.fold(e, module, env, self_cls)
            if isinstance(v, (tuple, list)):
                return list(v)
            raise Unfoldable(f"iteration over {norm(e)[:40]}")
        if isinstance(e, ast.Call) and isinstance(e.func, ast.Name) and e.func.id == "range" and 1 <= len(e.args) <= 3 and not e.keywords:
            a = [self.fold(x, module, env, self_cls) for x in e.args]
            if all(isinstance(x, int) and not isinstance(x, bool) for x in a):
                r = range(*a)
                if len(r) <= 4096:
                    return list(r)
            raise Unfoldable("range")
        if isinstance(e, (ast.GeneratorExp, ast.ListComp)) and len(e.generators) == 1 and isinstance(e.generators[0].target, ast.Name) and not e.generators[0].is_async:
            g = e.generators[0]
            out = []
            for item in self._fold_iterable(g.iter, module, env, self_cls):
                env2 = dict(env or {})
                env2[g.target.id] = item
                if all(self.fold(c, module, env2, self_cls) for c in g.ifs):
                    out.append(self.fold(e.elt, module, env2, self_cls))
            return out
        raise Unfoldable(f"iteration over {type(e).__name__}")

    @staticmethod
    def _key(v: Any) -> Any:
        return ("enum", v.cls, v.member) if isinstance(v, EnumConst) else v

    def fold_function_call(self, fi, call: ast.Call, module: str, env, self_cls) -> Any:
        """Fold a call to a small pure helper whose body is `return <expr>` (after an optional docstring)."""
        body = [s for s in fi.node.body if not (isinstance(s, ast.Expr) and isinstance(s.value, ast.Constant))]
        simple = len(body) == 1 and isinstance(body[0], ast.Return)
        if not simple and not all(isinstance(s, (ast.Return, ast.If, ast.Assign, ast.AnnAssign)) for s in body):
            raise Unfoldable(f"{fi.qualname} is not a small pure helper")
        params = fi.params()
        if fi.cls and not fi.is_staticmethod:
            params = params[1:]
        a = fi.node.args
        allp = a.posonlyargs + a.args
        if fi.cls and not fi.is_staticmethod:
            allp = allp[1:]
        local: Dict[str, Any] = {}
        defaults = a.defaults
        for i, p in enumerate(allp):
            di = i - (len(allp) - len(defaults))
            if di >= 0:
                local[p.arg] = self.fold(defaults[di], fi.module)
        for p, d in zip(a.kwonlyargs, a.kw_defaults):
            if d is not None:
                local[p.arg] = self.fold(d, fi.module)
        def arg(v):
            if isinstance(v, ast.Name) and v.id in ("self", "cls") and v.id not in (env or {}) and self_cls is not None:
                return SelfRef(self_cls)
            return self.fold(v, module, env, self_cls)
        unknown = set()
        for p, v in list(zip(params, call.args)) + [(k.arg, k.value) for k in call.keywords]:
            try:
                local[p] = arg(v)
            except Unfoldable:
                if simple:
                    raise
                local.pop(p, None)
                unknown.add(p)          # only a problem if the evaluation below needs it
        for p in params:
            if p not in local and p not in unknown:
                raise Unfoldable(f"missing argument {p} for {fi.qualname}")
        if simple:
            return self.fold(body[0].value, fi.module, local, None)
        key = ("call", fi.qualname)
        if key in self._stack:
            raise Unfoldable("recursive helper")
        self._stack.add(key)
        try:
            done, val = self._run(body, fi.module, local)
        finally:
            self._stack.discard(key)
        if not done:
            raise Unfoldable(f"{fi.qualname} falls off its end")
        return val

    def _run(self, stmts, module: str, local: Dict[str, Any]):
        """(returned?, value) of a statement list made of constant-decidable ifs, assignments to locals and returns"""
        for s in stmts:
            if isinstance(s, ast.Expr) and isinstance(s.value, ast.Constant):
                continue
            if isinstance(s, ast.Return):
                return True, (None if s.value is None else self.fold(s.value, module, local, None))
            if isinstance(s, (ast.Assign, ast.AnnAssign)):
                tg = s.targets if isinstance(s, ast.Assign) else [s.target]
                if len(tg) != 1 or not isinstance(tg[0], ast.Name) or s.value is None:
                    raise Unfoldable("assignment form")
                local[tg[0].id] = self.fold(s.value, module, local, None)
                continue
            if isinstance(s, ast.If):
                t = self.fold(s.test, module, local, None)
                done, val = self._run(s.body if t else s.orelse, module, local)
                if done:
                    return True, val
                continue
            raise Unfoldable(f"statement {type(s).__name__}")
        return False, None

    def fold_global(self, module: str, name: str) -> Any:
        q = self.m.resolve_name(module, name)
        if q is None:
            raise Unfoldable(f"unknown name {name}")
        if q in self.m.classes or q in self.m.functions:
            raise Unfoldable(f"{name} is not a constant")
        mod, _, nm = q.rpartition(".")
        if mod not in self.m.modules:
            raise Unfoldable(f"external name {q}")
        sts = self.m.modules[mod].globals_.get(nm, [])
        sts = [s for s in sts if isinstance(s, (ast.Assign, ast.AnnAssign))]
        if len(sts) != 1:
            raise Unfoldable(f"{q} is bound {len(sts)} times")
        key = (mod, nm)
        if key in self._stack:
            raise Unfoldable("cyclic constant")
        self._stack.add(key)
        try:
            return self.fold(sts[0].value, mod)
        finally:
            self._stack.discard(key)
