"""Engine D - path-sensitive effect/typestate extraction for the session classes.

A small abstract interpreter over the statement and expression vocabulary of
sansldap._session.  For a concrete session class, a public entry and a
pre-state it enumerates every path (calls on self/super() are inlined through
the MRO of the concrete class) and yields PathSummary objects: the ordered list
of effects on the session object and the outcome (return / raise).  Nothing is
executed: values are abstract (constants, enum members, symbols, constructed
objects whose class is known from the constructor call).
"""
from __future__ import annotations

import ast
import copy
from dataclasses import dataclass, field
from typing import Any, Dict, List, Optional, Tuple

from .srcmodel import AnalysisError, Model, norm

SESSION_MOD = "sansldap._session"
STATE_ENUM = f"{SESSION_MOD}.SessionState"

BUILTIN_EXC_PARENTS = {
    "BaseException": None, "Exception": "BaseException",
    "ValueError": "Exception", "TypeError": "Exception", "LookupError": "Exception",
    "KeyError": "LookupError", "IndexError": "LookupError", "RuntimeError": "Exception",
    "RecursionError": "RuntimeError", "NotImplementedError": "RuntimeError",
    "UnicodeError": "ValueError", "UnicodeDecodeError": "UnicodeError", "UnicodeEncodeError": "UnicodeError",
    "AttributeError": "Exception", "StopIteration": "Exception", "ArithmeticError": "Exception",
    "OverflowError": "ArithmeticError", "ZeroDivisionError": "ArithmeticError", "AssertionError": "Exception",
    "MemoryError": "Exception", "OSError": "Exception", "struct.error": "Exception", "binascii.Error": "ValueError",
}


# ----------------------------------------------------------------- values
@dataclass(frozen=True)
class Const:
    v: Any


@dataclass(frozen=True)
class EnumV:
    cls: str
    member: str
    as_value: bool = False     # X.MEMBER.value


@dataclass(frozen=True)
class Sym:
    name: str


@dataclass(frozen=True)
class ClassV:
    q: str


@dataclass(frozen=True)
class TupleV:
    items: tuple


@dataclass(frozen=True)
class KwArgs:
    """The **kwargs of the frame: the keyword arguments no named parameter took."""
    items: tuple          # ((name, value), ...)


@dataclass(frozen=True)
class AttrRef:
    """Reference to a mutable container attribute of the session object."""
    attr: str


@dataclass(frozen=True)
class CounterVal:
    attr: str
    k: int          # number of increments since entry


@dataclass(frozen=True)
class Packed:
    of: Any         # value that was packed (Obj)


@dataclass(frozen=True)
class Unknown:
    why: str = ""


@dataclass(frozen=True)
class BoundMethod:
    recv: Any
    name: str


@dataclass(frozen=True)
class SuperV:
    cls_after: str


class ListV:
    """A locally built list; remembers what kinds of values were appended."""

    def __init__(self):
        self.tags = set()

    def __repr__(self):
        return f"<list {sorted(self.tags)}>"


class Obj:
    """A constructed object with a known class; fields are abstract values."""
    _n = 0

    def __init__(self, cls: str, fields: Optional[dict] = None, role: str = "", path: str = ""):
        Obj._n += 1
        self.id = Obj._n
        self.cls = cls
        self.fields = fields if fields is not None else {}
        self.role = role      # "session", "msg_in", "exc", ""
        self.path = path      # symbolic path for lazily created fields

    def __repr__(self):
        return f"<{self.cls.split('.')[-1]}#{self.role or self.id}>"


@dataclass
class Effect:
    kind: str                 # state, extend, set_add, set_remove, set_discard, set_assign, attr_assign, attr_call, counter, stamp, mayraise, implicit
    a: Any = None
    b: Any = None
    func: str = ""
    line: int = 0
    text: str = ""
    snap_state: str = ""      # session state when the effect happened
    snap_empty: Dict[str, str] = field(default_factory=dict)   # emptiness of tracked sets
    snap_facts: Dict[str, bool] = field(default_factory=dict)

    def brief(self) -> str:
        if self.kind == "state":
            return f"state := {self.a}"
        if self.kind == "extend":
            return f"{self.a}.extend({desc(self.b)})"
        if self.kind in ("set_add", "set_remove", "set_discard"):
            return f"{self.a}.{self.kind[4:]}({desc(self.b)})"
        if self.kind == "set_assign":
            return f"{self.a} := {desc(self.b)}"
        if self.kind == "counter":
            return f"{self.a} += {self.b}"
        if self.kind == "stamp":
            return f"stamp {desc(self.a)}.{self.b[0]} := {desc(self.b[1])}"
        if self.kind == "guard":
            return f"guard {self.a} -> {self.b}"
        return f"{self.kind} {desc(self.a)} {desc(self.b) if self.b is not None else ''}"


def desc(v: Any) -> str:
    if isinstance(v, Obj):
        return repr(v)
    if isinstance(v, Packed):
        return f"pack({desc(v.of)})"
    if isinstance(v, Sym):
        return v.name
    if isinstance(v, Const):
        return repr(v.v)
    if isinstance(v, EnumV):
        return f"{v.cls.split('.')[-1]}.{v.member}" + (".value" if v.as_value else "")
    if isinstance(v, CounterVal):
        return f"counter+{v.k}"
    if isinstance(v, AttrRef):
        return f"self.{v.attr}"
    if isinstance(v, Unknown):
        return f"?{v.why}"
    if isinstance(v, TupleV):
        return "(" + ", ".join(desc(i) for i in v.items) + ")"
    if isinstance(v, BoundMethod):
        return f"{desc(v.recv)}.{v.name}"
    if isinstance(v, ClassV):
        return v.q.split(".")[-1]
    return str(v)


@dataclass
class ExcV:
    cls: str                 # qualified package class or builtin name or "Other"
    obj: Optional[Obj] = None
    origin: str = ""         # explicit | external:<callee> | implicit:<what>
    line: int = 0
    func: str = ""


@dataclass
class Outcome:
    kind: str                # normal, return, raise, break, continue
    value: Any = None
    exc: Optional[ExcV] = None


@dataclass
class PathSummary:
    cls: str
    entry: str
    pre_state: str
    post_state: str
    effects: List[Effect]
    outcome: Outcome
    facts: Dict[str, bool]
    msg_in: Optional[str]       # class of the incoming message on receive paths
    pre_empty: Dict[str, str] = field(default_factory=dict)
    post_empty: Dict[str, str] = field(default_factory=dict)

    def trace(self) -> List[str]:
        out = [f"entry {self.cls.split('.')[-1]}.{self.entry}  pre-state {self.pre_state}" + (f"  incoming {self.msg_in.split('.')[-1]}" if self.msg_in else "")]
        for e in self.effects:
            out.append(f"  {e.func.split('.')[-1]}:{e.line}  {e.brief()}")
        if self.outcome.kind == "raise":
            out.append(f"  outcome raise {self.outcome.exc.cls.split('.')[-1]} ({self.outcome.exc.origin})  post-state {self.post_state}")
        else:
            out.append(f"  outcome return {desc(self.outcome.value)}  post-state {self.post_state}")
        return out


class PState:
    """Abstract store for one path."""

    def __init__(self):
        self.state: Optional[str] = None           # SessionState member name
        self.facts: Dict[str, bool] = {}
        self.empty: Dict[str, str] = {}            # attr -> empty | nonempty | unknown
        self.counter_k: Dict[str, int] = {}
        self.effects: List[Effect] = []
        self.session: Optional[Obj] = None
        self.msg_in: Optional[str] = None
        self.frames: List[dict] = []

    def clone(self) -> "PState":
        return copy.deepcopy(self)


class TooManyPaths(AnalysisError):
    pass


class Interp:
    SET_ATTRS = ("_outstanding_requests", "_search_requests")
    MAX_PATHS = 20000

    def __init__(self, model: Model, cls_q: str, message_classes: List[str]):
        self.m = model
        self.cls_q = cls_q
        self.message_classes = message_classes
        self.paths = 0
        self.unknown_constructs: List[str] = []
        self.unresolved_calls: List[str] = []

    # ----------------------------------------------------------- entry
    def run_entry(self, entry: str, pre_state: str, pre_empty: Optional[Dict[str, str]] = None) -> List[PathSummary]:
        fi = self.m.find_method(self.cls_q, entry)
        if fi is None:
            raise AnalysisError(f"{self.cls_q}.{entry} not found")
        st = PState()
        st.state = pre_state
        st.session = Obj(self.cls_q, {}, role="session")
        for a in self.SET_ATTRS:
            st.empty[a] = (pre_empty or {}).get(a, "unknown")
        pre_e = dict(st.empty)
        args = {p: Sym(p) for p in fi.params()[1:]}
        res = []
        for st2, out in self.call_function(fi, st.session, args, st):
            if out.kind in ("normal",):
                out = Outcome("return", Const(None))
            res.append(PathSummary(self.cls_q, entry, pre_state, st2.state, st2.effects, out, st2.facts, st2.msg_in, pre_e, dict(st2.empty)))
        return res

    # ----------------------------------------------------------- calls
    def call_function(self, fi, self_v, args: Dict[str, Any], st: PState, defaults: bool = True):
        node = fi.node
        frame = {"func": fi.qualname, "cls": fi.cls, "locals": {}, "self": self_v, "exc": None}
        a = node.args
        params = a.posonlyargs + a.args
        names = [p.arg for p in params]
        if fi.cls and not fi.is_staticmethod and names:
            frame["locals"][names[0]] = self_v
            names = names[1:]
            params = params[1:]
        ndef = len(a.defaults)
        for i, p in enumerate(params):
            if p.arg in args:
                frame["locals"][p.arg] = args[p.arg]
            else:
                di = i - (len(params) - ndef)
                if di >= 0:
                    frame["locals"][p.arg] = ("__default__", a.defaults[di])
                else:
                    frame["locals"][p.arg] = Unknown(f"missing arg {p.arg}")
        for p, d in zip(a.kwonlyargs, a.kw_defaults):
            frame["locals"][p.arg] = args.get(p.arg, ("__default__", d) if d is not None else Unknown("kwonly"))
        if a.kwarg is not None:
            taken = set(names) | {p.arg for p in a.kwonlyargs}
            frame["locals"][a.kwarg.arg] = KwArgs(tuple((k, v) for k, v in args.items() if k not in taken))
        st = st
        st.frames.append(frame)
        # evaluate defaults lazily now (constants in practice)
        for k, v in list(frame["locals"].items()):
            if isinstance(v, tuple) and v and v[0] == "__default__":
                vals = self.eval(v[1], st)
                frame["locals"][k] = vals[0][1] if len(vals) == 1 else Unknown("default")
        results = []
        for st2, out in self.exec_block(node.body, st):
            st2.frames.pop()
            if out.kind == "normal":
                out = Outcome("return", Const(None))
            elif out.kind in ("break", "continue"):
                raise AnalysisError(f"{fi.qualname}: stray {out.kind}")
            results.append((st2, out))
        return results

    # ----------------------------------------------------------- statements
    def exec_block(self, stmts: List[ast.stmt], st: PState):
        """Returns list of (state, Outcome)."""
        states = [(st, Outcome("normal"))]
        for s in stmts:
            nxt = []
            for cur, out in states:
                if out.kind != "normal":
                    nxt.append((cur, out))
                    continue
                nxt.extend(self.exec_stmt(s, cur))
            states = nxt
            self.paths = max(self.paths, len(states))
            if len(states) > self.MAX_PATHS:
                raise TooManyPaths(f"path explosion in {st.frames[-1]['func']}")
        return states

    def exec_stmt(self, s: ast.stmt, st: PState):
        fr = st.frames[-1]
        if isinstance(s, ast.Pass):
            return [(st, Outcome("normal"))]
        if isinstance(s, ast.Expr):
            if isinstance(s.value, ast.Constant):
                return [(st, Outcome("normal"))]
            return [(s2, o if o is not None else Outcome("normal")) for s2, v, o in self.eval_x(s.value, st)]
        if isinstance(s, ast.Return):
            if s.value is None:
                return [(st, Outcome("return", Const(None)))]
            return [(s2, o if o is not None else Outcome("return", v)) for s2, v, o in self.eval_x(s.value, st)]
        if isinstance(s, (ast.Assign, ast.AnnAssign)):
            if isinstance(s, ast.AnnAssign) and s.value is None:
                return [(st, Outcome("normal"))]
            targets = s.targets if isinstance(s, ast.Assign) else [s.target]
            out = []
            for s2, v, o in self.eval_x(s.value, st):
                if o is not None:
                    out.append((s2, o))
                    continue
                for t in targets:
                    self.assign(t, v, s2, s)
                out.append((s2, Outcome("normal")))
            return out
        if isinstance(s, ast.AugAssign):
            out = []
            for s2, v, o in self.eval_x(s.value, st):
                if o is not None:
                    out.append((s2, o))
                    continue
                self.aug_assign(s, v, s2)
                out.append((s2, Outcome("normal")))
            return out
        if isinstance(s, ast.Raise):
            return self.exec_raise(s, st)
        if isinstance(s, ast.If):
            out = []
            for s2, truth, o in self.eval_cond(s.test, st):
                if o is not None:
                    out.append((s2, o))
                    continue
                out.extend(self.exec_block(s.body if truth else s.orelse, s2))
            return out
        if isinstance(s, ast.Try):
            return self.exec_try(s, st)
        if isinstance(s, ast.While):
            return self.exec_while(s, st)
        if isinstance(s, ast.For):
            return self.exec_for(s, st)
        if isinstance(s, (ast.Break,)):
            return [(st, Outcome("break"))]
        if isinstance(s, (ast.Continue,)):
            return [(st, Outcome("continue"))]
        if isinstance(s, ast.Assert):
            return [(st, Outcome("normal"))]
        if isinstance(s, (ast.FunctionDef, ast.Import, ast.ImportFrom, ast.Global, ast.Nonlocal)):
            return [(st, Outcome("normal"))]
        if isinstance(s, ast.With):
            # no session method uses `with` today; treat the body as straight-line
            out = []
            sts = [(st, None)]
            for item in s.items:
                nx = []
                for s2, _ in sts:
                    for s3, v, o in self.eval_x(item.context_expr, s2):
                        if o is not None:
                            out.append((s3, o))
                        else:
                            if item.optional_vars is not None:
                                self.assign(item.optional_vars, Unknown("with"), s3, s)
                            nx.append((s3, None))
                sts = nx
            for s2, _ in sts:
                out.extend(self.exec_block(s.body, s2))
            return out
        if isinstance(s, ast.Delete):
            for t in s.targets:
                if isinstance(t, ast.Attribute):
                    self.unknown_constructs.append(f"{fr['func']}: del {norm(t)}")
            return [(st, Outcome("normal"))]
        self.unknown_constructs.append(f"{fr['func']}:{s.lineno}: statement {type(s).__name__}")
        raise AnalysisError(f"session interpreter: unsupported statement {type(s).__name__} at {fr['func']}:{s.lineno}")

    # -- raise / try ---------------------------------------------------------
    def exec_raise(self, s: ast.Raise, st: PState):
        fr = st.frames[-1]
        if s.exc is None:
            cur = fr.get("exc")
            if cur is None:
                raise AnalysisError(f"bare raise outside handler at {fr['func']}:{s.lineno}")
            return [(st, Outcome("raise", exc=cur))]
        out = []
        for s2, v, o in self.eval_x(s.exc, st):
            if o is not None:
                out.append((s2, o))
                continue
            cls = None
            obj = None
            if isinstance(v, Obj):
                cls, obj = v.cls, v
            elif isinstance(v, ClassV):
                cls = v.q
            elif isinstance(v, Unknown) and v.why.startswith("exc:"):
                cls = v.why[4:]
            else:
                cls = "Other"
            out.append((s2, Outcome("raise", exc=ExcV(cls, obj, "explicit", s.lineno, fr["func"]))))
        return out

    def exc_matches(self, exc_cls: str, handler: Optional[ast.expr], module: str) -> Optional[bool]:
        """True/False; None = cannot tell (exc class 'Other')."""
        if handler is None:
            return True
        names = handler.elts if isinstance(handler, ast.Tuple) else [handler]
        res = False
        for n in names:
            q = self.m.resolve_name(module, norm(n)) or norm(n)
            if q in ("Exception", "BaseException"):
                return True
            if exc_cls == "Other":
                continue
            if self._exc_is_sub(exc_cls, q):
                res = True
        if exc_cls == "Other":
            return False     # 'Other' stands for classes no handler of the function names
        return res

    def _exc_is_sub(self, c: str, base: str) -> bool:
        if c == base:
            return True
        if c in self.m.classes:
            for k in self.m.classes[c].mro:
                if k == base or k.split(".")[-1] == base and k not in self.m.classes:
                    return True
            # builtin ancestors of package class
            for k in self.m.classes[c].mro:
                if k not in self.m.classes and self._exc_is_sub(k.split(".")[-1], base):
                    return True
            return False
        cur = c
        while cur is not None:
            if cur == base:
                return True
            cur = BUILTIN_EXC_PARENTS.get(cur)
        return False

    def exec_try(self, s: ast.Try, st: PState):
        fr = st.frames[-1]
        module = fr["func"].rsplit(".", 2)[0] if fr["cls"] else fr["func"].rsplit(".", 1)[0]
        module = self.m.functions[fr["func"]].module
        fr.setdefault("handlers", []).append(s.handlers)
        body_res = self.exec_block(s.body, st)
        for s2, _ in body_res:
            s2.frames[-1]["handlers"].pop()
        out = []
        for s2, o in body_res:
            if o.kind == "raise":
                handled = False
                for h in s.handlers:
                    mt = self.exc_matches(o.exc.cls, h.type, module)
                    if mt:
                        handled = True
                        fr2 = s2.frames[-1]
                        prev = fr2.get("exc")
                        fr2["exc"] = o.exc
                        if h.name:
                            fr2["locals"][h.name] = o.exc.obj if o.exc.obj is not None else Obj(o.exc.cls, {}, role="exc", path=h.name)
                            if o.exc.obj is None:
                                o.exc.obj = fr2["locals"][h.name]
                        for s3, o3 in self.exec_block(h.body, s2):
                            s3.frames[-1]["exc"] = prev
                            out.append((s3, o3))
                        break
                if not handled:
                    out.append((s2, o))
            elif o.kind == "normal" and s.orelse:
                out.extend(self.exec_block(s.orelse, s2))
            else:
                out.append((s2, o))
        if s.finalbody:
            fin = []
            for s2, o in out:
                for s3, o3 in self.exec_block(s.finalbody, s2):
                    fin.append((s3, o if o3.kind == "normal" else o3))
            out = fin
        return out

    # -- loops ---------------------------------------------------------------
    def exec_while(self, s: ast.While, st: PState):
        """0 or 1 iteration, then the loop is left (the rules are per effect and
        per iteration; later iterations start from a state that is itself a
        pre-state of the analysis)."""
        out = []
        for s2, truth, o in self.eval_cond(s.test, st, loop=True):
            if o is not None:
                out.append((s2, o))
                continue
            if not truth:
                out.extend(self.exec_block(s.orelse, s2) if s.orelse else [(s2, Outcome("normal"))])
                continue
            for s3, o3 in self.exec_block(s.body, s2):
                if o3.kind in ("normal", "continue", "break"):
                    out.append((s3, Outcome("normal")))
                else:
                    out.append((s3, o3))
        return out

    def exec_for(self, s: ast.For, st: PState):
        out = []
        for s2, it, o in self.eval_x(s.iter, st):
            if o is not None:
                out.append((s2, o))
                continue
            # zero iterations
            s_skip = s2.clone()
            out.append((s_skip, Outcome("normal")))
            elems = self.iter_elements(it, s, s2)
            for ev in elems:
                s3 = s2.clone()
                if isinstance(ev, Obj) and ev.role == "msg_in":
                    s3.msg_in = ev.cls
                self.assign(s.target, ev, s3, s)
                for s4, o4 in self.exec_block(s.body, s3):
                    if o4.kind in ("normal", "continue", "break"):
                        out.append((s4, Outcome("normal")))
                    else:
                        out.append((s4, o4))
        return out

    def iter_elements(self, it: Any, s: ast.For, st: PState) -> List[Any]:
        if isinstance(it, ListV):
            if not it.tags:
                return []
            if it.tags == {"incoming_msg"}:
                return [Obj(k, {}, role="msg_in", path="msg") for k in self.message_classes]
        return [Unknown("elem")]

    # -- assignment ----------------------------------------------------------
    def is_session(self, v: Any, st: PState) -> bool:
        return isinstance(v, Obj) and v.role == "session"

    def snap(self, e: Effect, st: PState) -> Effect:
        e.snap_state = st.state
        e.snap_empty = dict(st.empty)
        e.snap_facts = dict(st.facts)
        e.func = st.frames[-1]["func"]
        return e

    def assign(self, t: ast.expr, v: Any, st: PState, s: ast.stmt) -> None:
        fr = st.frames[-1]
        if isinstance(t, ast.Name):
            fr["locals"][t.id] = v
            return
        if isinstance(t, (ast.Tuple, ast.List)):
            for i, e in enumerate(t.elts):
                self.assign(e, v.items[i] if isinstance(v, TupleV) and i < len(v.items) else Unknown("unpack"), st, s)
            return
        if isinstance(t, ast.Attribute):
            bases = self.eval(t.value, st)
            base = bases[0][1] if len(bases) == 1 else Unknown("base")
            if self.is_session(base, st):
                self.session_attr_write(t.attr, v, st, s)
            elif isinstance(base, Obj):
                base.fields[t.attr] = v
            return
        if isinstance(t, ast.Subscript):
            bases = self.eval(t.value, st)
            base = bases[0][1] if len(bases) == 1 else None
            if isinstance(base, AttrRef):
                st.effects.append(self.snap(Effect("attr_call", base.attr, "__setitem__", line=s.lineno, text=norm(s)), st))
            return
        raise AnalysisError(f"unsupported assignment target {norm(t)}")

    def session_attr_write(self, attr: str, v: Any, st: PState, s: ast.stmt) -> None:
        ln = s.lineno
        if attr == "state":
            if isinstance(v, EnumV) and v.cls == STATE_ENUM:
                st.effects.append(self.snap(Effect("state", v.member, line=ln, text=norm(s)), st))
                st.state = v.member
            else:
                st.effects.append(self.snap(Effect("state", "?", desc(v), line=ln, text=norm(s)), st))
                st.state = "?"
            return
        if attr in self.SET_ATTRS:
            st.effects.append(self.snap(Effect("set_assign", attr, v, line=ln, text=norm(s)), st))
            if isinstance(v, Unknown) and v.why == "fresh-empty-set":
                st.empty[attr] = "empty"
                for k in list(st.facts):
                    if k.startswith(f"in[{attr}]"):
                        st.facts[k] = False
            else:
                st.empty[attr] = "unknown"
                for k in list(st.facts):
                    if k.startswith(f"in[{attr}]"):
                        del st.facts[k]
            return
        if isinstance(v, CounterVal) and v.attr == attr and v.k > st.counter_k.get(attr, 0):
            # self.ctr = <value read from self.ctr> + n : the same advance as `self.ctr += n`
            st.effects.append(self.snap(Effect("counter", attr, v.k - st.counter_k.get(attr, 0), line=ln, text=norm(s)), st))
            st.counter_k[attr] = v.k
            return
        st.effects.append(self.snap(Effect("attr_assign", attr, v, line=ln, text=norm(s)), st))
        st.session.fields[attr] = v

    def aug_assign(self, s: ast.AugAssign, v: Any, st: PState) -> None:
        t = s.target
        if isinstance(t, ast.Attribute):
            bases = self.eval(t.value, st)
            base = bases[0][1] if len(bases) == 1 else None
            if self.is_session(base, st):
                if isinstance(s.op, ast.Add) and isinstance(v, Const) and isinstance(v.v, int):
                    st.effects.append(self.snap(Effect("counter", t.attr, v.v, line=s.lineno, text=norm(s)), st))
                    st.counter_k[t.attr] = st.counter_k.get(t.attr, 0) + v.v
                else:
                    st.effects.append(self.snap(Effect("attr_assign", t.attr, Unknown(f"aug {type(s.op).__name__} {desc(v)}"), line=s.lineno, text=norm(s)), st))
                return
            if isinstance(base, Obj):
                base.fields[t.attr] = Unknown("aug")
            return
        if isinstance(t, ast.Name):
            st.frames[-1]["locals"][t.id] = Unknown("aug")
            return
        raise AnalysisError(f"unsupported augmented assignment {norm(s)}")

    # ----------------------------------------------------------- expressions
    def eval(self, e: ast.expr, st: PState) -> List[Tuple[PState, Any]]:
        """Evaluate without forking (forks collapse to Unknown). Used for simple sub-expressions."""
        res = self.eval_x(e, st)
        ok = [(s2, v) for s2, v, o in res if o is None]
        if len(ok) == 1 and len(res) == 1:
            return ok
        return [(st, Unknown("multi"))]

    def eval_x(self, e: ast.expr, st: PState) -> List[Tuple[PState, Any, Optional[Outcome]]]:
        """Evaluate an expression; may fork (calls that may raise, inlined calls)."""
        fr = st.frames[-1]
        if isinstance(e, ast.Constant):
            return [(st, Const(e.value), None)]
        if isinstance(e, ast.Name):
            if e.id in fr["locals"]:
                return [(st, fr["locals"][e.id], None)]
            return [(st, self.global_name(e.id, st), None)]
        if isinstance(e, ast.Attribute):
            out = []
            for s2, b, o in self.eval_x(e.value, st):
                if o is not None:
                    out.append((s2, b, o))
                else:
                    out.append((s2, self.get_attr(b, e.attr, s2, e), None))
            return out
        if isinstance(e, ast.Call):
            if isinstance(e.func, ast.Name) and e.func.id == "isinstance" and len(e.args) == 2 and "isinstance" not in fr["locals"]:
                return [(s2, Const(t) if o is None else None, o) for s2, t, o in self.eval_cond(e, st)]
            return self.eval_call(e, st)
        if isinstance(e, (ast.BoolOp, ast.Compare, ast.UnaryOp)) and self.is_boolish(e, self.m.functions[fr["func"]].module):
            out = []
            for s2, truth, o in self.eval_cond(e, st):
                out.append((s2, Const(truth) if o is None else None, o))
            return out
        if isinstance(e, ast.BoolOp):
            # value-context `a or b`: evaluate operands for effects; result unknown unless simple
            out = []
            cur = [(st, None, None)]
            vals: List[Any] = []
            for sub in e.values:
                nx = []
                for s2, _, o in cur:
                    if o is not None:
                        out.append((s2, None, o))
                        continue
                    for s3, v, o3 in self.eval_x(sub, s2):
                        nx.append((s3, v, o3))
                cur = nx
            for s2, v, o in cur:
                if o is not None:
                    out.append((s2, None, o))
                else:
                    first = self.eval(e.values[0], s2)[0][1] if isinstance(e.op, ast.Or) else None
                    # `x or default`: keep the symbol (the default only replaces falsy values)
                    out.append((s2, Sym(f"({norm(e)})") if not isinstance(first, (Sym,)) else Sym(f"({norm(e)})"), None))
            return out
        if isinstance(e, ast.JoinedStr):
            return self._eval_parts([v.value for v in e.values if isinstance(v, ast.FormattedValue)], st, lambda vs: Unknown("str"))
        if isinstance(e, ast.List) and not e.elts:
            return [(st, ListV(), None)]
        if isinstance(e, (ast.Tuple, ast.List, ast.Set)):
            return self._eval_parts(list(e.elts), st, lambda vs: TupleV(tuple(vs)) if isinstance(e, ast.Tuple) else Unknown("display"))
        if isinstance(e, ast.Dict):
            return self._eval_parts([x for x in list(e.keys) + list(e.values) if x is not None], st, lambda vs: Unknown("display"))
        if isinstance(e, ast.BinOp):
            def binop(vs, e=e):
                a, b = vs
                if isinstance(e.op, ast.Add):
                    for x, y in ((a, b), (b, a)):
                        if isinstance(x, CounterVal) and isinstance(y, Const) and isinstance(y.v, int) and not isinstance(y.v, bool) and y.v >= 0:
                            return CounterVal(x.attr, x.k + y.v)
                return Unknown("binop")
            return self._eval_parts([e.left, e.right], st, binop)
        if isinstance(e, ast.UnaryOp):
            return self._eval_parts([e.operand], st, lambda vs: Unknown("unop"))
        if isinstance(e, ast.Subscript):
            def sub(vs):
                return Unknown("subscript")
            return self._eval_parts([e.value] + ([e.slice] if not isinstance(e.slice, ast.Slice) else [x for x in (e.slice.lower, e.slice.upper, e.slice.step) if x is not None]), st, sub)
        if isinstance(e, ast.IfExp):
            out = []
            for s2, truth, o in self.eval_cond(e.test, st):
                if o is not None:
                    out.append((s2, None, o))
                else:
                    out.extend(self.eval_x(e.body if truth else e.orelse, s2))
            return out
        if isinstance(e, (ast.GeneratorExp, ast.ListComp, ast.SetComp, ast.DictComp)):
            return [(st, Unknown("comprehension"), None)]
        if isinstance(e, ast.Lambda):
            return [(st, Unknown("lambda"), None)]
        if isinstance(e, ast.Compare):
            return self._eval_parts([e.left] + list(e.comparators), st, lambda vs: Unknown("compare"))
        if isinstance(e, ast.Starred):
            return self.eval_x(e.value, st)
        if isinstance(e, ast.NamedExpr):
            out = []
            for s2, v, o in self.eval_x(e.value, st):
                if o is None:
                    s2.frames[-1]["locals"][e.target.id] = v
                out.append((s2, v, o))
            return out
        raise AnalysisError(f"session interpreter: unsupported expression {type(e).__name__} `{norm(e)}`")

    def _eval_parts(self, parts: List[ast.expr], st: PState, build):
        cur = [(st, [], None)]
        for p in parts:
            nx = []
            for s2, vs, o in cur:
                if o is not None:
                    nx.append((s2, vs, o))
                    continue
                for s3, v, o3 in self.eval_x(p, s2):
                    nx.append((s3, vs + [v], o3))
            cur = nx
        return [(s2, build(vs) if o is None else None, o) for s2, vs, o in cur]

    def is_boolish(self, e: ast.expr, module: Optional[str] = None) -> bool:
        if isinstance(e, ast.BoolOp):
            return all(self.is_boolish(v, module) or isinstance(v, (ast.Call, ast.Name, ast.Attribute)) for v in e.values) and any(self.is_boolish(v, module) for v in e.values)
        if isinstance(e, ast.UnaryOp):
            return isinstance(e.op, ast.Not)
        if isinstance(e, ast.Call) and isinstance(e.func, ast.Name):
            if e.func.id == "isinstance":
                return True
            # a package predicate annotated `-> bool`
            for mod in ([module] if module else [SESSION_MOD]):
                q = self.m.resolve_name(mod, e.func.id)
                fi = self.m.functions.get(q) if q else None
                if fi is not None and not isinstance(fi.node, ast.Lambda) and fi.node.returns is not None and norm(fi.node.returns) == "bool":
                    return True
        return isinstance(e, ast.Compare)

    def global_name(self, name: str, st: PState) -> Any:
        fr = st.frames[-1]
        module = self.m.functions[fr["func"]].module
        q = self.m.resolve_name(module, name)
        if q and q in self.m.classes:
            return ClassV(q)
        if q and q in self.m.functions:
            return Unknown(f"func:{q}")
        if name in ("None", "True", "False"):
            return Const({"None": None, "True": True, "False": False}[name])
        if name in BUILTIN_EXC_PARENTS:
            return ClassV(name)
        if name == "object":
            return ClassV("object")
        return Unknown(f"global:{q or name}")

    def get_attr(self, b: Any, attr: str, st: PState, e: ast.expr) -> Any:
        if isinstance(b, Obj):
            if b.role == "session":
                if attr == "state":
                    return EnumV(STATE_ENUM, st.state) if st.state != "?" else Unknown("state")
                if attr in self.SET_ATTRS or attr in ("_outgoing_buffer", "_incoming_buffer"):
                    return AttrRef(attr)
                if attr == "_message_counter":
                    return CounterVal(attr, st.counter_k.get(attr, 0))
                if attr in b.fields:
                    return b.fields[attr]
                if self.m.find_method(b.cls, attr) is not None:
                    return BoundMethod(b, attr)
                return Sym(f"self.{attr}")
            if attr in b.fields:
                return b.fields[attr]
            if b.cls in self.m.classes and self.m.find_method(b.cls, attr) is not None:
                return BoundMethod(b, attr)
            if b.cls in self.m.classes:
                cc = self.m.class_const(b.cls, attr)
                if cc is not None and not any(f.name == attr and f.init for f in self.m.dataclass_fields(b.cls)):
                    return Unknown(f"classconst:{attr}")
            # lazily created symbolic field (incoming message / exception attributes)
            path = f"{b.path or b.role or 'obj'}.{attr}"
            if b.role in ("msg_in", "sub") or b.path:
                child = Obj("?", {}, role="sub", path=path) if attr in ("result",) else Sym(path)
                b.fields[attr] = child
                return child
            return Sym(path)
        if isinstance(b, ClassV):
            c = self.m.classes.get(b.q)
            if c is not None and c.is_enum and attr in c.consts:
                return EnumV(b.q, attr)
            if attr == "__setattr__" and b.q == "object":
                return Unknown("object.__setattr__")
            return Unknown(f"classattr:{b.q}.{attr}")
        if isinstance(b, EnumV):
            if attr == "value":
                return EnumV(b.cls, b.member, True)
            return Unknown("enumattr")
        if isinstance(b, SuperV):
            return BoundMethod(b, attr)
        if isinstance(b, (AttrRef, Sym, Unknown, Packed, CounterVal, Const, TupleV, ListV)):
            return BoundMethod(b, attr)
        return Unknown(f"attr:{attr}")

    # ----------------------------------------------------------- calls
    def eval_call(self, e: ast.Call, st: PState):
        fr = st.frames[-1]
        f = e.func
        # super()
        if isinstance(f, ast.Name) and f.id == "super" and not e.args:
            return [(st, SuperV(fr["cls"]), None)]
        # evaluate callee
        out = []
        for s2, fv, o in self.eval_x(f, st):
            if o is not None:
                out.append((s2, None, o))
                continue
            # evaluate args
            arg_exprs = list(e.args) + [k.value for k in e.keywords]

            def build(vs, e=e):
                return vs
            for s3, vs, o3 in self._eval_parts(arg_exprs, s2, build):
                if o3 is not None:
                    out.append((s3, None, o3))
                    continue
                pos = vs[: len(e.args)]
                kws = {k.arg: v for k, v in zip(e.keywords, vs[len(e.args):]) if k.arg}
                for k, v in zip(e.keywords, vs[len(e.args):]):
                    if k.arg is None:
                        if not isinstance(v, KwArgs):
                            raise AnalysisError(f"session interpreter: `**{norm(k.value)[:30]}` is not the frame's own keyword dictionary at {st.frames[-1]['func']}:{e.lineno}")
                        for nm, vv in v.items:
                            kws.setdefault(nm, vv)
                if any(isinstance(a, ast.Starred) for a in e.args):
                    raise AnalysisError(f"session interpreter: starred argument at {st.frames[-1]['func']}:{e.lineno}")
                out.extend(self.apply(fv, pos, kws, s3, e))
        return out

    def apply(self, fv: Any, pos: List[Any], kws: Dict[str, Any], st: PState, e: ast.Call):
        fr = st.frames[-1]
        ln = e.lineno
        # --- inlined method calls on session / super() / known objects
        if isinstance(fv, BoundMethod):
            recv, name = fv.recv, fv.name
            if isinstance(recv, SuperV):
                target = self.m.find_method(self.cls_q if self._frame_self_is_session(st) else fr["cls"], name, after=recv.cls_after)
                self_v = fr["self"]
                if target is None:
                    # builtin base (Exception.__init__ etc.)
                    return [(st, Const(None), None)]
                return self._inline(target, self_v, pos, kws, st)
            if isinstance(recv, Obj) and recv.role == "session":
                target = self.m.find_method(recv.cls, name)
                if target is None:
                    raise AnalysisError(f"unresolved self.{name}")
                return self._inline(target, recv, pos, kws, st)
            if isinstance(recv, AttrRef):
                return self.container_call(recv, name, pos, st, e)
            if isinstance(recv, Obj) and name == "pack":
                # message / control packing: leaves the session module; may raise on argument errors
                return self.external_call(f"{recv.cls}.pack", Packed(recv), st, e)
            if isinstance(recv, Obj) and recv.cls in self.m.classes:
                target = self.m.find_method(recv.cls, name)
                if target is not None and target.module == SESSION_MOD:
                    return self._inline(target, recv, pos, kws, st)
                return self.external_call(f"{recv.cls}.{name}", Unknown("ret"), st, e)
            if isinstance(recv, ListV):
                if name == "append" and len(pos) == 1:
                    v = pos[0]
                    recv.tags.add("incoming_msg" if isinstance(v, Unknown) and v.why == "incoming_msg" else
                                  ("msg_in" if isinstance(v, Obj) and v.role == "msg_in" else "other"))
                else:
                    recv.tags.add("other")
                return [(st, Const(None), None)]
            if isinstance(recv, (Sym, Unknown, Const, Packed, CounterVal, TupleV)):
                if name in ("append", "extend") and isinstance(recv, Unknown):
                    return [(st, Const(None), None)]
                if name == "get_remaining_data":
                    return [(st, Unknown(f"remaining({desc(recv)})"), None)]
                # a method on an opaque value (str.encode, list.append ...): pure, may raise only for encode/decode
                if name in ("encode", "decode"):
                    return self.external_call(f"str.{name}", Unknown("bytes"), st, e)
                return [(st, Unknown(f"call:{name}"), None)]
        # --- classes: constructors
        if isinstance(fv, ClassV):
            return self.construct(fv.q, pos, kws, st, e)
        if isinstance(fv, Unknown):
            if fv.why == "object.__setattr__" and len(pos) == 3:
                tgt, nm, val = pos
                if isinstance(tgt, Obj) and isinstance(nm, Const):
                    if tgt.role == "session":
                        self.session_attr_write(nm.v, val, st, e)
                    else:
                        tgt.fields[nm.v] = val
                        st.effects.append(self.snap(Effect("stamp", tgt, (nm.v, val), line=ln, text=norm(e)), st))
                    return [(st, Const(None), None)]
                raise AnalysisError(f"object.__setattr__ with non-constant target/name at {fr['func']}:{ln}")
            if fv.why.startswith("func:"):
                q = fv.why[5:]
                fi = self.m.functions[q]
                if fi.module == SESSION_MOD:
                    return self._inline(fi, None, pos, kws, st)
                if q.endswith("._messages.unpack_ldap_message"):
                    return self.external_call(q, Unknown("incoming_msg"), st, e)
                # a private helper of another package module (a moved decode loop, an options factory): interpreted like
                # a session-module function when the interpreter supports its body, an opaque external call otherwise
                if fi.cls is None and fi.module != "sansldap.asn1" and not isinstance(fi.node, ast.Lambda):
                    trial = st.clone()
                    try:
                        return self._inline(fi, None, pos, kws, trial)
                    except TooManyPaths:
                        raise
                    except AnalysisError:
                        pass
                return self.external_call(q, Unknown("ret"), st, e)
            if fv.why.startswith("global:"):
                nm = fv.why[7:].split(".")[-1]
                return self.builtin_call(nm, pos, kws, st, e)
        raise AnalysisError(f"session interpreter: cannot apply {desc(fv)} at {fr['func']}:{ln} `{norm(e)}`")

    def _frame_self_is_session(self, st: PState) -> bool:
        v = st.frames[-1]["self"]
        return isinstance(v, Obj) and v.role == "session"

    def _inline(self, fi, self_v, pos, kws, st: PState):
        names = fi.params()
        if fi.cls and not fi.is_staticmethod:
            names = names[1:]
        args = dict(zip(names, pos))
        args.update(kws)
        if len(st.frames) > 12:
            raise AnalysisError(f"inlining depth exceeded at {fi.qualname}")
        res = []
        for s2, o in self.call_function(fi, self_v, args, st):
            if o.kind == "raise":
                res.append((s2, None, o))
            else:
                res.append((s2, o.value, None))
        return res

    def construct(self, q: str, pos, kws, st: PState, e: ast.Call):
        c = self.m.classes.get(q)
        if c is None:
            if q in BUILTIN_EXC_PARENTS:
                return [(st, Obj(q, {"args": TupleV(tuple(pos))}, role="exc"), None)]
            return [(st, Unknown(f"new:{q}"), None)]
        if q.endswith(".ASN1Reader"):
            src = pos[0] if pos else Unknown("?")
            rid = f"reader#{len([e for e in st.effects if e.kind == 'reader']) + 1}"
            st.effects.append(self.snap(Effect("reader", rid, src, line=e.lineno, text=norm(e)), st))
            return [(st, Unknown(rid), None)]
        if c.is_enum:
            # EnumCls(value): conversion, ValueError on unknown values
            return self.external_call(f"{q}()", Sym(f"{c.name}({desc(pos[0]) if pos else ''})"), st, e, excs=["ValueError"])
        if c.is_dataclass:
            fields = [f for f in self.m.dataclass_fields(q) if f.init]
            vals: Dict[str, Any] = {}
            for f, v in zip(fields, pos):
                vals[f.name] = v
            vals.update(kws)
            return [(st, Obj(q, vals), None)]
        init = self.m.find_method(q, "__init__")
        o = Obj(q, {}, role="exc" if self._exc_is_sub(q, "Exception") or self._exc_is_sub(q, "BaseException") else "")
        if init is not None:
            res = []
            for s2, _v, oc in self._inline(init, o, pos, kws, st):
                res.append((s2, o if oc is None else None, oc))
            return res
        return [(st, o, None)]

    def builtin_call(self, nm: str, pos, kws, st: PState, e: ast.Call):
        if nm == "isinstance":
            raise AnalysisError("isinstance in value context")
        if nm == "set" and not pos:
            return [(st, Unknown("fresh-empty-set"), None)]
        if nm in ("bytearray", "bytes", "memoryview") and len(pos) == 1:
            return [(st, Unknown(f"{nm}({desc(pos[0])})"), None)]
        if nm == "len" and len(pos) == 1 and isinstance(pos[0], AttrRef):
            return [(st, Unknown(f"len:{pos[0].attr}"), None)]
        if nm in ("bytearray", "bytes", "list", "dict", "set", "len", "str", "type", "next", "int", "bool", "repr", "memoryview", "id", "sorted", "tuple", "min", "max", "any", "all", "iter", "enumerate", "zip", "range", "hash", "getattr"):
            return [(st, Unknown(nm), None)]
        if nm in ("setattr", "delattr", "exec", "eval", "vars"):
            raise AnalysisError(f"dynamic attribute access `{norm(e)}` in a session method")
        return self.external_call(nm, Unknown("ret"), st, e)

    def external_call(self, callee: str, ret: Any, st: PState, e: ast.Call, excs: Optional[List[str]] = None):
        """A call that leaves the session module: forks into the normal return
        and one raising path per exception class named by the handlers of the
        function (plus 'Other')."""
        fr = st.frames[-1]
        res = [(st, ret, None)]
        classes = excs
        if classes is None:
            classes = self.fork_classes(st)
        for c in classes:
            s2 = st.clone()
            s2.effects.append(self.snap(Effect("mayraise", callee, c, line=e.lineno, text=norm(e)), s2))
            res.append((s2, None, Outcome("raise", exc=ExcV(c, None, f"external:{callee}", e.lineno, fr["func"]))))
        return res

    def fork_classes(self, st: PState) -> List[str]:
        names: List[str] = []
        for fr in st.frames:
            node = self.m.functions[fr["func"]].node
            module = self.m.functions[fr["func"]].module
            for n in ast.walk(node):
                if isinstance(n, ast.ExceptHandler) and n.type is not None:
                    for t in (n.type.elts if isinstance(n.type, ast.Tuple) else [n.type]):
                        q = self.m.resolve_name(module, norm(t)) or norm(t)
                        if q in self.m.classes and self.m.classes[q].module == SESSION_MOD:
                            continue     # session-module exceptions are not raised by external code
                        if q not in names:
                            names.append(q)
        return names + ["Other"]

    def container_call(self, recv: AttrRef, name: str, pos, st: PState, e: ast.Call):
        fr = st.frames[-1]
        attr = recv.attr
        ln = e.lineno
        if attr in self.SET_ATTRS:
            if name == "add" and len(pos) == 1:
                st.effects.append(self.snap(Effect("set_add", attr, pos[0], line=ln, text=norm(e)), st))
                st.facts[self.in_key(attr, pos[0])] = True
                st.empty[attr] = "nonempty"
                return [(st, Const(None), None)]
            if name in ("remove", "discard") and len(pos) == 1:
                key = self.in_key(attr, pos[0])
                res = []
                known = st.facts.get(key)
                if name == "remove" and known is not True:
                    s2 = st.clone()
                    s2.effects.append(self.snap(Effect("implicit", "KeyError", f"{attr}.remove({desc(pos[0])}) without a live membership fact", line=ln, text=norm(e)), s2))
                    res.append((s2, None, Outcome("raise", exc=ExcV("KeyError", None, f"implicit:{attr}.remove", ln, fr["func"]))))
                st.effects.append(self.snap(Effect("set_" + name, attr, pos[0], line=ln, text=norm(e)), st))
                st.facts[key] = False
                st.empty[attr] = "unknown"
                res.append((st, Const(None), None))
                return res
            if name == "clear":
                st.effects.append(self.snap(Effect("set_assign", attr, Unknown("fresh-empty-set"), line=ln, text=norm(e)), st))
                st.empty[attr] = "empty"
                for k in list(st.facts):
                    if k.startswith(f"in[{attr}]"):
                        st.facts[k] = False
                return [(st, Const(None), None)]
            if name in ("copy", "__len__", "__contains__", "issubset", "issuperset", "isdisjoint", "union", "intersection", "difference"):
                return [(st, Unknown(name), None)]
            st.effects.append(self.snap(Effect("attr_call", attr, name, line=ln, text=norm(e)), st))
            st.empty[attr] = "unknown"
            for k in list(st.facts):
                if k.startswith(f"in[{attr}]"):
                    del st.facts[k]
            return [(st, Unknown(name), None)]
        # buffers
        if name == "extend" and len(pos) == 1:
            st.effects.append(self.snap(Effect("extend", attr, pos[0], line=ln, text=norm(e)), st))
            return [(st, Const(None), None)]
        if name in ("__len__", "copy", "hex", "find", "startswith", "endswith", "count", "index", "decode", "tobytes"):
            return [(st, Unknown(name), None)]
        st.effects.append(self.snap(Effect("attr_call", attr, name, line=ln, text=norm(e)), st))
        return [(st, Unknown(name), None)]

    # ----------------------------------------------------------- conditions
    def in_key(self, attr: str, v: Any) -> str:
        return f"in[{attr}]({desc(v)})"

    def eval_cond(self, e: ast.expr, st: PState, loop: bool = False) -> List[Tuple[PState, bool, Optional[Outcome]]]:
        """Evaluate a condition; forks on undetermined atoms, recording the
        chosen truth value as a fact so that later tests are consistent."""
        if isinstance(e, ast.BoolOp):
            is_and = isinstance(e.op, ast.And)
            cur = [(st, None, None)]      # (state, decided truth or None, outcome)
            for sub in e.values:
                nx = []
                for s2, dec, o in cur:
                    if o is not None or dec is not None:
                        nx.append((s2, dec, o))
                        continue
                    for s3, t, o3 in self.eval_cond(sub, s2):
                        if o3 is not None:
                            nx.append((s3, None, o3))
                        elif is_and and not t:
                            nx.append((s3, False, None))
                        elif (not is_and) and t:
                            nx.append((s3, True, None))
                        else:
                            nx.append((s3, None, None))
                cur = nx
            return [(s2, (dec if dec is not None else is_and), o) if o is None else (s2, False, o) for s2, dec, o in cur]
        if isinstance(e, ast.UnaryOp) and isinstance(e.op, ast.Not):
            return [(s2, (not t), o) for s2, t, o in self.eval_cond(e.operand, st)]
        if isinstance(e, ast.Call) and isinstance(e.func, ast.Name) and e.func.id == "isinstance" and len(e.args) == 2:
            out = []
            for s2, vs, o in self._eval_parts(list(e.args), st, lambda vs: vs):
                if o is not None:
                    out.append((s2, False, o))
                    continue
                v, k = vs
                out.extend(self.isinstance_cond(v, k, s2, e))
            return out
        if isinstance(e, ast.Compare) and len(e.ops) == 1:
            out = []
            for s2, vs, o in self._eval_parts([e.left, e.comparators[0]], st, lambda vs: vs):
                if o is not None:
                    out.append((s2, False, o))
                    continue
                out.extend(self.compare_cond(e.ops[0], vs[0], vs[1], s2, e))
            return out
        # truthiness of a value
        out = []
        for s2, v, o in self.eval_x(e, st):
            if o is not None:
                out.append((s2, False, o))
                continue
            out.extend(self.truthy(v, s2, e, loop))
        return out

    def fork_atom(self, key: str, st: PState, e: ast.expr):
        if key in st.facts:
            return [(st, st.facts[key], None)]
        res = []
        for t in (True, False):
            s2 = st.clone()
            s2.facts[key] = t
            s2.effects.append(self.snap(Effect("guard", key[:100], t, line=getattr(e, "lineno", 0)), s2))
            res.append((s2, t, None))
        return res

    def truthy(self, v: Any, st: PState, e: ast.expr, loop: bool = False):
        if isinstance(v, Const):
            return [(st, bool(v.v), None)]
        if isinstance(v, ListV):
            return [(st, bool(v.tags), None)]
        if isinstance(v, Obj):
            return [(st, True, None)]
        if isinstance(v, EnumV):
            return [(st, True, None)]
        if self._len_attr(v) is not None:
            v = AttrRef(self._len_attr(v))
        if isinstance(v, AttrRef) and v.attr in self.SET_ATTRS:
            em = st.empty.get(v.attr, "unknown")
            if em == "empty":
                return [(st, False, None)]
            if em == "nonempty":
                return [(st, True, None)]
            res = []
            for t in (True, False):
                s2 = st.clone()
                s2.empty[v.attr] = "nonempty" if t else "empty"
                if not t:
                    for k in list(s2.facts):
                        if k.startswith(f"in[{v.attr}]"):
                            s2.facts[k] = False
                s2.effects.append(self.snap(Effect("guard", f"self.{v.attr} non-empty", t, line=getattr(e, "lineno", 0)), s2))
                res.append((s2, t, None))
            return res
        if loop:
            # loop conditions on opaque values are not remembered: 0 or 1 iteration
            return [(st.clone(), True, None), (st, False, None)]
        return self.fork_atom(f"truthy({desc(v)})", st, e)

    def isinstance_cond(self, v: Any, k: Any, st: PState, e: ast.expr):
        ks = list(k.items) if isinstance(k, TupleV) else [k]
        if isinstance(v, Obj) and v.cls != "?":
            for kk in ks:
                if isinstance(kk, ClassV) and (self.m.is_subclass(v.cls, kk.q) or self._exc_is_sub(v.cls, kk.q)):
                    return [(st, True, None)]
            if all(isinstance(kk, ClassV) for kk in ks):
                return [(st, False, None)]
        if isinstance(v, Const) and v.v is None:
            return [(st, False, None)]
        return self.fork_atom(f"isinstance({desc(v)},{desc(k)})", st, e)

    NOTICE = ("sansldap._session.ExtendedOperations", "LDAP_NOTICE_OF_DISCONNECTION")

    def norm_operand(self, v: Any) -> Any:
        if isinstance(v, EnumV):
            c = self.m.classes.get(v.cls)
            # a (str, Enum) / IntEnum member compares equal to its value
            if c is not None and any(b in ("str", "int") or b.endswith("IntEnum") for b in c.mro):
                return ("enum", v.cls, v.member)
            return ("enum", v.cls, v.member, v.as_value)
        return v

    @staticmethod
    def _len_attr(v: Any) -> Optional[str]:
        return v.why[4:] if isinstance(v, Unknown) and v.why.startswith("len:") else None

    def compare_cond(self, op: ast.cmpop, a: Any, b: Any, st: PState, e: ast.expr):
        # len(self.<set>) compared with a small constant is an emptiness test
        for x, y, flip in ((a, b, False), (b, a, True)):
            attr = self._len_attr(x)
            if attr is not None and isinstance(y, Const) and isinstance(y.v, int) and not isinstance(y.v, bool):
                n = y.v
                name = type(op).__name__
                if flip:
                    name = {"Lt": "Gt", "Gt": "Lt", "LtE": "GtE", "GtE": "LtE"}.get(name, name)
                nonempty = {("Gt", 0): True, ("GtE", 1): True, ("NotEq", 0): True, ("Eq", 0): False, ("Lt", 1): False, ("LtE", 0): False}.get((name, n))
                if nonempty is not None:
                    return [(s2, t == nonempty, o) for s2, t, o in self.truthy(AttrRef(attr), st, e)]
        if isinstance(op, (ast.In, ast.NotIn)):
            neg = isinstance(op, ast.NotIn)
            if isinstance(b, AttrRef) and b.attr in self.SET_ATTRS:
                key = self.in_key(b.attr, a)
                if key in st.facts:
                    return [(st, st.facts[key] != neg, None)]
                if st.empty.get(b.attr) == "empty":
                    st.facts[key] = False
                    return [(st, neg, None)]
                res = []
                for t in (True, False):
                    s2 = st.clone()
                    s2.facts[key] = t
                    if t:
                        s2.empty[b.attr] = "nonempty"
                    # recorded polarity-normalised: `<x> in self.<set>` with the truth of the MEMBERSHIP, however the test was spelled
                    s2.effects.append(self.snap(Effect("guard", f"{desc(a)} in self.{b.attr}", t, line=getattr(e, "lineno", 0), text=norm(e)[:100]), s2))
                    res.append((s2, t != neg, None))
                return res
            return self.fork_atom(f"in({desc(a)},{desc(b)})", st, e)
        if isinstance(op, (ast.Is, ast.IsNot, ast.Eq, ast.NotEq)):
            neg = isinstance(op, (ast.IsNot, ast.NotEq))
            na, nb = self.norm_operand(a), self.norm_operand(b)
            # both concrete
            conc = lambda x: isinstance(x, (Const, tuple, ClassV))
            if conc(na) and conc(nb):
                return [(st, (na == nb) != neg, None)]
            if isinstance(a, (Obj, Packed)) and isinstance(b, Const) and b.v is None:
                return [(st, neg, None)]          # an object / the bytes of a packed message are never None
            if isinstance(b, (Obj, Packed)) and isinstance(a, Const) and a.v is None:
                return [(st, neg, None)]
            if isinstance(a, Obj) and isinstance(b, Obj):
                return [(st, (a is b) != neg, None)]
            # canonical atom
            ka, kb = sorted([self._opkey(na), self._opkey(nb)])
            singleton = lambda x: isinstance(x, Const) and (x.v is None or isinstance(x.v, bool))
            if isinstance(op, (ast.Is, ast.IsNot)) and not singleton(a) and not singleton(b):
                # identity of non-singletons: identical implies equal, but not identical says nothing about equality
                # (a caller may pass an equal str for a str-enum member)
                ikey, ekey = f"is({ka},{kb})", f"eq({ka},{kb})"
                res = []
                if st.facts.get(ekey) is False:
                    return [(st, neg, None)]
                for s2, t, o in self.fork_atom(ikey, st, e):
                    if t:
                        s2.facts[ekey] = True
                    res.append((s2, t != neg, o))
                return res
            res = []
            for s2, t, o in self.fork_atom(f"eq({ka},{kb})", st, e):
                res.append((s2, t != neg, o))
            return res
        return self.fork_atom(f"cmp:{type(op).__name__}({desc(a)},{desc(b)})", st, e)

    @staticmethod
    def _opkey(x: Any) -> str:
        if isinstance(x, tuple):
            return ".".join(str(i).split(".")[-1] for i in x[1:3])
        return desc(x)
