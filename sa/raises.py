"""Engine C - inter-procedural may-raise / exception-provenance analysis."""
from __future__ import annotations

import ast
import os
from dataclasses import dataclass
from typing import Dict, FrozenSet, List, Optional, Set, Tuple

from .facts import always_exits, Fact, FactFlow, const_int, names_in
from .resolve import BUILTIN_METHOD_NAMES, UNK, Resolver, prim
from .session import BUILTIN_EXC_PARENTS
from .srcmodel import AnalysisError, FuncInfo, Model, norm, walk_no_nested

INF = float("inf")
_ASSUMER = object.__new__(FactFlow)     # assume() needs no per-function state


@dataclass(frozen=True)
class Esc:
    exc: str           # qualified package class, builtin name, or "Other"
    func: str          # origin function
    text: str          # normalised origin construct
    line: int
    kind: str          # explicit | implicit | recursion | unknown-call
    prov: str = "-"    # NotEnougData provenance: self | param:<i> | derived | local:<name> | -
    why: str = ""      # for implicit: what was not established

    def short(self) -> str:
        return f"{self.exc.split('.')[-1]} @ {self.func.split('sansldap.')[-1]}:{self.line} `{self.text[:70]}` [{self.kind}{' ' + self.prov if self.prov != '-' else ''}]"


def split_ctx(self_cls: Optional[str]):
    """(self class, {param: exact class}) of a summary key's context component `Cls|p=Class,...`."""
    if self_cls is None or "|" not in self_cls:
        return self_cls, {}
    head, tail = self_cls.split("|", 1)
    return (head or None), dict(kv.split("=", 1) for kv in tail.split(",") if kv)


def exc_is_sub(m: Model, c: str, base: str) -> bool:
    if c == base:
        return True
    if c == "Other":
        return False
    if c in m.classes:
        for k in m.classes[c].mro:
            if k == base:
                return True
            if k not in m.classes and exc_is_sub(m, k.split(".")[-1] if k.split(".")[-1] in BUILTIN_EXC_PARENTS else k, base):
                return True
        return False
    cur = c
    seen = 0
    while cur is not None and seen < 20:
        if cur == base:
            return True
        cur = BUILTIN_EXC_PARENTS.get(cur)
        seen += 1
    return False


# builtin / stdlib calls: name -> exceptions they may raise on the argument kinds used in this code base.
PURE = {
    "len", "bool", "isinstance", "issubclass", "range", "enumerate", "zip", "list", "tuple", "dict", "set", "frozenset", "str", "repr",
    "memoryview", "type", "id", "hash", "sorted", "reversed", "min", "max", "sum", "any", "all", "iter", "abs", "callable", "print",
    "super", "object", "dataclasses.field", "dataclasses.dataclass", "enum.auto", "t.TypeVar", "typing.TypeVar", "t.cast", "re.escape",
    "getattr", "hasattr", "format", "bytearray", "bytes", "vars",
}
PURE_METHODS = {
    "str": {"strip", "lstrip", "rstrip", "upper", "lower", "casefold", "startswith", "endswith", "split", "rsplit", "partition", "rpartition",
            "join", "replace", "find", "isdigit", "isalpha", "isalnum", "format", "splitlines", "title", "count", "zfill", "ljust", "rjust"},
    "bytes": {"strip", "lstrip", "rstrip", "upper", "lower", "startswith", "endswith", "split", "rsplit", "partition", "join", "replace", "find", "hex", "count", "rjust", "ljust"},
    "bytearray": {"strip", "startswith", "endswith", "split", "join", "replace", "find", "hex", "copy", "reverse", "clear", "count"},
    "memoryview": {"tobytes", "hex", "tolist", "release", "cast"},
    "byteslike": {"tobytes", "hex"},
    "list": {"append", "extend", "copy", "clear", "reverse", "sort", "count", "insert"},
    "dict": {"get", "items", "keys", "values", "copy", "setdefault", "update", "clear"},
    "dictlit": {"get", "items", "keys", "values"},
    "set": {"add", "discard", "copy", "clear", "update", "union", "intersection", "difference", "issubset", "issuperset", "isdisjoint"},
    "match": {"group", "groups", "groupdict", "start", "end", "span"},
    "pattern": {"match", "search", "fullmatch", "findall", "finditer", "split"},
    "int": {"bit_length"},
    "strlike": {"strip", "lstrip", "rstrip", "split", "upper", "lower", "startswith", "endswith", "replace"},
    "tuple": {"count"},
    "exception": set(),
    "range": set(),
}
NONSTRICT_ERRORS = {"surrogateescape", "replace", "ignore", "backslashreplace", "xmlcharrefreplace", "namereplace", "surrogatepass"}
TOTAL_DECODE_ERRORS = {"surrogateescape", "replace", "ignore", "backslashreplace"}
TOTAL_ENCODE_ERRORS = {"replace", "ignore", "backslashreplace", "xmlcharrefreplace", "namereplace"}


MAXSIZE = 2 ** 63 - 1       # sys.maxsize on the 64-bit CPython this library targets (assumption recorded in the evidence)


class MayRaise:
    def __init__(self, model: Model, resolver: Optional[Resolver] = None):
        self.m = model
        self.r = resolver or Resolver(model)
        self.summ: Dict[Tuple[str, Optional[str]], FrozenSet[Esc]] = {}
        self.edges: Dict[Tuple[str, Optional[str]], Set[Tuple[str, Optional[str]]]] = {}
        self.edge_sites: Dict[Tuple[Tuple[str, Optional[str]], Tuple[str, Optional[str]]], Tuple[str, int]] = {}
        self.flows: Dict[str, FactFlow] = {}
        self.implicit_sites: List[dict] = []      # every catalogued implicit-raiser site with its verdict
        self.unknown_calls: List[str] = []
        self.recursion_keys: Set[Tuple[str, Optional[str]]] = set()
        self._site_seen: Set[Tuple[str, int, str]] = set()
        self.changed = False
        self._done: Set = set()
        self._alias_cache: Dict = {}
        self._pf_cache: Dict[str, FrozenSet[Fact]] = {}
        self._pf_settled = False
        self._cpt_cache: Dict = {}
        self._retiv: Dict[str, Tuple[float, float]] = {}
        self._pf_busy: Set[str] = set()
        self._exact_cache: Dict = {}

    # ------------------------------------------------------------------ API
    def escapes(self, qual: str, self_cls: Optional[str] = None) -> FrozenSet[Esc]:
        key = (qual, self_cls)
        if key not in self.summ:
            self.summ[key] = frozenset()
        self.fixpoint()
        return self.summ[key]

    def fixpoint(self) -> None:
        """Worklist fixpoint: a summary is recomputed when it is new or a callee's summary changed."""
        for _outer in range(10):
            work = [k for k in self.summ if k not in self._done]
            guard = 0
            while work:
                guard += 1
                if guard > 20000:
                    raise AnalysisError("may-raise fixpoint did not converge")
                key = work.pop()
                before = set(self.summ)
                new = self.compute(key)
                self._done.add(key)
                for k in set(self.summ) - before:
                    work.append(k)
                redo = self.__dict__.setdefault("_redo", set())
                for k in list(redo):
                    self._done.discard(k)
                    if k not in work:
                        work.append(k)
                redo.clear()
                if new != self.summ.get(key):
                    self.summ[key] = new
                    for caller, callees in self.edges.items():
                        if key in callees and caller not in work:
                            work.append(caller)
            added = self.add_recursion()
            if not added:
                return
            for k in self.recursion_keys:
                self._done.discard(k)
        raise AnalysisError("may-raise fixpoint did not converge")

    def add_recursion(self) -> bool:
        # Tarjan SCC on self.edges
        index: Dict = {}
        low: Dict = {}
        stack: List = []
        on: Set = set()
        sccs: List[List] = []
        counter = [0]
        import sys
        sys.setrecursionlimit(10000)

        def strong(v):
            index[v] = low[v] = counter[0]
            counter[0] += 1
            stack.append(v)
            on.add(v)
            for w in self.edges.get(v, ()):
                if w not in index:
                    strong(w)
                    low[v] = min(low[v], low[w])
                elif w in on:
                    low[v] = min(low[v], index[w])
            if low[v] == index[v]:
                comp = []
                while True:
                    w = stack.pop()
                    on.discard(w)
                    comp.append(w)
                    if w == v:
                        break
                sccs.append(comp)
        for v in list(self.edges):
            if v not in index:
                strong(v)
        new = False
        for comp in sccs:
            cyc = len(comp) > 1 or comp[0] in self.edges.get(comp[0], ())
            if cyc:
                for k in comp:
                    if k not in self.recursion_keys:
                        self.recursion_keys.add(k)
                        new = True
        return new

    # ------------------------------------------------------------------ per function
    def flow_for(self, fi: FuncInfo) -> FactFlow:
        if fi.qualname not in self.flows:
            def nn(call, fi=fi):
                t = self.r.type_of(call, fi)
                return t not in (UNK, prim("none")) and t[0] not in ("opt", "dictget", "typevar")
            self.flows[fi.qualname] = FactFlow(fi.node, ival=lambda e, facts, fi=fi: self.ival(e, facts, fi), nn_call=nn,
                                               ret_nonneg=lambda call, i, fi=fi: self.ret_component_nonneg(call, i, fi),
                                               init_facts=self.param_facts(fi), pred_inline=lambda call, fi=fi: self.predicate_body(call, fi),
                                               ret_facts=lambda call, names, fi=fi: self.return_facts(call, names, fi))
        return self.flows[fi.qualname]

    def return_facts(self, call: ast.Call, names: List[str], fi: FuncInfo) -> Set[Fact]:
        """Facts that hold at every `return (a, b, ...)` of the same-module helper being called and mention only returned
        names (relations between components included: `kind == ":" or PATTERN.match(attribute)`), renamed to `names`."""
        from .facts import fact_names, rename_fact
        if not isinstance(call.func, ast.Name):
            return set()
        q = self.m.resolve_name(fi.module, call.func.id)
        hf = self.m.functions.get(q) if q else None
        if hf is None or hf is fi or hf.cls is not None or isinstance(hf.node, ast.Lambda) or hf.module != fi.module:
            return set()
        stack = self.__dict__.setdefault("_rf_stack", set())
        if hf.qualname in stack:
            return set()
        stack.add(hf.qualname)
        try:
            fl = self.flow_for(hf)
        finally:
            stack.discard(hf.qualname)
        memo = self.__dict__.setdefault("_rf_memo", {})
        mk = (hf.qualname, tuple(names), id(fl))
        if mk in memo:
            return memo[mk]
        shape = self.__dict__.setdefault("_rf_shape", {})
        if hf.qualname not in shape:
            shape[hf.qualname] = ([r for r in walk_no_nested(hf.node) if isinstance(r, ast.Return)],
                                  set(hf.params()) | {x.id for x in walk_no_nested(hf.node) if isinstance(x, ast.Name) and isinstance(x.ctx, ast.Store)})
        rets, locals_ = shape[hf.qualname]
        common: Optional[Set[Fact]] = None
        for r in rets:
            v = r.value
            if not (isinstance(v, ast.Tuple) and len(v.elts) == len(names)):
                return set()
            comp = {e_.id: n_ for e_, n_ in zip(v.elts, names) if isinstance(e_, ast.Name)}
            if len(set(comp)) != len([e_ for e_ in v.elts if isinstance(e_, ast.Name)]):
                return set()
            got: Set[Fact] = set()
            for f in fl.facts_at.get(id(r), frozenset()):
                ns = fact_names(f)
                free = {n_ for n_ in ns if n_ not in comp}
                # what is left must be module-level names (patterns, constants), not locals or parameters of the helper
                if ns & set(comp) and not (free & locals_):
                    got.add(rename_fact(f, comp))
            common = got if common is None else (common & got)
        memo[mk] = common or set()
        return memo[mk]

    def predicate_body(self, call: ast.Call, fi: FuncInfo, depth: int = 0) -> Optional[ast.expr]:
        """`helper(a, b)` where helper is a module-level function whose body is one `return <expr>`: that expression with the
        parameters replaced by the (side-effect free) arguments"""
        import copy
        if not isinstance(call.func, ast.Name) or call.keywords and any(k.arg is None for k in call.keywords):
            return None
        q = self.m.resolve_name(fi.module, call.func.id)
        hf = self.m.functions.get(q) if q else None
        if hf is None or hf.cls is not None or isinstance(hf.node, ast.Lambda) or hf.node.decorator_list or hf is fi:
            return None
        body = [s_ for s_ in hf.node.body if not (isinstance(s_, ast.Expr) and isinstance(s_.value, ast.Constant))]
        if len(body) != 1 or not isinstance(body[0], ast.Return) or body[0].value is None:
            return None
        a = hf.node.args
        if a.vararg or a.kwarg or any(isinstance(x, ast.Starred) for x in call.args):
            return None
        ps = [p.arg for p in a.posonlyargs + a.args + a.kwonlyargs]
        bound = dict(zip([p.arg for p in a.posonlyargs + a.args], call.args))
        bound.update({k.arg: k.value for k in call.keywords if k.arg in ps})
        if set(bound) != set(ps):
            return None
        if any(isinstance(x, (ast.Call, ast.Lambda, ast.NamedExpr, ast.Await)) for v in bound.values() for x in ast.walk(v)):
            return None

        class S(ast.NodeTransformer):
            def visit_Name(self, n: ast.Name):
                if n.id in bound and isinstance(n.ctx, ast.Load):
                    return copy.deepcopy(bound[n.id])
                return n
        out = S().visit(copy.deepcopy(body[0].value))
        # names of the helper's module must mean the same thing at the call site
        if hf.module != fi.module:
            return None
        ast.fix_missing_locations(ast.copy_location(out, call))
        return out

    def param_facts(self, fi: FuncInfo) -> FrozenSet[Fact]:
        """Facts about the parameters of a private module-level helper that hold at every call site in the package (see
        settle_param_facts)."""
        if not self._pf_settled:
            self.settle_param_facts()
        return self._pf_cache.get(fi.qualname, frozenset())

    def _pf_candidates(self):
        """private module-level functions that are only ever called directly, with their call sites"""
        out = {}
        for q, fi in list(self.m.functions.items()):
            if fi.cls is not None or isinstance(fi.node, ast.Lambda) or not fi.name.startswith("_") or "<locals>" in q:
                continue
            sites: List[Tuple[FuncInfo, ast.Call]] = []
            escaped = False
            for cq, cfi in list(self.m.functions.items()):
                if isinstance(cfi.node, ast.Lambda) or fi.name not in self.m.modules[cfi.module].source:
                    continue
                calls = {id(n.func) for n in ast.walk(cfi.node) if isinstance(n, ast.Call)}
                for n in walk_no_nested(cfi.node):
                    if isinstance(n, ast.Name) and isinstance(n.ctx, ast.Load) and n.id == fi.name and self.m.resolve_name(cfi.module, n.id) == fi.qualname and id(n) not in calls:
                        escaped = True          # passed around as a value: call sites unknown
                    if isinstance(n, ast.Call) and isinstance(n.func, ast.Name) and self.m.resolve_name(cfi.module, n.func.id) == fi.qualname:
                        sites.append((cfi, n))
            if escaped or not sites or any(c.qualname == fi.qualname for c, _ in sites):
                continue
            out[q] = (fi, sites)
        # methods of private classes (and private methods of any class) whose name is unique among the package's classes and
        # which are only ever mentioned as the callee of a direct `<receiver>.name(...)` call: those calls are all the call sites
        defined: Dict[str, List[FuncInfo]] = {}
        for q, fi in list(self.m.functions.items()):
            if fi.cls is not None and not isinstance(fi.node, ast.Lambda) and "<locals>" not in q:
                defined.setdefault(fi.name, []).append(fi)
        for name, fis in defined.items():
            if len(fis) != 1 or name.startswith("__") or name in BUILTIN_METHOD_NAMES:
                continue
            fi = fis[0]
            cname = fi.cls.rsplit(".", 1)[-1]
            if not (name.startswith("_") or cname.startswith("_")) or fi.decorators:
                continue
            sites = []
            escaped = False
            for cq, cfi in list(self.m.functions.items()):
                if isinstance(cfi.node, ast.Lambda) or name not in self.m.modules[cfi.module].source:
                    continue
                calls = {id(n.func): n for n in ast.walk(cfi.node) if isinstance(n, ast.Call)}
                for n in walk_no_nested(cfi.node):
                    if isinstance(n, ast.Attribute) and n.attr == name:
                        if id(n) in calls and isinstance(n.ctx, ast.Load):
                            sites.append((cfi, calls[id(n)]))
                        else:
                            escaped = True
                    elif isinstance(n, ast.Constant) and n.value == name:
                        escaped = True          # the name as a string: getattr and friends
            for mi in self.m.modules.values():
                for n in mi.tree.body:
                    stmts = [n] if not isinstance(n, ast.ClassDef) else [x for x in n.body if not isinstance(x, (ast.FunctionDef, ast.AsyncFunctionDef))]
                    for st in stmts:
                        if isinstance(st, (ast.FunctionDef, ast.AsyncFunctionDef)):
                            continue
                        if any(isinstance(x, ast.Attribute) and x.attr == name or isinstance(x, ast.Constant) and x.value == name
                               or isinstance(x, ast.Name) and x.id == name for x in ast.walk(st)):
                            escaped = True
            if escaped or not sites or any(c.qualname == fi.qualname for c, _ in sites):
                continue
            out[fi.qualname] = (fi, sites)
        return out

    def settle_param_facts(self) -> None:
        """Greatest fixpoint of the assumption `every int parameter of a private helper is >= 0`: assume it for all helpers at
        once, analyse every call site under the assumptions, drop the ones that do not hold, repeat.  What survives holds by
        induction on call depth.  A last pass adds the facts that are results rather than assumptions (exact ranges,
        one-character strings, index/buffer pairs)."""
        self._pf_settled = True
        cands = self._pf_candidates()
        info = {}
        hyp: Dict[str, Set[str]] = {}
        for q, (fi, sites) in cands.items():
            a_ = fi.node.args
            allp = a_.posonlyargs + a_.args
            annos = {a.arg: (norm(a.annotation) if a.annotation is not None else "") for a in allp + a_.kwonlyargs}
            defaults = {p_.arg: d for p_, d in zip(allp[len(allp) - len(a_.defaults):], a_.defaults)}
            defaults.update({p_.arg: d for p_, d in zip(a_.kwonlyargs, a_.kw_defaults) if d is not None})
            stores = {x.id for x in walk_no_nested(fi.node) if isinstance(x, ast.Name) and isinstance(x.ctx, ast.Store)}
            info[q] = (annos, defaults, stores)
            hyp[q] = {p_ for p_ in fi.params() if annos.get(p_) == "int"}       # facts at entry; later re-binding is the flow engine's business

        def arg_of(q, call: ast.Call, i: int, p_: str):
            defaults = info[q][1]
            if any(isinstance(x, ast.Starred) for x in call.args) or any(k.arg is None for k in call.keywords):
                return None, False
            if cands[q][0].cls is not None:
                if i == 0:
                    return None, False      # the receiver
                i -= 1
            if i < len(call.args):
                return call.args[i], False
            for k in call.keywords:
                if k.arg == p_:
                    return k.value, False
            return (defaults[p_], True) if p_ in defaults else (None, False)

        def install(final: Optional[Dict[str, FrozenSet[Fact]]] = None):
            self._pf_cache = dict(final) if final is not None else \
                {q: frozenset({("GE0", p_) for p_ in ps} | {("INT", p_, 0, INF) for p_ in ps}) for q, ps in hyp.items()}
            self.flows.clear()
            self._retiv.clear()
            self._retnn.clear()

        def measure(q) -> Set[Fact]:
            fi, sites = cands[q]
            annos, defaults, stores = info[q]
            ps = fi.params()
            out: Set[Fact] = set()
            for i, p_ in enumerate(ps):
                lo, hi = INF, -INF
                one_char = True
                for cfi, call in sites:
                    a, is_default = arg_of(q, call, i, p_)
                    if a is None:
                        lo, hi, one_char = -INF, INF, False
                        break
                    if not (isinstance(a, ast.Constant) and isinstance(a.value, (str, bytes)) and len(a.value) == 1):
                        one_char = False
                    cf = frozenset() if is_default else self.flow_for(cfi).facts_at.get(id(call), frozenset())
                    al, ah = self.ival(a, cf, fi if is_default else cfi)
                    lo, hi = min(lo, al), max(hi, ah)
                if lo >= 0 and annos.get(p_) == "int":
                    out.add(("GE0", p_))
                    out.add(("INT", p_, lo, hi))
                if one_char:
                    out.add(("LEN==", p_, "1"))
                # non-empty at every call site: a name known to be true there, or a plain copy / view of one (bytes(x), memoryview(x))
                if p_ not in stores and any(k in annos.get(p_, "") for k in ("bytes", "bytearray", "memoryview", "str", "List", "Sequence")):
                    nonempty = True
                    for cfi, call in sites:
                        a, is_default = arg_of(q, call, i, p_)
                        if a is None or is_default:
                            nonempty = False
                            break
                        base = a
                        while isinstance(base, ast.Call) and isinstance(base.func, ast.Name) and base.func.id in ("bytes", "bytearray", "memoryview") and len(base.args) == 1 and not base.keywords:
                            base = base.args[0]
                        if isinstance(base, ast.Call) and isinstance(base.func, ast.Attribute) and base.func.attr == "tobytes" and not base.args:
                            base = base.func.value
                        cf = self.flow_for(cfi).facts_at.get(id(call), frozenset())
                        if not (isinstance(base, (ast.Name, ast.Attribute)) and ("T", norm(base)) in cf):
                            nonempty = False
                            break
                    if nonempty and sites:
                        out.add(("T", p_))
                # D[p] with D a module-level dict literal: every call site passes an expression that is literally one of D's keys
                for sub in walk_no_nested(fi.node):
                    if isinstance(sub, ast.Subscript) and isinstance(sub.value, ast.Name) and isinstance(sub.slice, ast.Name) and sub.slice.id == p_ and p_ not in stores:
                        dsts = [x for x in self.m.modules[fi.module].globals_.get(sub.value.id, []) if isinstance(x, (ast.Assign, ast.AnnAssign))]
                        if len(dsts) == 1 and isinstance(dsts[0].value, ast.Dict) and all(k is not None for k in dsts[0].value.keys):
                            keys = {norm(k) for k in dsts[0].value.keys}
                            okk = True
                            for cfi, call in sites:
                                a, is_default = arg_of(q, call, i, p_)
                                if a is None or norm(a) not in keys or (cfi.module != fi.module and not is_default):
                                    okk = False
                                    break
                            if okk:
                                out.add(("IN", p_, sub.value.id))
            for i, p_ in enumerate(ps):
                if annos.get(p_) != "int":
                    continue
                for j, v_ in enumerate(ps):
                    if not any(k in annos.get(v_, "") for k in ("bytes", "bytearray", "memoryview")):
                        continue
                    ok_all = True
                    for cfi, call in sites:
                        ai, _d1 = arg_of(q, call, i, p_)
                        av, d2 = arg_of(q, call, j, v_)
                        if ai is None or av is None or d2:
                            ok_all = False
                            break
                        cf = self.flow_for(cfi).facts_at.get(id(call), frozenset())
                        okk, _ = self.index_in_range(norm(av), ai, cf)
                        if not okk:
                            ok_all = False
                            break
                    if ok_all:
                        out.add(("LTLEN", p_, v_))
                        out.add(("GE0", p_))
                        out.add(("T", v_))
            return out
        for _round in range(6):
            install()
            changed = False
            for q in cands:
                got = {f[1] for f in measure(q) if f[0] == "GE0"}
                if os.environ.get("SA_DEBUG_PF") and not hyp[q] <= got:
                    print("PF round", _round, q, "assumed", sorted(hyp[q]), "got", sorted(got))
                if not hyp[q] <= got:
                    hyp[q] &= got
                    changed = True
            if not changed:
                break
        else:
            for q in hyp:
                hyp[q] = set()
        install()
        final = {q: frozenset(measure(q)) for q in cands}
        # keep only facts whose non-negativity part was an assumption that survived (the rest was measured under them: still sound)
        install(final)

    def ret_ival(self, callee: FuncInfo) -> Tuple[float, float]:
        """Hull of the integer intervals of every value the function returns."""
        if isinstance(callee.node, ast.Lambda):
            return (-INF, INF)
        if callee.qualname in self._retiv:
            return self._retiv[callee.qualname]
        self.param_facts(callee)          # settle the parameter hypothesis first: it may need this very interval (computed under it)
        if callee.qualname in self._retiv:
            return self._retiv[callee.qualname]
        self._retiv[callee.qualname] = (-INF, INF)         # in progress: no information
        fl = self.flow_for(callee)
        lo, hi = INF, -INF
        rets = [r for r in walk_no_nested(callee.node) if isinstance(r, ast.Return)]
        if not rets:
            lo, hi = -INF, INF
        for r in rets:
            if r.value is None:
                lo, hi = -INF, INF
                break
            a, b = self.ival(r.value, fl.facts_at.get(id(r), frozenset()), callee)
            lo, hi = min(lo, a), max(hi, b)
        self._retiv[callee.qualname] = (lo, hi)
        return (lo, hi)

    def _pf(self, fi: FuncInfo, v: FrozenSet[Fact]) -> FrozenSet[Fact]:
        self._pf_cache[fi.qualname] = v
        return v

    def ret_component_nonneg(self, call: ast.Call, idx: int, fi: FuncInfo) -> bool:
        """Every callee returns a tuple whose idx-th component is a non-negative int
        (optimistic for recursive cycles: induction on call depth)."""
        res = self.r.callees(call, fi, None)
        if res[0] != "funcs" or not res[1]:
            return False
        for callee in res[1]:
            k = (callee.qualname, idx)
            if k in self._retnn:
                if not self._retnn[k]:
                    return False
                continue
            self._retnn[k] = True          # hypothesis while checking the body
            ok = True
            fl = self.flow_for(callee)
            rets = [n for n in walk_no_nested(callee.node) if isinstance(n, ast.Return)]
            if not rets:
                ok = False
            for r_ in rets:
                v = r_.value
                if not (isinstance(v, ast.Tuple) and idx < len(v.elts)):
                    ok = False
                    break
                f = fl.facts_at.get(id(r_), frozenset())
                if not fl.nonneg(v.elts[idx], f):
                    ok = False
                    break
            self._retnn[k] = ok
            if not ok:
                # hypotheses that depended on this one must be recomputed
                for kk in list(self._retnn):
                    if kk != k and self._retnn[kk]:
                        del self._retnn[kk]
                self.flows.pop(callee.qualname, None)
                return False
        return True

    _retnn: Dict = {}

    def compute(self, key) -> FrozenSet[Esc]:
        qual, self_cls = key
        fi = self.m.functions.get(qual)
        if fi is None:
            raise AnalysisError(f"function {qual} vanished")
        self.edges.setdefault(key, set())
        self_cls, pcls = split_ctx(self_cls)
        ctx = {"fi": fi, "self_cls": self_cls, "pcls": pcls, "key": key, "caught": frozenset(), "handler_var": None}
        if isinstance(fi.node, ast.Lambda):
            out = self.expr_escapes(fi.node.body, ctx)
        else:
            out = self.block(fi.node.body, ctx)
        if key in self.recursion_keys:
            out = out | {Esc("RecursionError", qual, f"recursive call cycle through {qual.split('.')[-1]}", fi.lineno, "recursion")}
        return frozenset(out)

    def block(self, stmts: List[ast.stmt], ctx) -> Set[Esc]:
        out: Set[Esc] = set()
        for s in stmts:
            out |= self.stmt(s, ctx)
            # inside a handler: `if isinstance(e, X): <leaves>` narrows what `e` (and a bare raise) can be afterwards
            if isinstance(s, ast.If) and ctx.get("handler_var") and not s.orelse and always_exits(s.body):
                nar = self.narrow_handler(ctx, s.test, False)
                if nar is not None:
                    ctx = nar
        return out

    def narrow_handler(self, ctx, test: ast.expr, truth: bool):
        """the handler context under `test` being `truth`, when test is [not] isinstance(<handler variable>, <classes>)"""
        hv = ctx.get("handler_var")
        if isinstance(test, ast.UnaryOp) and isinstance(test.op, ast.Not):
            return self.narrow_handler(ctx, test.operand, not truth)
        if not (hv and isinstance(test, ast.Call) and isinstance(test.func, ast.Name) and test.func.id == "isinstance" and len(test.args) == 2
                and isinstance(test.args[0], ast.Name) and test.args[0].id == hv):
            return None
        fi: FuncInfo = ctx["fi"]
        names = test.args[1].elts if isinstance(test.args[1], ast.Tuple) else [test.args[1]]
        qs = [self.m.resolve_name(fi.module, norm(n)) or norm(n) for n in names]

        def inst(e: Esc) -> bool:
            return any(q in ("Exception", "BaseException") or exc_is_sub(self.m, e.exc, q) for q in qs)
        kept = frozenset(e for e in ctx["caught"] if inst(e) == truth)
        hvs = dict(ctx.get("handler_vars") or {})
        hvs[hv] = kept
        return dict(ctx, caught=kept, handler_vars=hvs)

    def handler_matches(self, e: Esc, h: ast.ExceptHandler, module: str) -> bool:
        if h.type is None:
            return True
        names = h.type.elts if isinstance(h.type, ast.Tuple) else [h.type]
        for n in names:
            q = self.m.resolve_name(module, norm(n)) or norm(n)
            if q in ("Exception", "BaseException"):
                return True
            if exc_is_sub(self.m, e.exc, q):
                return True
        return False

    def unbound_in_handler(self, t: ast.Try, h: ast.ExceptHandler, ctx) -> Set[Esc]:
        """A handler that reads a local which is first bound inside the try body, when a statement at or before that binding
        can raise something the handler catches: the read raises UnboundLocalError."""
        fi: FuncInfo = ctx["fi"]
        if isinstance(fi.node, ast.Lambda):
            return set()
        loads = {}
        for b in h.body:
            for x in ast.walk(b):
                if isinstance(x, ast.Name) and isinstance(x.ctx, ast.Load):
                    loads.setdefault(x.id, x)
        if not loads:
            return set()
        params = set(fi.params())
        a_ = fi.node.args
        if a_.vararg:
            params.add(a_.vararg.arg)
        if a_.kwarg:
            params.add(a_.kwarg.arg)
        in_try = {id(x) for b in t.body for x in ast.walk(b)}
        out: Set[Esc] = set()
        for name, node in loads.items():
            if name in params or name == h.name:
                continue
            stores = [x for x in ast.walk(fi.node) if isinstance(x, ast.Name) and x.id == name and isinstance(x.ctx, ast.Store)]
            stores += [x for x in ast.walk(fi.node) if isinstance(x, ast.ExceptHandler) and x.name == name]
            if not stores or any(id(x) not in in_try and getattr(x, "lineno", 0) < t.lineno for x in stores):
                continue          # not a local, or (possibly) bound before the try statement
            if any(id(x) not in in_try for x in stores):
                continue          # also bound elsewhere after the try (a loop could get here again): not decided
            # index of the first top-level statement of the try body that binds the name unconditionally
            first = None
            for i, b in enumerate(t.body):
                if any(isinstance(x, ast.Name) and x.id == name and isinstance(x.ctx, ast.Store) for x in ast.walk(b)):
                    first = i
                    break
            if first is None:
                continue
            for b in t.body[:first + 1]:
                raised = self.stmt(b, ctx)
                if any(self.handler_matches(e, h, fi.module) for e in raised):
                    why = f"`{name}` is first bound by `{norm(t.body[first])[:50]}` inside the try; `{norm(b)[:50]}` can raise something this handler catches before that"
                    esc = self.site(ctx, node, "unbound-local", "UnboundLocalError", False, why)
                    if esc:
                        out.add(esc)
                    break
        return out

    def stmt(self, s: ast.stmt, ctx) -> Set[Esc]:
        fi: FuncInfo = ctx["fi"]
        out: Set[Esc] = set()
        if isinstance(s, ast.Try):
            body = self.block(s.body, ctx)
            remaining = set(body)
            for h in s.handlers:
                caught = {e for e in remaining if self.handler_matches(e, h, fi.module)}
                remaining -= caught
                hv = dict(ctx.get("handler_vars") or {})
                if h.name:
                    hv[h.name] = frozenset(caught)
                hctx = dict(ctx, caught=frozenset(caught), handler_var=h.name, handler_vars=hv)
                out |= self.block(h.body, hctx)
                out |= self.unbound_in_handler(s, h, ctx)
            out |= remaining
            out |= self.block(s.orelse, ctx)
            out |= self.block(s.finalbody, ctx)
            return out
        if isinstance(s, ast.Raise):
            if s.exc is None:
                return set(ctx["caught"])
            if s.cause is not None:
                out |= self.expr_escapes(s.cause, ctx)
            ex = s.exc
            if isinstance(ex, ast.Name) and ex.id == ctx.get("handler_var"):
                return out | set(ctx["caught"])
            if isinstance(ex, ast.Name) and ex.id in (ctx.get("handler_vars") or {}):
                return out | set(ctx["handler_vars"][ex.id])
            cls_expr = ex.func if isinstance(ex, ast.Call) else ex
            if isinstance(ex, ast.Call):
                for a in list(ex.args) + [k.value for k in ex.keywords]:
                    out |= self.expr_escapes(a, ctx)
            q = self.m.resolve_name(fi.module, norm(cls_expr)) or norm(cls_expr)
            if isinstance(ex, ast.Call) and q in self.m.classes:
                # building the exception runs the class's own __init__ / __post_init__: whatever that can raise replaces the exception
                for mname in ("__init__", "__post_init__"):
                    mt = self.m.find_method(q, mname)
                    if mt is not None and not (mname == "__init__" and self.m.classes[q].is_dataclass):
                        out |= self.call_summary(mt, q, ctx, ex, recv=None)
            if q not in self.m.classes and q not in BUILTIN_EXC_PARENTS:
                q = "Other"
            prov = "-"
            if fi.module != "sansldap.asn1":
                from .anchors import is_incomplete
                if is_incomplete(self.m, q):
                    # "not all of the value has arrived" announced by code outside the reader primitives: it does not speak for any
                    # reader's untouched input (the decoders have consumed the envelope by the time they can tell)
                    prov = "derived"
            out.add(Esc(q, fi.qualname, norm(s)[:120], s.lineno, "explicit", prov))
            return out
        if isinstance(s, (ast.FunctionDef, ast.AsyncFunctionDef, ast.ClassDef, ast.Import, ast.ImportFrom, ast.Pass, ast.Break, ast.Continue, ast.Global, ast.Nonlocal)):
            return out
        if isinstance(s, ast.With):
            for item in s.items:
                out |= self.expr_escapes(item.context_expr, ctx)
                t = self.r.strip_opt(self.r.type_of(item.context_expr, fi))
                if t[0] == "inst":
                    for mname in ("__enter__", "__exit__"):
                        mt = self.m.find_method(t[1], mname)
                        if mt is not None:
                            out |= self.call_summary(mt, None, ctx, item.context_expr, recv=None)
            return out | self.block(s.body, ctx)
        if isinstance(s, (ast.If, ast.While)):
            out |= self.expr_escapes(s.test, ctx)
            if isinstance(s, ast.If) and ctx.get("handler_var"):
                ct, cf = self.narrow_handler(ctx, s.test, True), self.narrow_handler(ctx, s.test, False)
                if ct is not None and cf is not None:
                    return out | self.block(s.body, ct) | self.block(s.orelse, cf)
            return out | self.block(s.body, ctx) | self.block(s.orelse, ctx)
        if isinstance(s, ast.For):
            out |= self.expr_escapes(s.iter, ctx)
            return out | self.block(s.body, ctx) | self.block(s.orelse, ctx)
        if isinstance(s, (ast.Assign, ast.AnnAssign, ast.AugAssign)):
            val = s.value
            if val is not None:
                out |= self.expr_escapes(val, ctx)
            tgts = s.targets if isinstance(s, ast.Assign) else [s.target]
            for t in tgts:
                out |= self.target_escapes(t, s, ctx)
            if isinstance(s, ast.AugAssign):
                out |= self.aug_store_escapes(s, ctx)
            return out
        if isinstance(s, ast.Expr):
            return self.expr_escapes(s.value, ctx)
        if isinstance(s, ast.Return):
            return self.expr_escapes(s.value, ctx) if s.value is not None else out
        if isinstance(s, ast.Delete):
            for t in s.targets:
                out |= self.expr_escapes(t, ctx)
            return out
        if isinstance(s, ast.Assert):
            out |= self.expr_escapes(s.test, ctx)
            # the statement raises AssertionError whenever the test is false (the package is not run with -O by its users' choice):
            # safe only where the very test is already established on every path that reaches it
            from .srcmodel import dominating_literals
            lits = dominating_literals(fi.node, s) if not isinstance(fi.node, ast.Lambda) else []
            established = norm(s.test) in lits or (isinstance(s.test, ast.Constant) and bool(s.test.value))
            if not established and isinstance(s.test, ast.Compare) and len(s.test.ops) == 2 and isinstance(s.test.ops[0], ast.LtE) and \
                    isinstance(s.test.ops[1], ast.Lt) and const_int(s.test.left) is not None and const_int(s.test.comparators[1]) is not None:
                # `assert lo <= x < hi` (the range guard the canonical form puts in front of a constant-table lookup): the interval of x decides it
                lo_, hi_ = self.ival(s.test.comparators[0], self.facts(s, ctx), fi)
                established = const_int(s.test.left) <= lo_ and hi_ < const_int(s.test.comparators[1])
            esc = self.site(ctx, s, "assert", "AssertionError", established, "the asserted condition is established by an enclosing test" if established else
                            f"nothing on the way here establishes `{norm(s.test)[:50]}`")
            if esc:
                out.add(esc)
            return out
        raise AnalysisError(f"may-raise: unsupported statement {type(s).__name__} at {fi.qualname}:{s.lineno}")

    # ------------------------------------------------------------------ expressions
    def facts(self, node: ast.AST, ctx) -> FrozenSet[Fact]:
        if isinstance(ctx["fi"].node, ast.Lambda):
            # a lambda has one expression: what is known about its parameters at every place it is called holds throughout
            return self.__dict__.get("_lambda_entry", {}).get(ctx["fi"].qualname, frozenset())
        fl = self.flow_for(ctx["fi"])
        return fl.facts_at.get(id(node), frozenset())

    def note_lambda_call(self, callee: FuncInfo, e: ast.Call, ctx) -> None:
        """facts about the plain-name arguments at this call site, renamed to the lambda's parameters, met with what earlier call
        sites established"""
        lam = callee.node
        ps = [a.arg for a in lam.args.posonlyargs + lam.args.args]
        site_facts = self.facts(e, ctx)
        entry: Set[Fact] = set()
        for p_, a in zip(ps, e.args):
            if isinstance(a, ast.Name):
                for f in site_facts:
                    if f[0] in ("T", "NN", "GE0") and f[1] == a.id and len(f) == 2:
                        entry.add((f[0], p_))
                    elif f[0] in ("LEN>=", "LEN==") and f[1] == a.id and len(f) == 3 and _is_int(f[2]):
                        entry.add((f[0], p_, f[2]))
        store = self.__dict__.setdefault("_lambda_entry", {})
        old = store.get(callee.qualname)
        new = frozenset(entry) if old is None else (old & frozenset(entry))
        if new != old:
            store[callee.qualname] = new
            for k in list(self.summ):
                if k[0] == callee.qualname and k in self._done:
                    self.__dict__.setdefault("_redo", set()).add(k)

    def site(self, ctx, node: ast.AST, what: str, exc: str, ok: bool, why: str) -> Optional[Esc]:
        fi: FuncInfo = ctx["fi"]
        k = (fi.qualname, getattr(node, "lineno", 0), norm(node)[:100] + what)
        if k not in self._site_seen:
            self._site_seen.add(k)
            self.implicit_sites.append({"function": fi.qualname, "construct": norm(node)[:100], "kind": what, "exception": exc,
                                        "verdict": "safe" if ok else "may-raise", "reason": why, "line": getattr(node, "lineno", 0)})
        if ok:
            return None
        return Esc(exc, fi.qualname, norm(node)[:120], getattr(node, "lineno", 0), "implicit", "-", why)

    def expr_escapes(self, e: Optional[ast.expr], ctx) -> Set[Esc]:
        out: Set[Esc] = set()
        if e is None:
            return out
        fi: FuncInfo = ctx["fi"]
        if isinstance(e, ast.Lambda):
            return out
        if isinstance(e, ast.Call):
            out |= self.call_escapes(e, ctx)
            return out
        if isinstance(e, ast.Subscript) and isinstance(e.ctx, ast.Load):
            out |= self.expr_escapes(e.value, ctx)
            if isinstance(e.slice, ast.Slice):
                for x in (e.slice.lower, e.slice.upper, e.slice.step):
                    out |= self.expr_escapes(x, ctx)
                return out
            out |= self.expr_escapes(e.slice, ctx)
            esc = self.subscript_check(e, ctx)
            if esc:
                out.add(esc)
            return out
        if isinstance(e, ast.Attribute):
            out |= self.expr_escapes(e.value, ctx)
            esc = self.none_attr_check(e, ctx)
            if esc:
                out.add(esc)
            return out
        if isinstance(e, (ast.ListComp, ast.SetComp, ast.GeneratorExp, ast.DictComp)):
            for g in e.generators:
                out |= self.expr_escapes(g.iter, ctx)
                for c in g.ifs:
                    out |= self.expr_escapes(c, ctx)
            if isinstance(e, ast.DictComp):
                out |= self.expr_escapes(e.key, ctx) | self.expr_escapes(e.value, ctx)
            else:
                out |= self.expr_escapes(e.elt, ctx)
            return out
        if isinstance(e, ast.BinOp):
            esc = self.none_operand_check(e, ctx)
            if esc:
                out.add(esc)
            if isinstance(e.op, (ast.LShift, ast.RShift)) and const_int(e.right) is None:
                esc = self.shift_count_check(e, ctx)
                if esc:
                    out.add(esc)
        for ch in ast.iter_child_nodes(e):
            if isinstance(ch, ast.FormattedValue):
                out |= self.expr_escapes(ch.value, ctx)
                out |= self.stringify_escapes(ch.value, "repr" if ch.conversion == ord("r") else "str", ctx, ch)
            elif isinstance(ch, ast.expr):
                out |= self.expr_escapes(ch, ctx)
            elif isinstance(ch, ast.keyword):
                out |= self.expr_escapes(ch.value, ctx)
        return out

    # -- a shift by a negative count raises ValueError
    def shift_count_check(self, e: ast.BinOp, ctx) -> Optional[Esc]:
        fi: FuncInfo = ctx["fi"]
        facts = self.facts(e, ctx)
        cnt = e.right

        def comp_range_nonneg(name: str) -> bool:
            """name is the target of a comprehension / for over range(...) that only yields non-negative numbers"""
            node = fi.node.body if isinstance(fi.node, ast.Lambda) else fi.node
            for x in ast.walk(node):
                gens = x.generators if isinstance(x, (ast.ListComp, ast.GeneratorExp, ast.SetComp, ast.DictComp)) else []
                for g in gens:
                    if isinstance(g.target, ast.Name) and g.target.id == name and isinstance(g.iter, ast.Call) and isinstance(g.iter.func, ast.Name) and g.iter.func.id == "range":
                        a = g.iter.args
                        if len(a) == 1:
                            return True
                        step = const_int(a[2]) if len(a) == 3 else 1
                        if step is None:
                            return False
                        if step > 0:
                            lo = self.ival(a[0], frozenset(), fi)[0]
                            return lo >= 0
                        stop = const_int(a[1])
                        return stop is not None and stop >= -1
            return False

        def nonneg(x: ast.expr) -> bool:
            ci = const_int(x)
            if ci is not None:
                return ci >= 0
            lo, _hi = self.ival(x, facts, fi)
            if lo >= 0:
                return True
            if isinstance(x, ast.Name):
                return ("GE0", x.id) in facts or comp_range_nonneg(x.id)
            if isinstance(x, ast.BinOp) and isinstance(x.op, (ast.Mult, ast.Add)):
                return nonneg(x.left) and nonneg(x.right)
            if isinstance(x, ast.BinOp) and isinstance(x.op, ast.Sub):
                # V - a - b ...: one subtrahend i with  i < V  (or i <= V) known, the others literals
                subs = []
                cur = x
                while isinstance(cur, ast.BinOp) and isinstance(cur.op, ast.Sub):
                    subs.append(cur.right)
                    cur = cur.left
                if isinstance(cur, ast.Name):
                    names = [s_ for s_ in subs if isinstance(s_, ast.Name)]
                    consts = [const_int(s_) for s_ in subs if not isinstance(s_, ast.Name)]
                    if len(names) == 1 and all(c is not None for c in consts):
                        i, total = names[0].id, sum(consts)
                        if any(f[0] == "LT" and f[1] == i and f[2] == cur.id for f in facts) and total <= 1:
                            return True
                        if any(f[0] == "LE" and f[1] == i and f[2] == cur.id for f in facts) and total <= 0:
                            return True
                    if not names and all(c is not None for c in consts):
                        lo2, _ = self.ival(cur, facts, fi)
                        return lo2 - sum(consts) >= 0
            return False
        ok = nonneg(cnt)
        return self.site(ctx, e, "shift-count", "ValueError", ok, f"shift count `{norm(cnt)[:40]}` is not known to be non-negative")

    # -- arithmetic on a possibly-None operand
    def none_operand_check(self, e: ast.BinOp, ctx) -> Optional[Esc]:
        fi: FuncInfo = ctx["fi"]
        if not isinstance(e.op, (ast.Add, ast.Sub, ast.Mult, ast.FloorDiv, ast.Div, ast.Mod, ast.LShift, ast.RShift, ast.BitAnd, ast.BitOr, ast.BitXor, ast.Pow)):
            return None
        for side in (e.left, e.right):
            if not isinstance(side, (ast.Name, ast.Attribute)):
                continue
            t = self.r.type_of(side, fi)
            if t[0] != "opt" or self.r.strip_opt(t) not in (prim("int"), prim("str"), prim("bytes"), prim("bool")):
                continue
            txt = norm(side)
            facts = self.facts(e, ctx) or self.facts(side, ctx)
            ok = ("NN", txt) in facts or ("T", txt) in facts
            esc = self.site(ctx, e, "operand-optional", "TypeError", ok, f"`{txt}` may be None here (no dominating test) and takes part in arithmetic")
            if esc:
                return esc
        return None

    # -- str() / repr() / format() of package objects runs their own __str__ / __repr__
    def stringify_escapes(self, value: ast.expr, mode: str, ctx, site: ast.AST) -> Set[Esc]:
        fi: FuncInfo = ctx["fi"]
        out: Set[Esc] = set()
        classes: List[str] = []
        if isinstance(value, ast.Name) and value.id in (ctx.get("handler_vars") or {}):
            classes = sorted({x.exc for x in ctx["handler_vars"][value.id] if x.exc in self.m.classes})
            for cq in classes:
                out |= self._stringify_class(cq, mode, ctx, site, set(), exact=True)
            return out
        try:
            t = self.r.type_of(value, fi)
        except Exception:
            return out
        return self._stringify_type(t, mode, ctx, site, set())

    def _stringify_type(self, t, mode: str, ctx, site, seen: Set[str]) -> Set[Esc]:
        out: Set[Esc] = set()
        t = self.r.strip_opt(t)
        if t[0] == "list":
            return self._stringify_type(t[1], "repr", ctx, site, seen)
        if t[0] == "tuple":
            for x in t[1]:
                out |= self._stringify_type(x, "repr", ctx, site, seen)
            return out
        if t[0] == "dict" and len(t) > 2:
            return self._stringify_type(t[1], "repr", ctx, site, seen) | self._stringify_type(t[2], "repr", ctx, site, seen)
        if t[0] == "inst" and t[1] in self.m.classes:
            return self._stringify_class(t[1], mode, ctx, site, seen, exact=False)
        return out

    def _stringify_class(self, cq: str, mode: str, ctx, site, seen: Set[str], exact: bool) -> Set[Esc]:
        out: Set[Esc] = set()
        for k in ([cq] if exact else self.m.subclasses(cq)):
            if (k, mode) in seen:
                continue
            seen.add((k, mode))
            c = self.m.classes[k]
            mt = self.m.find_method(k, "__str__") if mode == "str" else None
            if mt is None:
                mt = self.m.find_method(k, "__repr__")
            if mt is not None and not isinstance(mt.node, ast.Lambda):
                out |= self.call_summary(mt, k, ctx, site, recv=None)
                continue
            if c.is_dataclass and not c.is_enum:
                # the generated __repr__ shows every field with repr()
                for f in self.m.dataclass_fields(k):
                    if f.annotation is not None:
                        out |= self._stringify_type(self.r.anno(self.m.classes[f.owner].module, f.annotation), "repr", ctx, site, seen)
        return out

    # -- attribute on a possibly-None receiver
    def none_attr_check(self, e: ast.Attribute, ctx) -> Optional[Esc]:
        fi: FuncInfo = ctx["fi"]
        if not isinstance(e.value, (ast.Name, ast.Call, ast.Attribute)):
            return None
        t = self.r.type_of(e.value, fi)
        if t[0] != "opt":
            return None
        txt = norm(e.value)
        facts = self.facts(e, ctx) or self.facts(e.value, ctx)
        ok = ("NN", txt) in facts or ("T", txt) in facts
        if not ok and self.group_never_none(e.value, fi):
            return self.site(ctx, e, "attr-on-optional", "AttributeError", True, f"`{txt}`: the group takes part in every match of the pattern")
        return self.site(ctx, e, "attr-on-optional", "AttributeError", ok, f"`{txt}` may be None here (no dominating test)")

    def group_never_none(self, e: ast.expr, fi: FuncInfo) -> bool:
        """e is M.group(k) / M[k] and every pattern M can be a match of has group k on its unconditional spine"""
        from .rx.sites import always_participating, find_sites
        if isinstance(e, ast.Call) and isinstance(e.func, ast.Attribute) and e.func.attr == "group" and len(e.args) == 1 and isinstance(e.args[0], ast.Constant):
            recv, key = e.func.value, e.args[0].value
        elif isinstance(e, ast.Subscript) and isinstance(e.slice, ast.Constant):
            recv, key = e.value, e.slice.value
        else:
            return False
        if not isinstance(recv, ast.Name) or not isinstance(key, (int, str)) or isinstance(key, bool):
            return False
        sites = self.__dict__.get("_rx_sites")
        if sites is None:
            try:
                sites = find_sites(self.m)
            except Exception:
                sites = []
            self._rx_sites = sites
        pats = []
        if recv.id in fi.params() and not self._rebound(recv.id, fi):
            # the parameter of a substitution callback
            top = fi.qualname
            for s_ in sites:
                if s_.callback is not None and isinstance(s_.callback, ast.Name):
                    q = self.m.resolve_name(s_.module, s_.callback.id)
                    host = self.m.functions.get(s_.func)
                    nested = f"{s_.func}.<locals>.{s_.callback.id}"
                    if q == top or nested == top:
                        pats.append((s_.pattern, s_.flags))
            if not pats:
                return False
        else:
            binds = [a.value for a in walk_no_nested(fi.node) if isinstance(a, (ast.Assign, ast.AnnAssign)) and a.value is not None and
                     any(isinstance(t_, ast.Name) and t_.id == recv.id for t_ in (a.targets if isinstance(a, ast.Assign) else [a.target]))]
            if not binds:
                return False
            for b in binds:
                hit = [s_ for s_ in sites if s_.node is b]
                if len(hit) != 1 or hit[0].api not in ("match", "fullmatch", "search"):
                    return False
                pats.append((hit[0].pattern, hit[0].flags))
        return all(always_participating(p_, f_, key) for p_, f_ in pats)

    # -- subscripts
    def subscript_check(self, e: ast.Subscript, ctx, store: bool = False) -> Optional[Esc]:
        fi: FuncInfo = ctx["fi"]
        bt = self.r.strip_opt(self.r.type_of(e.value, fi))
        facts = self.facts(e, ctx)
        x = norm(e.value)
        idx = e.slice
        # typing constructs (t.List[...]) never reach here: annotations are not walked
        if bt == prim("match") and isinstance(idx, ast.Constant) and isinstance(idx.value, (str, int)) and not store:
            # m["name"] is m.group("name"): that the group exists is decided against the pattern itself (C17 G2 / C15)
            self.implicit_sites.append({"function": fi.qualname, "construct": norm(e)[:100], "kind": "match-subscript", "exception": "IndexError",
                                        "verdict": "deferred", "reason": "group existence decided by the regular-expression analysis", "line": e.lineno})
            return None
        if bt[0] in ("dict", "dictlit") and store:
            return self.site(ctx, e, "dict-store", "KeyError", True, "dict item assignment never raises KeyError")
        if bt[0] in ("dict",):
            ok = ("IN", norm(idx), x) in facts
            return self.site(ctx, e, "dict-subscript", "KeyError", ok, f"no live fact `{norm(idx)} in {x}`")
        if bt[0] == "dictlit":
            ok = ("IN", norm(idx), x) in facts
            return self.site(ctx, e, "dict-subscript", "KeyError", ok, f"no live fact `{norm(idx)} in {x}`")
        # struct.unpack("B", ...)[0]
        if isinstance(e.value, ast.Call) and norm(e.value.func) == "struct.unpack":
            fmt = e.value.args[0] if e.value.args else None
            ci = const_int(idx)
            if isinstance(fmt, ast.Constant) and isinstance(fmt.value, str) and ci is not None:
                import struct as _s
                try:
                    n = len(_s.unpack(fmt.value, bytes(_s.calcsize(fmt.value))))
                except Exception:
                    n = 0
                ok = -n <= ci < n
                return self.site(ctx, e, "tuple-index", "IndexError", ok, f"struct format {fmt.value!r} yields {n} item(s)")
        if bt[0] == "tuple":
            ci = const_int(idx)
            ok = ci is not None and -len(bt[1]) <= ci < len(bt[1])
            return self.site(ctx, e, "tuple-index", "IndexError", ok, "index outside the fixed-size tuple")
        if bt[0] == "inst" and bt[1] in self.m.classes and any(b.endswith("NamedTuple") for b in self.m.classes[bt[1]].bases):
            ci = const_int(idx)
            n = len(self.m.classes[bt[1]].annos)
            ok = ci is not None and -n <= ci < n
            return self.site(ctx, e, "tuple-index", "IndexError", ok, "index outside the NamedTuple")
        ok, why = self.index_in_range(x, idx, facts)
        return self.site(ctx, e, "sequence-index" + ("-store" if store else ""), "IndexError", ok, why)

    def index_in_range(self, x: str, idx: ast.expr, facts: FrozenSet[Fact]) -> Tuple[bool, str]:
        ci = const_int(idx)
        nonempty = ("T", x) in facts or any(f[0] in ("LEN>=", "LEN==") and f[1] == x and _ge1(f[2]) for f in facts) or any(f[0] == "IDX" and f[2] == x for f in facts)
        if ci is not None:
            if ci in (0, -1):
                return (nonempty, f"`{x}` is not known to be non-empty")
            need = ci + 1 if ci >= 0 else -ci
            ok = any(f[0] == "LEN>=" and f[1] == x and _const_ge(f[2], need) for f in facts)
            return ok, f"len({x}) >= {need} not established"
        it = norm(idx)

        def is_idx(v: str) -> bool:
            if ("IDX", v, x) in facts:
                return True
            if ("IDXM1", v, x) in facts and (("NE", v, "-1") in facts or any(f[0] == "INT" and f[1] == v and f[2] >= 0 for f in facts)):
                return True
            return False
        if isinstance(idx, ast.BinOp) and isinstance(idx.op, ast.Sub) and isinstance(idx.left, ast.Name) and const_int(idx.right) == 1 and is_idx(idx.left.id):
            return True, "0 <= i < len(x), so i-1 >= -1 is a valid (possibly wrapping) index"
        if isinstance(idx, ast.BinOp) and isinstance(idx.op, ast.Add) and isinstance(idx.left, ast.Name) and isinstance(idx.right, ast.Name):
            for i_, r_ in ((idx.left.id, idx.right.id), (idx.right.id, idx.left.id)):
                for f in facts:
                    # i < V  with  V = len(x) - r   =>  i + r < len(x);  i >= 0 and r >= 0  =>  i + r >= 0
                    if f[0] == "LT" and f[1] == i_ and ("DEFLENSUB", f[2], x, r_) in facts:
                        if (("GE0", i_) in facts) and (("GE0", r_) in facts or any(g[0] == "INT" and g[1] == r_ and g[2] >= 0 for g in facts)):
                            return True, f"{i_} < {f[2]} = len({x}) - {r_} and both are non-negative"
        if isinstance(idx, ast.Name):
            if is_idx(it):
                return True, "index variable ranges over the sequence"
            for f in facts:
                if f[0] == "LENMINUS" and f[1] == it and f[2] == x:
                    nn = ("GE0", it) in facts or any(g[0] == "INT" and g[1] == it and g[2] >= 0 for g in facts) or \
                        any(g[0] in ("LT", "LE") and g[2] == it and _const_ge(g[1], 0) for g in facts) or (f[3] == 1 and nonempty)
                    if nn:
                        return True, f"{it} = len({x}) - {f[3]} and is not negative here"
            nonneg_it = ("GE0", it) in facts or any(f[0] == "LE" and f[2] == it and (_const_ge(f[1], 0) or ("GE0", f[1]) in facts) for f in facts)
            if ("LTLEN", it, x) in facts and nonneg_it:
                return True, "0 <= i < len(x) by loop guard"
            if nonneg_it and ("LEN>=", x, f"{it} + 1") in facts:
                return True, "len(x) >= i + 1 was checked"
            # i < N (range bound) and N <= len(x) (an earlier length check)
            if nonneg_it and any(f[0] == "LT" and f[1] == it and (("LEN>=", x, f[2]) in facts or ("ISLEN", f[2], x) in facts) for f in facts):
                return True, "0 <= i < N <= len(x)"
            # same-length alias: IDX(i, y) with SAMELEN(x, y)
            for f in facts:
                if f[0] == "IDX" and f[1] == it and (("SAMELEN", x, f[2]) in facts or ("SAMELEN", f[2], x) in facts):
                    return True, "index ranges over a same-length copy"
            return False, f"no fact bounds `{it}` by len({x})"
        if isinstance(idx, ast.BinOp) and isinstance(idx.op, ast.Sub) and isinstance(idx.left, ast.Name) and const_int(idx.right) == 1:
            i = idx.left.id
            if ("IDX", i, x) in facts:
                return True, "i in range(len(x)) so i-1 >= -1 is a valid (possibly wrapping) index"
            # 1 <= i <= len(x)-1 ... handled by bounds engine
        return False, f"index expression `{it}` not bounded by a recognised idiom"

    def target_escapes(self, t: ast.expr, s: ast.stmt, ctx) -> Set[Esc]:
        out: Set[Esc] = set()
        fi: FuncInfo = ctx["fi"]
        if isinstance(t, ast.Subscript):
            out |= self.expr_escapes(t.value, ctx)
            if not isinstance(t.slice, ast.Slice):
                out |= self.expr_escapes(t.slice, ctx)
                esc = self.subscript_check(t, ctx, store=True) if not isinstance(s, ast.AugAssign) else None
                if esc:
                    out.add(esc)
                # byte range of the stored value
                bt = self.r.strip_opt(self.r.type_of(t.value, fi))
                if bt == prim("bytearray") and isinstance(s, (ast.Assign, ast.AnnAssign)) and s.value is not None:
                    lo, hi = self.ival(s.value, self.facts(s, ctx), fi)
                    ok = lo >= 0 and hi <= 255
                    e = self.site(ctx, s, "bytearray-store", "ValueError", ok, f"stored value in [{lo}, {hi}]")
                    if e:
                        out.add(e)
        elif isinstance(t, (ast.Tuple, ast.List)):
            # tuple unpacking: arity must be known
            if isinstance(s, (ast.Assign,)):
                vt = self.r.strip_opt(self.r.type_of(s.value, fi))
                n = len(t.elts)
                ok = False
                why = "right-hand side has no statically known arity"
                if isinstance(s.value, (ast.Tuple, ast.List)) and len(s.value.elts) == n:
                    ok = True
                elif vt[0] == "tuple" and len(vt[1]) == n:
                    ok = True
                elif vt[0] == "inst" and vt[1] in self.m.classes and any(b.endswith("NamedTuple") for b in self.m.classes[vt[1]].bases) and len(self.m.classes[vt[1]].annos) == n:
                    ok = True
                elif isinstance(s.value, ast.Name) and self.r.env(fi).get(s.value.id, UNK)[0] == "opt":
                    inner = self.r.strip_opt(self.r.env(fi)[s.value.id])
                    ok = inner[0] == "inst" and inner[1] in self.m.classes and len(self.m.classes[inner[1]].annos) == n
                stars = [x for x in t.elts if isinstance(x, ast.Starred)]
                if not ok and len(stars) == 1:
                    need = n - 1
                    v = s.value
                    # x.split(sep) / x.rsplit(sep) with an explicit separator yields at least one element
                    if need <= 1 and isinstance(v, ast.Call) and isinstance(v.func, ast.Attribute) and v.func.attr in ("split", "rsplit") and v.args \
                            and self.r.strip_opt(self.r.type_of(v.func.value, fi)) in (prim("str"), prim("bytes"), prim("bytearray"), prim("strlike")):
                        ok, why = True, "split with a separator returns at least one element"
                    elif need == 0:
                        ok, why = True, "only a starred target"
                    elif isinstance(v, (ast.Tuple, ast.List)) and len(v.elts) >= need:
                        ok = True
                e = self.site(ctx, s, "tuple-unpack", "ValueError", ok, why)
                if e:
                    out.add(e)
            for el in t.elts:
                out |= self.target_escapes(el.value if isinstance(el, ast.Starred) else el, s, ctx)
        elif isinstance(t, ast.Attribute):
            out |= self.expr_escapes(t.value, ctx)
        return out

    def aug_store_escapes(self, s: ast.AugAssign, ctx) -> Set[Esc]:
        out: Set[Esc] = set()
        fi: FuncInfo = ctx["fi"]
        t = s.target
        if isinstance(t, ast.Subscript) and not isinstance(t.slice, ast.Slice):
            facts = self.facts(s, ctx)
            x = norm(t.value)
            ok, why = self.index_in_range(x, t.slice, facts)
            e = self.site(ctx, t, "sequence-index-store", "IndexError", ok, why)
            if e:
                out.add(e)
            bt = self.r.strip_opt(self.r.type_of(t.value, fi))
            if bt == prim("bytearray"):
                lo, hi = self.ival(ast.BinOp(left=ast.Subscript(value=t.value, slice=t.slice, ctx=ast.Load()), op=s.op, right=s.value), facts, fi)
                okv = lo >= 0 and hi <= 255
                e = self.site(ctx, s, "bytearray-store", "ValueError", okv, f"stored value in [{lo}, {hi}]")
                if e:
                    out.add(e)
        return out

    # -- integer intervals ------------------------------------------------------
    def ival(self, e: ast.expr, facts: FrozenSet[Fact], fi: FuncInfo) -> Tuple[float, float]:
        ci = const_int(e)
        if ci is not None:
            return (ci, ci)
        if isinstance(e, ast.Constant) and isinstance(e.value, bool):
            return (int(e.value), int(e.value))
        txt = norm(e)
        lo, hi = -INF, INF
        is_byte = False
        if isinstance(e, ast.Subscript) and not isinstance(e.slice, ast.Slice):
            bt = self.r.strip_opt(self.r.type_of(e.value, fi))
            if bt in (prim("bytes"), prim("bytearray"), prim("memoryview"), prim("byteslike")):
                is_byte = True
            # struct.unpack("<one integer code>", x)[0]: the range of that code
            if isinstance(e.value, ast.Call) and norm(e.value.func) == "struct.unpack" and e.value.args and isinstance(e.value.args[0], ast.Constant) and \
                    isinstance(e.value.args[0].value, str) and const_int(e.slice) == 0:
                code = e.value.args[0].value.lstrip("@=<>!")
                rng = {"B": (0, 255), "b": (-128, 127), "H": (0, 65535), "h": (-32768, 32767), "I": (0, 2**32 - 1), "i": (-2**31, 2**31 - 1),
                       "Q": (0, 2**64 - 1), "q": (-2**63, 2**63 - 1), "?": (0, 1)}.get(code)
                if rng is not None:
                    lo, hi = rng
        if isinstance(e, ast.Name):
            for f in facts:
                if f[0] == "ELEM" and f[1] == e.id:
                    is_byte = True     # element of the enumerated sequence (bytes-like in this code base: checked by type)
                    bt = self.r.strip_opt(self.r.type_of(ast.parse(f[2], mode="eval").body, fi))
                    if bt not in (prim("bytes"), prim("bytearray"), prim("memoryview"), prim("byteslike")):
                        is_byte = False
                if f[0] == "INT" and f[1] == e.id:
                    lo, hi = max(lo, f[2]), min(hi, f[3])
            if ("GE0", e.id) in facts:
                lo = max(lo, 0)
            if any(f[0] == "ISLEN" and f[1] == e.id for f in facts):
                lo, hi = max(lo, 0), min(hi, MAXSIZE)          # the name holds a len(): a Py_ssize_t
        if is_byte:
            lo, hi = max(lo, 0), min(hi, 255)
        if isinstance(e, ast.Subscript) and not isinstance(e.slice, ast.Slice):
            # a[i] is known equal to v (enumerate): v's refinements apply
            for f in facts:
                if f[0] == "ELEM" and f[2] == norm(e.value) and f[3] == norm(e.slice):
                    vl, vh = self.ival(ast.Name(id=f[1], ctx=ast.Load()), facts, fi)
                    lo, hi = max(lo, vl), min(hi, vh)
        # refinements by comparison facts on the same text
        for f in facts:
            if f[0] == "LT" and f[1] == txt and _is_int(f[2]):
                hi = min(hi, int(f[2]) - 1)
            elif f[0] == "LE" and f[1] == txt and _is_int(f[2]):
                hi = min(hi, int(f[2]))
            elif f[0] == "LT" and f[2] == txt and _is_int(f[1]):
                lo = max(lo, int(f[1]) + 1)
            elif f[0] == "LE" and f[2] == txt and _is_int(f[1]):
                lo = max(lo, int(f[1]))
            elif f[0] == "LE" and f[2] == txt and f[1].isidentifier() and f[1] != txt:
                # a <= x with a's own lower bound known (a range() start, a parameter known non-negative)
                if ("GE0", f[1]) in facts:
                    lo = max(lo, 0)
                for g in facts:
                    if g[0] == "INT" and g[1] == f[1] and g[2] != -INF:
                        lo = max(lo, g[2])
            elif f[0] == "EQ" and f[1] == txt and _is_int(f[2]):
                lo, hi = max(lo, int(f[2])), min(hi, int(f[2]))
        changed = True
        while changed:
            changed = False
            for f in facts:
                if f[0] == "NE" and f[1] == txt and _is_int(f[2]):
                    c = int(f[2])
                    if c == lo and lo != -INF:
                        lo += 1
                        changed = True
                    if c == hi and hi != INF:
                        hi -= 1
                        changed = True
        if (lo, hi) != (-INF, INF) and not isinstance(e, (ast.BinOp, ast.IfExp, ast.Call)):
            return (lo, hi)
        if isinstance(e, ast.BinOp):
            al, ah = self.ival(e.left, facts, fi)
            bl, bh = self.ival(e.right, facts, fi)
            op = e.op
            if isinstance(op, ast.Add):
                r = (al + bl, ah + bh)
            elif isinstance(op, ast.Sub):
                r = (al - bh, ah - bl)
            elif isinstance(op, ast.BitAnd):
                if bl >= 0 and bh != INF:
                    r = (0, bh)        # x & c with c >= 0 is in [0, c] for every int x
                elif al >= 0 and ah != INF:
                    r = (0, ah)
                else:
                    r = (-INF, INF)
            elif isinstance(op, ast.BitOr):
                if al >= 0 and bl >= 0 and ah != INF and bh != INF:
                    bits = max(int(ah).bit_length(), int(bh).bit_length())
                    r = (max(al, bl), (1 << bits) - 1)
                else:
                    r = (-INF, INF)
            elif isinstance(op, ast.LShift):
                if al >= 0 and bl >= 0 and ah != INF and bh != INF and bh <= 4096 and bl <= 4096:
                    r = (int(al) << int(bl), int(ah) << int(bh))
                elif al >= 0 and bl >= 0:
                    r = (0, INF)
                else:
                    r = (-INF, INF)
            elif isinstance(op, ast.RShift):
                if al >= 0 and bl >= 0:
                    r = (0 if bh == INF else int(al) >> int(bh), ah if ah == INF else int(ah) >> int(bl))
                else:
                    r = (-INF, INF)
            elif isinstance(op, ast.Mult) and al >= 0 and bl >= 0:
                r = (al * bl, ah * bh)
            elif isinstance(op, ast.FloorDiv) and al >= 0 and bl >= 1 and bl == bh:
                r = (al // bl, ah if ah == INF else ah // bl)
            elif isinstance(op, ast.Mod) and bl >= 1 and bh != INF:
                r = (0, bh - 1)          # x % m with m > 0 lies in [0, m-1] for every int x
            else:
                r = (-INF, INF)
            return (max(r[0], lo), min(r[1], hi))
        if isinstance(e, ast.IfExp):
            f_t = facts | frozenset(_ASSUMER.assume(e.test, True))
            f_f = facts | frozenset(_ASSUMER.assume(e.test, False))
            a = self.ival(e.body, f_t, fi)
            b = self.ival(e.orelse, f_f, fi)
            return (min(a[0], b[0]), max(a[1], b[1]))
        if isinstance(e, ast.Call) and isinstance(e.func, ast.Name) and e.func.id == "len":
            a0 = e.args[0] if e.args else None
            if isinstance(a0, ast.Name) and not isinstance(fi.node, ast.Lambda):
                # len(x) where x is bound once to <int>.to_bytes(n, ...): exactly n octets
                binds = [x.value for x in walk_no_nested(fi.node) if isinstance(x, (ast.Assign, ast.AnnAssign)) and x.value is not None and
                         any(isinstance(t_, ast.Name) and t_.id == a0.id for t_ in (x.targets if isinstance(x, ast.Assign) else [x.target]))]
                if len(binds) == 1 and isinstance(binds[0], ast.Call) and isinstance(binds[0].func, ast.Attribute) and binds[0].func.attr == "to_bytes" and binds[0].args:
                    nl, nh = self.ival(binds[0].args[0], facts, fi)
                    return (max(0, nl), min(MAXSIZE, nh))
                ub = self.collected_len_bound(a0.id, binds, fi)
                if ub is not None:
                    return (0, ub)
            return (0, MAXSIZE)        # len() is a Py_ssize_t
        if isinstance(e, ast.Call) and isinstance(e.func, ast.Name) and e.func.id not in fi.params():
            q = self.m.resolve_name(fi.module, e.func.id)
            callee = self.m.functions.get(q) if q else None
            if callee is not None and callee.cls is None and norm(callee.node.returns) == "int" if callee is not None and not isinstance(callee.node, ast.Lambda) and callee.node.returns is not None else False:
                rl, rh = self.ret_ival(callee)
                return (max(lo, rl), min(hi, rh))
        if isinstance(e, ast.Call) and isinstance(e.func, ast.Attribute) and e.func.attr == "bit_length" and not e.args:
            xl, xh = self.ival(e.func.value, facts, fi)
            if xl >= 0 and xh != INF:
                return (0, int(xh).bit_length())
            return (0, INF)
        return (lo, hi)

    def collected_len_bound(self, name: str, binds: List[ast.expr], fi: FuncInfo) -> Optional[int]:
        """Upper bound of len(<name>) for a local that starts as an empty bytearray/list and is only grown one element at a
        time: once per iteration of `while n:` loops that shift n right by a constant k each time (at most ceil(bits(n)/k)
        iterations for 0 <= n <= M), and by straight-line appends (one each)."""
        if len(binds) != 1:
            return None
        b = binds[0]
        empty = (isinstance(b, ast.Call) and isinstance(b.func, ast.Name) and b.func.id in ("bytearray", "list") and not b.args and not b.keywords) or \
                (isinstance(b, ast.List) and not b.elts)
        if not empty or name in fi.params():
            return None
        grow = [c for c in walk_no_nested(fi.node) if isinstance(c, ast.Call) and isinstance(c.func, ast.Attribute) and norm(c.func.value) == name
                and c.func.attr in ("append", "extend", "insert", "__iadd__")]
        if any(c.func.attr != "append" for c in grow):
            return None
        if any(isinstance(x, ast.AugAssign) and isinstance(x.target, ast.Name) and x.target.id == name for x in walk_no_nested(fi.node)):
            return None
        # the name must not escape to a callee that could grow it, nor be aliased
        for x in walk_no_nested(fi.node):
            if isinstance(x, ast.Call) and x not in grow and any(isinstance(a, ast.Name) and a.id == name for a in list(x.args) + [k.value for k in x.keywords]):
                fn = norm(x.func)
                if fn not in ("len", "bytes", "bytearray", "reversed", "memoryview", "list", "tuple", "sum", "min", "max") and not fn.endswith(".extend") and not fn.endswith(".join"):
                    return None
            if isinstance(x, (ast.Assign, ast.AnnAssign)) and isinstance(x.value, ast.Name) and x.value.id == name:
                return None
        loops = [w for w in walk_no_nested(fi.node) if isinstance(w, (ast.While, ast.For))]
        total = 0
        for c in grow:
            owner = [w for w in loops if any(y is c for y in ast.walk(w))]
            if not owner:
                total += 1
                continue
            if len(owner) != 1 or not isinstance(owner[0], ast.While):
                return None
            w = owner[0]
            t_ = w.test
            if isinstance(t_, ast.Compare) and len(t_.ops) == 1 and isinstance(t_.left, ast.Name) and const_int(t_.comparators[0]) == 0 and isinstance(t_.ops[0], (ast.Gt, ast.NotEq)):
                t_ = t_.left
            if not isinstance(t_, ast.Name) or w.orelse:
                return None
            n = t_.id
            # exactly this append at the top level of the body, n only shifted right by a constant
            if not any(isinstance(s_, ast.Expr) and s_.value is c for s_ in w.body):
                return None
            if sum(1 for g in grow if any(y is g for y in ast.walk(w))) != 1:
                return None
            stores = [x for x in ast.walk(w) if isinstance(x, ast.Name) and x.id == n and isinstance(x.ctx, ast.Store)]
            def shift_of(x) -> Optional[int]:
                """k when statement x replaces n by n >> k (spelled >>=, //= 2**k, n = n >> k, n = n // 2**k)"""
                op = val = None
                if isinstance(x, ast.AugAssign) and isinstance(x.target, ast.Name) and x.target.id == n:
                    op, val = x.op, x.value
                elif isinstance(x, ast.Assign) and len(x.targets) == 1 and isinstance(x.targets[0], ast.Name) and x.targets[0].id == n and isinstance(x.value, ast.BinOp) \
                        and isinstance(x.value.left, ast.Name) and x.value.left.id == n:
                    op, val = x.value.op, x.value.right
                c = const_int(val) if val is not None else None
                if c is None:
                    return None
                if isinstance(op, ast.RShift) and c >= 1:
                    return c
                if isinstance(op, ast.FloorDiv) and c >= 2 and c & (c - 1) == 0:
                    return c.bit_length() - 1
                return None
            shifts = [x for x in w.body if shift_of(x) is not None]
            if len(stores) != 1 or len(shifts) != 1 or any(isinstance(x, (ast.Continue,)) for x in ast.walk(w)):
                return None
            k = shift_of(shifts[0])
            # the value n has when the loop is entered
            outside = [x for x in walk_no_nested(fi.node) if isinstance(x, ast.Name) and x.id == n and isinstance(x.ctx, ast.Store) and x is not stores[0]]
            if n in fi.params() and not outside:
                entry = self.param_facts(fi)
                nl, nh = self.ival(ast.Name(id=n, ctx=ast.Load()), entry, fi)
            else:
                nb = [x.value for x in walk_no_nested(fi.node) if isinstance(x, (ast.Assign, ast.AnnAssign)) and x.value is not None and
                      any(isinstance(tt, ast.Name) and tt.id == n for tt in (x.targets if isinstance(x, ast.Assign) else [x.target]))]
                if len(nb) != 1 or len(outside) != 1 or n in fi.params():
                    return None
                src = nb[0]
                for _ in range(3):
                    # n = m, m = len(x): follow plain copies of locals that are bound once
                    if isinstance(src, ast.Name) and src.id not in fi.params():
                        b2 = [x.value for x in walk_no_nested(fi.node) if isinstance(x, (ast.Assign, ast.AnnAssign)) and x.value is not None and
                              any(isinstance(tt, ast.Name) and tt.id == src.id for tt in (x.targets if isinstance(x, ast.Assign) else [x.target]))]
                        st2 = [x for x in walk_no_nested(fi.node) if isinstance(x, ast.Name) and x.id == src.id and isinstance(x.ctx, ast.Store)]
                        if len(b2) == 1 and len(st2) == 1:
                            src = b2[0]
                            continue
                    break
                if isinstance(src, ast.Name) and src.id in fi.params() and not self._rebound(src.id, fi):
                    nl, nh = self.ival(src, self.param_facts(fi), fi)
                else:
                    nl, nh = self.ival(src, frozenset(), fi)
            if nl < 0 or nh == INF:
                return None
            total += -(-int(nh).bit_length() // k)
        return total

    # ------------------------------------------------------------------ calls
    def exact_class(self, recv: ast.expr, fi: FuncInfo, ctx=None) -> Optional[str]:
        """Concrete class of a receiver that is a local only ever bound to constructor calls of one class, or a
        parameter that the calling context binds to such a value (one level of call-site sensitivity for thin wrappers)."""
        if not isinstance(recv, ast.Name):
            return None
        pcls = (ctx or {}).get("pcls") or {}
        if recv.id in pcls and recv.id in fi.params() and not self._rebound(recv.id, fi):
            return pcls[recv.id]
        ck = (fi.qualname, recv.id)
        if ck not in self._exact_cache:
            self._exact_cache[ck] = self._exact_class_uncached(recv, fi)
        return self._exact_cache[ck]

    def _rebound(self, name: str, fi: FuncInfo) -> bool:
        return any(isinstance(x, ast.Name) and x.id == name and isinstance(x.ctx, (ast.Store, ast.Del)) for x in walk_no_nested(fi.node))

    def arg_classes(self, callee: FuncInfo, e: ast.Call, ctx) -> str:
        """`|p=Class,...` for the parameters of callee that this call site binds to a value of exactly known class."""
        fi: FuncInfo = ctx["fi"]
        ps = callee.params()
        if callee.cls and not callee.is_staticmethod:
            ps = ps[1:]
        got = {}
        pairs = [(ps[i], a) for i, a in enumerate(e.args) if i < len(ps)] + [(k.arg, k.value) for k in e.keywords if k.arg in ps]
        for p_, a in pairs:
            if isinstance(a, ast.Lambda):
                pt = self.r.env(callee).get(p_, UNK)
                li = self.r.lambda_info(fi, a, pt[2] if pt[0] == "callable" and len(pt) > 2 else None)
                got[p_] = "func:" + li.qualname
                continue
            if isinstance(a, ast.Name):
                c = self.exact_class(a, fi, ctx)
                if c is not None:
                    got[p_] = c
                    continue
                # a package function handed over as a value
                stores = a.id in fi.params() or any(isinstance(x, ast.Name) and x.id == a.id and isinstance(x.ctx, ast.Store) for x in walk_no_nested(fi.node))
                q = self.m.resolve_name(fi.module, a.id) if not stores else None
                if q in self.m.functions:
                    got[p_] = "func:" + q
                elif a.id in (ctx.get("pcls") or {}) and str((ctx.get("pcls") or {})[a.id]).startswith("func:") and not self._rebound(a.id, fi):
                    got[p_] = ctx["pcls"][a.id]
        return ("|" + ",".join(f"{k}={v}" for k, v in sorted(got.items()))) if got else ""

    @staticmethod
    def _is_getter_expr(a) -> bool:
        return isinstance(a, ast.Call) and norm(a.func) in ("operator.attrgetter", "attrgetter") and len(a.args) == 1 and not a.keywords and \
            isinstance(a.args[0], ast.Constant) and isinstance(a.args[0].value, str) and a.args[0].value.isidentifier()

    def callable_param_is_getter(self, fi: FuncInfo, pname: str) -> bool:
        """every call site of fi passes operator.attrgetter("<identifier>") (directly or through a name bound once to it) for pname"""
        ps = fi.params()
        if fi.cls and not fi.is_staticmethod:
            ps = ps[1:]
        if pname not in ps:
            return False
        idx = ps.index(pname)
        n_sites = 0
        for cq, cfi in self.m.functions.items():
            if isinstance(cfi.node, ast.Lambda) or fi.name not in self.m.modules[cfi.module].source:
                continue
            for n in walk_no_nested(cfi.node):
                if not isinstance(n, ast.Call):
                    continue
                f = n.func
                hit = (isinstance(f, ast.Name) and self.m.resolve_name(cfi.module, f.id) == fi.qualname) or \
                      (isinstance(f, ast.Attribute) and f.attr == fi.name and fi.cls is not None)
                if not hit:
                    continue
                n_sites += 1
                a = n.args[idx] if idx < len(n.args) else next((k.value for k in n.keywords if k.arg == pname), None)
                if isinstance(a, ast.Name):
                    gq = [g for g in self.m.modules[cfi.module].globals_.get(a.id, []) if isinstance(g, (ast.Assign, ast.AnnAssign))]
                    a = gq[0].value if len(gq) == 1 else a
                if not self._is_getter_expr(a):
                    return False
        return n_sites > 0

    def callable_param_targets(self, fi: FuncInfo, pname: str) -> List[str]:
        """Package functions passed for parameter `pname` of fi at any call site in the package (context-free fallback)."""
        ck = (fi.qualname, pname)
        if ck in self._cpt_cache:
            return self._cpt_cache[ck]
        ps = fi.params()
        if fi.cls and not fi.is_staticmethod:
            ps = ps[1:]
        out: List[str] = []
        if pname in ps:
            idx = ps.index(pname)
            for cq, cfi in self.m.functions.items():
                if isinstance(cfi.node, ast.Lambda) or fi.name not in self.m.modules[cfi.module].source:
                    continue
                for n in walk_no_nested(cfi.node):
                    if not isinstance(n, ast.Call):
                        continue
                    f = n.func
                    hit = (isinstance(f, ast.Name) and self.m.resolve_name(cfi.module, f.id) == fi.qualname) or \
                          (isinstance(f, ast.Attribute) and f.attr == fi.name and fi.cls is not None and isinstance(f.value, ast.Name) and f.value.id in ("self", "cls") and
                           cfi.cls is not None and self.m.find_method(cfi.cls, f.attr) is fi)
                    if not hit:
                        continue
                    a = n.args[idx] if idx < len(n.args) else next((k.value for k in n.keywords if k.arg == pname), None)
                    q = self.m.resolve_name(cfi.module, a.id) if isinstance(a, ast.Name) else None
                    if isinstance(a, ast.Lambda):
                        pt = self.r.env(fi).get(pname, UNK)
                        q = self.r.lambda_info(cfi, a, pt[2] if pt[0] == "callable" and len(pt) > 2 else None).qualname
                    if q in self.m.functions:
                        if q not in out:
                            out.append(q)
                    else:
                        self._cpt_cache[ck] = []
                        return []
        self._cpt_cache[ck] = out
        return out

    def _exact_class_uncached(self, recv: ast.Name, fi: FuncInfo) -> Optional[str]:
        cls: Set[str] = set()
        for n in walk_no_nested(fi.node):
            if isinstance(n, (ast.Assign, ast.AnnAssign)) and n.value is not None:
                tg = n.targets if isinstance(n, ast.Assign) else [n.target]
                if any(isinstance(t, ast.Name) and t.id == recv.id for t in tg):
                    v = n.value
                    if isinstance(v, ast.Call):
                        q = self.m.resolve_name(fi.module, norm(v.func))
                        if q in self.m.classes:
                            cls.add(q)
                            continue
                    return None
            elif isinstance(n, (ast.For, ast.With, ast.ExceptHandler)) and recv.id in {x.id for x in ast.walk(n) if isinstance(x, ast.Name) and isinstance(x.ctx, ast.Store)} - {x.id for b in getattr(n, "body", []) for x in ast.walk(b) if isinstance(x, ast.Name)}:
                return None
        if recv.id in fi.params():
            return None
        return cls.pop() if len(cls) == 1 else None

    def call_escapes(self, e: ast.Call, ctx) -> Set[Esc]:
        fi: FuncInfo = ctx["fi"]
        out: Set[Esc] = set()
        for a in e.args:
            out |= self.expr_escapes(a.value if isinstance(a, ast.Starred) else a, ctx)
        for k in e.keywords:
            out |= self.expr_escapes(k.value, ctx)
        if isinstance(e.func, ast.Attribute):
            out |= self.expr_escapes(e.func.value, ctx)
            esc = self.none_attr_check(e.func, ctx)
            if esc:
                out.add(esc)
        # a call through a parameter that holds a package function (`read_func(self._view, ...)`)
        if isinstance(e.func, ast.Name) and e.func.id in fi.params() and not self._rebound(e.func.id, fi):
            tq = (ctx.get("pcls") or {}).get(e.func.id)
            targets = [tq[5:]] if isinstance(tq, str) and tq.startswith("func:") else self.callable_param_targets(fi, e.func.id)
            if targets:
                for q in targets:
                    callee = self.m.functions[q]
                    sfx = self.arg_classes(callee, e, ctx)
                    out |= self.call_summary(callee, sfx or None, ctx, e, recv=None)
                return out
            if self.callable_param_is_getter(fi, e.func.id):
                return out          # operator.attrgetter("name")(x) is x.name: an attribute read
        if isinstance(e.func, ast.Name) and e.func.id not in fi.params():
            # a module-level / local name bound once to operator.attrgetter("name")
            gq = [g for g in self.m.modules[fi.module].globals_.get(e.func.id, []) if isinstance(g, (ast.Assign, ast.AnnAssign))]
            lq = [g for g in walk_no_nested(fi.node) if isinstance(g, (ast.Assign, ast.AnnAssign)) and g.value is not None and
                  any(isinstance(t_, ast.Name) and t_.id == e.func.id for t_ in (g.targets if isinstance(g, ast.Assign) else [g.target]))] if not isinstance(fi.node, ast.Lambda) else []
            binds = lq or gq
            if len(binds) == 1 and self._is_getter_expr(binds[0].value):
                return out
        if isinstance(e.func, ast.Call) and self._is_getter_expr(e.func):
            return out
        if self._is_getter_expr(e):
            return out              # building the getter itself
        res = self.r.callees(e, fi, ctx["self_cls"])
        if res[0] == "multi":
            # a value picked from a dispatch table: any of its entries may be what is called
            for sub in res[1]:
                out |= self._resolved_call(sub, e, ctx)
            return out
        return out | self._resolved_call(res, e, ctx)

    def _resolved_call(self, res, e: ast.Call, ctx) -> Set[Esc]:
        fi: FuncInfo = ctx["fi"]
        out: Set[Esc] = set()
        kind = res[0]
        if kind == "funcs":
            fis, recv = res[1], res[2]
            if not fis:
                self.unknown_calls.append(f"{fi.qualname}:{e.lineno} {norm(e)[:80]}")
                out.add(Esc("Other", fi.qualname, norm(e)[:120], e.lineno, "unknown-call"))
                return out
            self_cls_callee = None
            if recv is not None and isinstance(e.func, ast.Attribute):
                rv = e.func.value
                if isinstance(rv, ast.Name) and rv.id in ("self", "cls") and fi.cls:
                    self_cls_callee = ctx["self_cls"]
                elif isinstance(rv, ast.Call) and isinstance(rv.func, ast.Name) and rv.func.id == "super":
                    self_cls_callee = ctx["self_cls"]
                else:
                    self_cls_callee = self.exact_class(rv, fi, ctx)
                    if self_cls_callee is not None:
                        mt = self.m.find_method(self_cls_callee, e.func.attr)
                        fis = [mt] if mt is not None else fis
            for callee in fis:
                if isinstance(callee.node, ast.Lambda):
                    self.note_lambda_call(callee, e, ctx)
                sfx = self.arg_classes(callee, e, ctx) if not isinstance(callee.node, ast.Lambda) else ""
                out |= self.call_summary(callee, ((self_cls_callee or "") + sfx) if sfx else self_cls_callee, ctx, e, recv=e.func.value if isinstance(e.func, ast.Attribute) else None)
            return out
        if kind == "ctor":
            q = res[1]
            c = self.m.classes[q]
            if c.is_enum:
                # EnumCls(value): ValueError unless the class defines a _missing_ that handles every int
                missing = self.m.find_method(q, "_missing_")
                ok = missing is not None and self._missing_total(missing)
                esc = self.site(ctx, e, "enum-conversion", "ValueError", ok, "value may not be a member" if not ok else "_missing_ accepts every int")
                if esc:
                    out.add(esc)
                if missing is not None:
                    # the conversion runs _missing_ for every value that is not a member: what it can raise leaves the conversion
                    out |= self.call_summary(missing, q, ctx, e, recv=None)
                    bad_ret = self._missing_returns_members(missing)
                    esc2 = self.site(ctx, e, "enum-missing-hook", "TypeError", bad_ret is None,
                                     "every return of _missing_ is None or built from the class" if bad_ret is None else
                                     f"{q.split('.')[-1]}._missing_ has `{bad_ret}`: the enum machinery raises TypeError for a value that is neither None nor a member")
                    if esc2:
                        out.add(esc2)
                return out
            init = self.m.find_method(q, "__init__")
            if q == "sansldap.asn1.ASN1Reader" and e.args and isinstance(e.args[0], (ast.Name, ast.Attribute)):
                # the reader wraps its argument in a memoryview: None is not a buffer
                t0 = self.r.type_of(e.args[0], fi)
                if t0[0] == "opt" or t0 == prim("none"):
                    txt0 = norm(e.args[0])
                    facts0 = self.facts(e, ctx)
                    ok0 = ("NN", txt0) in facts0 or ("T", txt0) in facts0
                    esc0 = self.site(ctx, e, "none-buffer", "TypeError", ok0, f"`{txt0}` may be None here and ASN1Reader needs a bytes-like object")
                    if esc0:
                        out.add(esc0)
            if init is not None and not c.is_dataclass:
                out |= self.call_summary(init, q, ctx, e, recv=None)
            post = self.m.find_method(q, "__post_init__")
            if post is not None:
                out |= self.call_summary(post, q, ctx, e, recv=None)
            return out
        if kind == "builtin":
            return out | self.builtin_escapes(res[1], res[2], e, ctx)
        # unknown
        self.unknown_calls.append(f"{fi.qualname}:{e.lineno} {norm(e)[:80]}")
        out.add(Esc("Other", fi.qualname, norm(e)[:120], e.lineno, "unknown-call"))
        return out

    def enum_classes_passed(self, fi: FuncInfo, pname: str) -> List[str]:
        """the package enum classes that call sites bind to the Type[...] parameter `pname` of fi; every enum class of the
        package when some call site passes something that is not a plain class name"""
        key = (fi.qualname, pname)
        memo = self.__dict__.setdefault("_enum_passed", {})
        if key in memo:
            return memo[key]
        a = fi.node.args
        pos = [p.arg for p in a.posonlyargs + a.args]
        if fi.cls and not fi.is_staticmethod and pos:
            pos = pos[1:]
        idx = pos.index(pname) if pname in pos else None
        found: Set[str] = set()
        every = False
        for cf in list(self.m.functions.values()):
            if isinstance(cf.node, ast.Lambda):
                continue
            for c in walk_no_nested(cf.node):
                if not isinstance(c, ast.Call):
                    continue
                nm = c.func.attr if isinstance(c.func, ast.Attribute) else c.func.id if isinstance(c.func, ast.Name) else None
                if nm != fi.name:
                    continue
                arg = next((k.value for k in c.keywords if k.arg == pname), None)
                if arg is None and idx is not None and idx < len(c.args) and not any(isinstance(x, ast.Starred) for x in c.args):
                    arg = c.args[idx]
                if arg is None:
                    continue
                q = self.m.resolve_name(cf.module, norm(arg)) if isinstance(arg, (ast.Name, ast.Attribute)) else None
                if q in self.m.classes and self.m.classes[q].is_enum:
                    found.add(q)
                else:
                    every = True
        if every or not found:
            found = {q for q, c in self.m.classes.items() if c.is_enum}
        memo[key] = sorted(found)
        return memo[key]

    def _missing_returns_members(self, fi: FuncInfo) -> Optional[str]:
        """The enum machinery accepts from `_missing_` only None or a member of the class; anything else (the raw value handed
        back "so unknown values pass through") makes the conversion raise TypeError.  Returns the offending return, or None."""
        if isinstance(fi.node, ast.Lambda):
            return None
        ps = fi.params()
        cls_name = ps[0] if ps else "cls"

        def from_cls(e: ast.expr, depth: int = 0) -> bool:
            if isinstance(e, ast.Constant) and e.value is None:
                return True
            if any(isinstance(x, ast.Name) and x.id == cls_name for x in ast.walk(e)):
                return True
            if isinstance(e, ast.Name) and depth < 3:
                binds = [a.value for a in walk_no_nested(fi.node) if isinstance(a, (ast.Assign, ast.AnnAssign)) and a.value is not None and
                         any(isinstance(t_, ast.Name) and t_.id == e.id for t_ in (a.targets if isinstance(a, ast.Assign) else [a.target]))]
                return bool(binds) and all(from_cls(b, depth + 1) for b in binds)
            if isinstance(e, ast.IfExp):
                return from_cls(e.body, depth) and from_cls(e.orelse, depth)
            if isinstance(e, ast.Call) and isinstance(e.func, ast.Attribute) and isinstance(e.func.value, ast.Call) and norm(e.func.value.func) == "super":
                return True
            return False
        for r in walk_no_nested(fi.node):
            if isinstance(r, ast.Return) and r.value is not None and not from_cls(r.value):
                return norm(r)[:60]
        return None

    def _missing_total(self, fi: FuncInfo) -> bool:
        # every return in _missing_ returns a non-None value except under `not isinstance(value, int)`
        for n in ast.walk(fi.node):
            if isinstance(n, ast.Raise):
                return False
        return True

    def call_summary(self, callee: FuncInfo, self_cls: Optional[str], ctx, site: ast.AST, recv: Optional[ast.expr]) -> Set[Esc]:
        key = (callee.qualname, self_cls)
        if key not in self.summ:
            self.summ[key] = frozenset()
            self.changed = True
        self.edges.setdefault(ctx["key"], set()).add(key)
        fi: FuncInfo = ctx["fi"]
        out: Set[Esc] = set()
        for esc in self.summ[key]:
            out.add(self.translate_prov(esc, callee, fi, site, recv))
        return out

    # -- NotEnougData provenance --------------------------------------------------
    def translate_prov(self, esc: Esc, callee: FuncInfo, caller: FuncInfo, site: ast.AST, recv: Optional[ast.expr]) -> Esc:
        from .anchors import is_incomplete
        if not is_incomplete(self.m, esc.exc):
            return esc
        prov = esc.prov
        new = "derived"
        call = site if isinstance(site, ast.Call) else None
        if prov == "-":
            # raised by a module-level helper on its data argument: which argument did the data come from?
            if callee.cls and not callee.is_staticmethod and "classmethod" not in callee.decorators:
                new = self._expr_prov(recv, caller) if recv is not None else "derived"      # raised by a method about its own object's data
            else:
                new = self._arg_prov(callee, caller, call, 0)
        elif prov == "self":
            new = self._expr_prov(recv, caller) if recv is not None else "derived"
        elif prov.startswith("param:"):
            i = int(prov.split(":")[1])
            new = self._arg_prov(callee, caller, call, i)
        elif prov.startswith("local:") or prov.startswith("fresh:") or prov == "derived":
            new = "derived"
        return Esc(esc.exc, esc.func, esc.text, esc.line, esc.kind, new, esc.why)

    def _arg_prov(self, callee: FuncInfo, caller: FuncInfo, call: Optional[ast.Call], i: int) -> str:
        if call is None:
            return "derived"
        params = callee.params()
        if callee.cls and not callee.is_staticmethod:
            params = params[1:]
        arg = None
        if i < len(call.args):
            arg = call.args[i]
        elif i < len(params):
            for k in call.keywords:
                if k.arg == params[i]:
                    arg = k.value
        if arg is None:
            return "derived"
        return self._expr_prov(arg, caller)

    def _alias_root(self, name: str, fi: FuncInfo, depth: int = 0) -> Optional[ast.expr]:
        """A local that is only ever a view/slice/alias of one other expression."""
        if depth > 5:
            return None
        ck = (fi.qualname, name)
        if ck in self._alias_cache:
            return self._alias_cache[ck]
        self._alias_cache[ck] = None
        res = self._alias_root_uncached(name, fi)
        self._alias_cache[ck] = res
        return res

    def _alias_root_uncached(self, name: str, fi: FuncInfo) -> Optional[ast.expr]:
        roots = []
        for n in walk_no_nested(fi.node):
            if isinstance(n, (ast.Assign, ast.AnnAssign)) and n.value is not None:
                tg = n.targets if isinstance(n, ast.Assign) else [n.target]
                if any(isinstance(t, ast.Name) and t.id == name for t in tg):
                    v = n.value
                    while True:
                        if isinstance(v, ast.Call) and isinstance(v.func, ast.Name) and v.func.id == "memoryview" and len(v.args) == 1:
                            v = v.args[0]
                        elif isinstance(v, ast.Subscript) and isinstance(v.slice, ast.Slice):
                            v = v.value
                        elif isinstance(v, ast.Call) and len(v.args) == 1 and not v.keywords and self._view_holder(v, fi):
                            v = v.args[0]          # an object that is nothing but a holder of that one view
                        else:
                            break
                    roots.append(v)
        if not roots or not all(isinstance(r, (ast.Name, ast.Attribute)) for r in roots):
            return None          # bound to something that is not a plain view/alias (a constructor call, ...)
        txt = {norm(r) for r in roots if not (isinstance(r, ast.Name) and r.id == name)}
        if len(txt) != 1:
            return None
        return [r for r in roots if norm(r) in txt][0]

    def _view_holder(self, call: ast.Call, fi: FuncInfo) -> bool:
        """`C(x)` with C a package class (not the reader) whose __init__ takes one argument and does nothing but store it in one
        attribute: NotEnougData raised by C's methods "on self" is about x."""
        if not isinstance(call.func, (ast.Name, ast.Attribute)):
            return False
        q = self.m.resolve_name(fi.module, norm(call.func))
        ci = self.m.classes.get(q) if q else None
        if ci is None or q == "sansldap.asn1.ASN1Reader" or len(ci.mro) > 1 and any(b in self.m.classes for b in ci.mro[1:]):
            return False
        init = self.m.functions.get(q + ".__init__")
        if init is None or len(init.params()) != 2:
            return False
        body = [s_ for s_ in init.node.body if not (isinstance(s_, ast.Expr) and isinstance(s_.value, ast.Constant))]
        p_ = init.params()[1]
        return len(body) == 1 and isinstance(body[0], (ast.Assign, ast.AnnAssign)) and isinstance(body[0].value, ast.Name) and body[0].value.id == p_ \
            and all(isinstance(t_, ast.Attribute) and isinstance(t_.value, ast.Name) and t_.value.id == "self"
                    for t_ in (body[0].targets if isinstance(body[0], ast.Assign) else [body[0].target]))

    def _expr_prov(self, e: ast.expr, caller: FuncInfo, depth: int = 0) -> str:
        while isinstance(e, ast.Subscript) and isinstance(e.slice, ast.Slice):
            e = e.value
        if isinstance(e, ast.Name) and e.id not in caller.params() and depth < 5:
            root = self._alias_root(e.id, caller)
            if root is not None:
                return self._expr_prov(root, caller, depth + 1)
        if isinstance(e, ast.Name):
            params = caller.params()
            if e.id in ("self",) and caller.cls:
                return "self"
            if e.id in params:
                off = 1 if caller.cls and not caller.is_staticmethod else 0
                return f"param:{params.index(e.id) - off}"
            return f"local:{e.id}"
        if isinstance(e, ast.Attribute) and isinstance(e.value, ast.Name) and e.value.id == "self":
            # self._view: the reader's own view
            return "self"
        if isinstance(e, ast.Call) and len(e.args) == 1 and not e.keywords and self.m.resolve_name(caller.module, norm(e.func)) == "sansldap.asn1.ASN1Reader":
            return "fresh:" + norm(e.args[0])      # a reader constructed on the spot over that value
        return "derived"

    # ------------------------------------------------------------------ builtins
    def builtin_escapes(self, name: str, recv_t, e: ast.Call, ctx) -> Set[Esc]:
        fi: FuncInfo = ctx["fi"]
        out: Set[Esc] = set()
        facts = self.facts(e, ctx)

        def add(kind, exc, ok, why):
            esc = self.site(ctx, e, kind, exc, ok, why)
            if esc:
                out.add(esc)
        if name in PURE:
            if name in ("bytearray", "bytes") and e.args:
                at = self.r.strip_opt(self.r.type_of(e.args[0], fi))
                if isinstance(e.args[0], ast.List) and not any(isinstance(x, ast.Starred) for x in e.args[0].elts):
                    ivs = [self.ival(x, facts, fi) for x in e.args[0].elts]
                    ok = all(lo >= 0 and hi <= 255 for lo, hi in ivs)
                    add("bytearray-store", "ValueError", ok, "elements in " + ", ".join(f"[{lo}, {hi}]" for lo, hi in ivs))
                elif isinstance(e.args[0], (ast.ListComp, ast.GeneratorExp)):
                    # the element expression, whatever the loop variables hold: (v >> s) & 0xFF, x % 256, ... are octets by themselves
                    lo, hi = self.ival(e.args[0].elt, frozenset(), fi)
                    ok = lo >= 0 and hi <= 255
                    add("bytes-from-ints", "ValueError", ok, f"element `{norm(e.args[0].elt)[:40]}` in [{lo}, {hi}]" if ok else
                        "bytes()/bytearray() of an integer iterable: element range not established")
                elif at[0] == "list" or isinstance(e.args[0], ast.List):
                    add("bytes-from-ints", "ValueError", False, "bytes()/bytearray() of an integer iterable: element range not established")
            return out
        if name == "typevar-ctor":
            add("enum-conversion", "ValueError", False, "conversion to the requested enum type may fail")
            # the conversion runs the _missing_ hook of whichever enum class was passed in
            for q in self.enum_classes_passed(fi, e.func.id if isinstance(e.func, ast.Name) else ""):
                missing = self.m.find_method(q, "_missing_")
                if missing is not None:
                    out |= self.call_summary(missing, q, ctx, e, recv=None)
                    bad_ret = self._missing_returns_members(missing)
                    add("enum-missing-hook", "TypeError", bad_ret is None, "every return of _missing_ is None or built from the class" if bad_ret is None else
                        f"{q.split('.')[-1]}._missing_ has `{bad_ret}`: the enum machinery raises TypeError for a value that is neither None nor a member")
            return out
        if name == "int":
            if e.args:
                at = self.r.strip_opt(self.r.type_of(e.args[0], fi))
                if at not in (prim("int"), prim("bool")):
                    add("int-conversion", "ValueError", False, "int() of text may fail")
            return out
        if name == "next":
            if len(e.args) < 2:
                add("next-without-default", "StopIteration", False, "next() without default")
            # the generator expression's own sub-expressions
            return out
        if name in ("chr",):
            lo, hi = self.ival(e.args[0], facts, fi) if e.args else (-INF, INF)
            add("chr", "ValueError", lo >= 0 and hi <= 0x10FFFF, f"argument in [{lo}, {hi}]")
            return out
        if name == "ord":
            ok = False
            a = e.args[0] if e.args else None
            why = "argument length not known to be 1"
            if (isinstance(a, ast.Call) and isinstance(a.func, ast.Attribute) and a.func.attr == "group") or \
                    (isinstance(a, ast.Subscript) and self.r.strip_opt(self.r.type_of(a.value, fi)) == prim("match")):
                ok = None   # decided by the regex engine (single-character match); recorded as assumption here
                why = "length-1 match: decided by the regular-expression analysis (C13/C16)"
                self.implicit_sites.append({"function": fi.qualname, "construct": norm(e)[:100], "kind": "ord", "exception": "TypeError",
                                            "verdict": "deferred", "reason": why, "line": e.lineno})
                return out
            if a is not None and ("LEN==", norm(a), "1") in facts:
                ok, why = True, "argument is a one-character string at every call site"
            if isinstance(a, ast.Constant) and isinstance(a.value, (str, bytes)) and len(a.value) == 1:
                ok, why = True, "a one-character literal"
            add("ord", "TypeError", bool(ok), why)
            return out
        if name == "struct.unpack":
            ok, why = self.struct_unpack_ok(e, facts)
            add("struct.unpack", "struct.error", ok, why)
            return out
        if name == "base64.b16decode":
            add("b16decode", "binascii.Error", False, "non-hex input raises binascii.Error (a ValueError)")
            return out
        if name in ("re.compile", "re.match", "re.search", "re.fullmatch", "re.sub", "re.escape"):
            if name == "re.sub" and len(e.args) >= 2:
                out |= self.callback_escapes(e.args[1], ctx, e, [prim("match")])
            return out
        if name in ("itertools.takewhile", "itertools.dropwhile", "itertools.filterfalse", "filter", "map", "itertools.starmap") and len(e.args) >= 2:
            # lazily applies the function to the elements: what it can raise surfaces where the result is consumed - inside this
            # expression in every use the package makes of them
            if isinstance(e.args[0], ast.Constant) and e.args[0].value is None:
                return out
            out |= self.callback_escapes(e.args[0], ctx, e)
            return out
        if name in ("itertools.chain", "itertools.islice", "itertools.repeat", "itertools.count", "itertools.chain.from_iterable", "functools.partial", "operator.attrgetter", "operator.itemgetter"):
            return out
        if name == "functools.reduce" and len(e.args) >= 2:
            # the function is applied to the elements: what it can raise, the reduction can raise (TypeError on an empty
            # iterable without an initial value)
            out |= self.callback_escapes(e.args[0], ctx, e)
            if len(e.args) < 3:
                at = norm(e.args[1])
                add("reduce-empty", "TypeError", ("T", at) in facts, f"`{at}` may be empty and there is no initial value")
            return out
        if name == "object.__setattr__" or name == "int.__new__":
            return out
        if name.startswith("super."):
            return out
        if name.startswith("enum."):
            return out
        if "." in name:
            base, meth = name.rsplit(".", 1)
            if base in ("t", "typing", "dataclasses", "enum"):
                return out
            if meth in ("decode", "encode") and base in ("bytes", "bytearray", "str", "memoryview", "byteslike", "strlike"):
                err = None
                if len(e.args) >= 2:
                    err = e.args[1]
                for k in e.keywords:
                    if k.arg == "errors":
                        err = k.value
                # which error handlers make the call total depends on the direction: "surrogateescape" decodes anything but
                # encodes only U+DC80..U+DCFF (any other lone surrogate still raises); "surrogatepass" encodes every str to
                # UTF-8 but decodes only what it produced; the two *replace handlers for references are encode-only
                total = TOTAL_DECODE_ERRORS if meth == "decode" else TOTAL_ENCODE_ERRORS
                lenient = isinstance(err, ast.Constant) and err.value in total
                codec = e.args[0] if e.args else next((k.value for k in e.keywords if k.arg == "encoding"), None)
                if not lenient and meth == "encode" and isinstance(err, ast.Constant) and err.value == "surrogatepass" and \
                        (codec is None or (isinstance(codec, ast.Constant) and str(codec.value).lower().replace("_", "-") in ("utf-8", "utf8"))):
                    lenient = True
                exc = "UnicodeDecodeError" if meth == "decode" else "UnicodeEncodeError"
                why = f"errors={err.value!r}" if lenient else "strict codec may fail on this input"
                if not lenient and isinstance(err, ast.Constant) and err.value in NONSTRICT_ERRORS:
                    why = (f"errors={err.value!r} does not make {meth}() total: " +
                           ("it encodes only the surrogates U+DC80..U+DCFF, any other lone surrogate raises" if err.value == "surrogateescape" else
                            "the handler does not cover every input in this direction"))
                add(f"{meth}", exc, lenient, why)
                return out
            if base == "pattern" and meth == "sub" and e.args:
                out |= self.callback_escapes(e.args[0], ctx, e, [prim("match")])
                return out
            if base == "set" and meth == "remove":
                x = norm(e.func.value)
                k = norm(e.args[0]) if e.args else "?"
                add("set.remove", "KeyError", ("IN", k, x) in facts, f"no live fact `{k} in {x}`")
                return out
            if base == "list" and meth == "remove":
                add("list.remove", "ValueError", False, "element may be absent")
                return out
            if base == "list" and meth == "index":
                add("list.index", "ValueError", False, "element may be absent")
                return out
            if base in ("list", "bytearray") and meth == "pop":
                x = norm(e.func.value)
                ok = ("T", x) in facts or any(f[0] == "LEN>=" and f[1] == x and _ge1(f[2]) for f in facts)
                add("pop", "IndexError", ok, f"`{x}` not known non-empty")
                return out
            if base == "dict" and meth == "pop":
                add("dict.pop", "KeyError", len(e.args) >= 2, "no default")
                return out
            if base == "bytearray" and meth in ("clear", "extend", "append", "pop", "insert", "remove") and isinstance(e.func.value, ast.Attribute):
                # resizing a bytearray that a live memoryview exports raises BufferError
                exp = self.exported_earlier(e, fi)
                if exp is not None:
                    add("bytearray-resize-while-exported", "BufferError", False,
                        f"`{norm(e.func.value)}` is exported to `{norm(exp)[:40]}` (line {exp.lineno}) and resized here while that view may be alive")
            if base == "bytearray" and meth == "append":
                lo, hi = self.ival(e.args[0], facts, fi) if e.args else (-INF, INF)
                add("bytearray-store", "ValueError", lo >= 0 and hi <= 255, f"appended value in [{lo}, {hi}]")
                return out
            if base == "bytearray" and meth == "extend":
                at = self.r.strip_opt(self.r.type_of(e.args[0], fi)) if e.args else UNK
                ok = at in (prim("bytes"), prim("bytearray"), prim("memoryview"), prim("byteslike"))
                add("bytearray-extend", "ValueError", ok, "extend() with a bytes-like value" if ok else f"extend() with {at}: element range/type not established")
                return out
            if base == "int" and meth in ("to_bytes",):
                ok, why = self.to_bytes_ok(e, facts, fi)
                add("int.to_bytes", "OverflowError", ok, why)
                return out
            if base == "int" and meth in ("from_bytes",):
                return out
            if base in ("bytes", "bytearray") and meth == "fromhex":
                add("fromhex", "ValueError", False, "non-hex input raises ValueError")
                return out
            if base in ("str", "bytes", "bytearray", "strlike") and meth in ("index", "rindex"):
                add("index", "ValueError", False, "substring may be absent")
                return out
            if base in ("str", "strlike") and meth in ("format", "format_map"):
                ok, why = self.format_ok(e, fi)
                add("format", "LookupError", ok, why)
                return out
            if base in PURE_METHODS and meth in PURE_METHODS[base]:
                return out
            if base in ("str", "bytes", "bytearray", "strlike", "memoryview", "byteslike") and not meth.startswith("_"):
                return out      # the remaining str/bytes methods do not raise on str/bytes arguments
            if base == "exception":
                return out
        self.unknown_calls.append(f"{fi.qualname}:{e.lineno} {norm(e)[:80]} [{name}]")
        out.add(Esc("Other", fi.qualname, norm(e)[:120], e.lineno, "unknown-call"))
        return out

    def exports_buffer(self, c: ast.Call, fi: FuncInfo) -> bool:
        """memoryview(x), or the constructor of a package class whose __init__ keeps memoryview(<its parameter>)"""
        if isinstance(c.func, ast.Name) and c.func.id == "memoryview":
            return True
        q = self.m.resolve_name(fi.module, norm(c.func)) if isinstance(c.func, (ast.Name, ast.Attribute)) else None
        if q in self.m.classes:
            init = self.m.find_method(q, "__init__")
            if init is not None:
                ps = set(init.params()[1:])
                alias = {t_.id for a in walk_no_nested(init.node) if isinstance(a, ast.Assign) and isinstance(a.value, ast.Name) and a.value.id in ps
                         for t_ in a.targets if isinstance(t_, ast.Name)}
                for x in walk_no_nested(init.node):
                    if isinstance(x, ast.Call) and isinstance(x.func, ast.Name) and x.func.id == "memoryview" and x.args:
                        root = x.args[0]
                        while isinstance(root, ast.Attribute):
                            root = root.value
                        if isinstance(root, ast.Name) and (root.id in ps or root.id in alias or root.id == "self"):
                            return True
        return False

    def exported_earlier(self, e: ast.Call, fi: FuncInfo) -> Optional[ast.Call]:
        """a call earlier in this function that hands the same attribute to something that keeps a memoryview of it"""
        target = norm(e.func.value)
        for c in walk_no_nested(fi.node):
            if isinstance(c, ast.Call) and c.lineno < e.lineno and any(norm(a) == target for a in c.args) and self.exports_buffer(c, fi):
                return c
        # the resize sits in a helper method: a method of the same class hierarchy that exported the attribute and calls the helper
        # afterwards (typically from an exception handler, while the reader over the buffer is still alive)
        if fi.cls is not None and target.startswith("self."):
            for cq in [fi.cls] + [k for k in self.m.classes if fi.cls in self.m.classes[k].mro] + list(self.m.classes[fi.cls].mro):
                kc = self.m.classes.get(cq)
                if kc is None:
                    continue
                for caller in kc.methods.values():
                    if caller is fi or isinstance(caller.node, ast.Lambda):
                        continue
                    calls = [c for c in walk_no_nested(caller.node) if isinstance(c, ast.Call) and isinstance(c.func, ast.Attribute) and norm(c.func.value) == "self" and c.func.attr == fi.name]
                    if not calls:
                        continue
                    for c in walk_no_nested(caller.node):
                        if isinstance(c, ast.Call) and any(norm(a) == target for a in c.args) and self.exports_buffer(c, caller) and any(c.lineno < k_.lineno for k_ in calls):
                            return c
        return None

    def format_ok(self, e: ast.Call, fi: FuncInfo) -> Tuple[bool, str]:
        """"<constant template>".format(args): every replacement field names a supplied argument, and a field with a
        format spec is given a value of a type that accepts the spec (int presentation types on an int, none on the rest)"""
        import string
        tpl = e.func.value
        if not (isinstance(tpl, ast.Constant) and isinstance(tpl.value, str)) or e.func.attr != "format":
            return False, "format field may be missing (template is not a literal)"
        if any(isinstance(a, ast.Starred) for a in e.args) or any(k.arg is None for k in e.keywords):
            return False, "format field may be missing (starred arguments)"
        try:
            fields = list(string.Formatter().parse(tpl.value))
        except ValueError:
            return False, "malformed format template"
        auto = 0
        kws = {k.arg: k.value for k in e.keywords}
        for _lit, name, spec, conv in fields:
            if name is None:
                continue
            if name == "":
                arg = e.args[auto] if auto < len(e.args) else None
                auto += 1
            elif name.isdigit():
                arg = e.args[int(name)] if int(name) < len(e.args) else None
            elif name.isidentifier():
                arg = kws.get(name)
            else:
                return False, f"format field `{name}` looks inside its argument"
            if arg is None:
                return False, f"format field `{name}` has no argument"
            if spec and "{" in spec:
                return False, "nested format spec"
            if spec and conv is None:
                at = self.r.strip_opt(self.r.type_of(arg, fi))
                kind = spec[-1]
                if kind in "bcdoxXn":
                    if at not in (prim("int"), prim("bool")):
                        return False, f"integer format spec `{spec}` on a value of type {at}"
                elif kind in "s<>^" or kind.isdigit():
                    if at not in (prim("int"), prim("str"), prim("strlike")):
                        return False, f"format spec `{spec}` on a value of type {at}"
                else:
                    return False, f"format spec `{spec}` not modelled"
        return True, "every replacement field of the literal template has its argument"

    def to_bytes_ok(self, e: ast.Call, facts: FrozenSet[Fact], fi: FuncInfo) -> Tuple[bool, str]:
        """x.to_bytes(n, "big") cannot overflow when x >= 0, unsigned, and n is (by its only definition in the function)
        `(x.bit_length() + 7) // 8` - the minimal octet count of x."""
        x = e.func.value
        n = e.args[0] if e.args else next((k.value for k in e.keywords if k.arg == "length"), None)
        if any(k.arg == "signed" and not (isinstance(k.value, ast.Constant) and k.value.value is False) for k in e.keywords):
            return False, "signed encoding: length may be too small for the value"
        if not isinstance(x, ast.Name) or n is None:
            return False, "length may be too small for the value"
        xl, _ = self.ival(x, facts, fi)
        if xl < 0:
            return False, f"`{x.id}` not known non-negative"
        want = {f"({x.id}.bit_length() + 7) // 8", f"({x.id}.bit_length() + 7) >> 3", f"(7 + {x.id}.bit_length()) // 8"}
        nexpr = n
        if isinstance(n, ast.Name):
            defs = [a for a in walk_no_nested(fi.node) if isinstance(a, (ast.Assign, ast.AugAssign, ast.AnnAssign, ast.For, ast.NamedExpr)) and
                    any(isinstance(t_, ast.Name) and t_.id == n.id and isinstance(t_.ctx, ast.Store) for t_ in ast.walk(a))]
            xdefs = [a for a in walk_no_nested(fi.node) if isinstance(a, (ast.Assign, ast.AugAssign, ast.AnnAssign, ast.For, ast.NamedExpr)) and
                     any(isinstance(t_, ast.Name) and t_.id == x.id and isinstance(t_.ctx, ast.Store) for t_ in ast.walk(a))]
            if len(defs) != 1 or not isinstance(defs[0], ast.Assign) or xdefs:
                return False, "length may be too small for the value"
            nexpr = defs[0].value
        if norm(nexpr) in want:
            return True, f"length is defined as the minimal octet count of `{x.id}` (>= 0)"
        return False, "length may be too small for the value"

    def callback_escapes(self, cb: ast.expr, ctx, site: ast.Call, ptypes=None) -> Set[Esc]:
        fi: FuncInfo = ctx["fi"]
        t = self.r.type_of(cb, fi)
        if t[0] == "funcs":
            out: Set[Esc] = set()
            for q in t[1]:
                out |= self.call_summary(self.m.functions[q], None, ctx, site, None)
            return out
        if t in (prim("str"), prim("bytes")) or isinstance(cb, (ast.Constant, ast.JoinedStr)):
            return set()
        if isinstance(cb, ast.Lambda) and not isinstance(fi.node, ast.Lambda):
            li = self.r.lambda_info(fi, cb, ptypes)
            return self.call_summary(li, None, ctx, site, None)
        if isinstance(cb, ast.Attribute) and isinstance(cb.value, ast.Name) and cb.value.id == "operator" and \
                cb.attr in ("eq", "ne", "lt", "le", "gt", "ge", "is_", "is_not", "not_", "truth", "and_", "or_", "xor", "add", "sub", "mul", "neg", "pos", "index"):
            return set()          # comparisons / total arithmetic on the values this package hands them (ints, bytes, str)
        if isinstance(cb, ast.Call) and norm(cb.func) in ("functools.partial", "partial") and cb.args:
            return self.callback_escapes(cb.args[0], ctx, site)
        if isinstance(cb, ast.Call) and self._is_getter_expr(cb):
            return set()
        if isinstance(cb, ast.Name) and cb.id not in fi.params():
            gq = [g for g in self.m.modules[fi.module].globals_.get(cb.id, []) if isinstance(g, (ast.Assign, ast.AnnAssign)) and g.value is not None]
            if len(gq) == 1 and isinstance(gq[0].value, ast.Call) and (norm(gq[0].value.func) in ("functools.partial", "partial") or self._is_getter_expr(gq[0].value)):
                return self.callback_escapes(gq[0].value, ctx, site)
        self.unknown_calls.append(f"{fi.qualname}:{site.lineno} callback {norm(cb)[:60]}")
        return {Esc("Other", fi.qualname, norm(site)[:120], site.lineno, "unknown-call")}

    def struct_unpack_ok(self, e: ast.Call, facts: FrozenSet[Fact]) -> Tuple[bool, str]:
        if len(e.args) != 2 or not (isinstance(e.args[0], ast.Constant) and e.args[0].value == "B"):
            return False, "only the single-octet format \"B\" is modelled"
        a = e.args[1]
        if not (isinstance(a, ast.Subscript) and isinstance(a.slice, ast.Slice) and a.slice.step is None):
            return False, "argument is not a one-octet slice"
        x = norm(a.value)
        lo, hi = a.slice.lower, a.slice.upper
        if (lo is None or const_int(lo) == 0) and const_int(hi) == 1:
            ok = ("T", x) in facts or any(f[0] == "LEN>=" and f[1] == x and _ge1(f[2]) for f in facts)
            return ok, f"`{x}[:1]` has one octet iff `{x}` is non-empty" + ("" if ok else " (not established)")
        if isinstance(lo, ast.Name) and isinstance(hi, ast.BinOp) and isinstance(hi.op, ast.Add) and norm(hi.left) == lo.id and const_int(hi.right) == 1:
            i = lo.id
            have_len = ("LEN>=", x, f"{i} + 1") in facts or ("LTLEN", i, x) in facts or ("IDX", i, x) in facts or \
                any(f[0] == "LT" and f[1] == i and (("LEN>=", x, f[2]) in facts or ("ISLEN", f[2], x) in facts) for f in facts)       # i < V <= len(x)
            nonneg = ("GE0", i) in facts or any(f[0] == "LE" and f[2] == i and _const_ge(f[1], 0) for f in facts)
            return (have_len and nonneg), f"needs len({x}) >= {i}+1 ({'ok' if have_len else 'missing'}) and {i} >= 0 ({'ok' if nonneg else 'missing'})"
        return False, "slice bounds not recognised"


def _is_int(s: str) -> bool:
    try:
        int(s)
        return True
    except (ValueError, TypeError):
        return False


def _ge1(k: str) -> bool:
    return _const_ge(k, 1)


def _const_ge(k: str, n: int) -> bool:
    if _is_int(k):
        return int(k) >= n
    # forms like "idx + 1" with idx >= 0 are handled by callers
    return False
