"""The decode region of LDAPSession.receive.

The rules about the decode loop (C02 L4, C06 Q1, C18 E2) are statements about `receive` *and* any private helper
the loop was moved into.  The region is found through the call graph, never by name: it is `receive` plus every
package function on a call chain from `receive` to `_messages.unpack_ldap_message` (exclusive), with the names
that denote the stream-level reader and the list of decoded messages tracked through the argument lists."""
from __future__ import annotations

import ast
from dataclasses import dataclass, field
from typing import Dict, List, Optional, Set

from .srcmodel import AnalysisError, FuncInfo, Model, norm, walk_no_nested

UNPACK = "sansldap._messages.unpack_ldap_message"
READER = "sansldap.asn1.ASN1Reader"
RECEIVE = "sansldap._session.LDAPSession.receive"


@dataclass
class RegionFn:
    fi: FuncInfo
    readers: Set[str] = field(default_factory=set)      # names denoting a stream-level reader
    lists: Set[str] = field(default_factory=set)        # names denoting the list of decoded messages
    returns_list: bool = False


def _callee(model: Model, fi: FuncInfo, call: ast.Call) -> Optional[FuncInfo]:
    f = call.func
    if isinstance(f, ast.Name):
        q = model.resolve_name(fi.module, f.id)
        return model.functions.get(q) if q else None
    if isinstance(f, ast.Attribute) and isinstance(f.value, ast.Name) and f.value.id in ("self", "cls") and fi.cls:
        return model.find_method(fi.cls, f.attr)
    if isinstance(f, ast.Attribute):
        q = model.resolve_name(fi.module, norm(f))
        return model.functions.get(q) if q else None
    return None


def _reaches_unpack(model: Model, fi: FuncInfo, seen: Optional[Set[str]] = None) -> bool:
    seen = seen if seen is not None else set()
    if fi.qualname in seen:
        return False
    seen.add(fi.qualname)
    for n in walk_no_nested(fi.node):
        if isinstance(n, ast.Call):
            c = _callee(model, fi, n)
            if c is None:
                continue
            if c.qualname == UNPACK:
                return True
            if c.module.startswith("sansldap") and c.module != "sansldap.asn1" and _reaches_unpack(model, c, seen):
                return True
    return False


def _params(fi: FuncInfo) -> List[str]:
    ps = fi.params()
    return ps[1:] if fi.cls and not fi.is_staticmethod else ps


def decode_region(model: Model) -> List[RegionFn]:
    root = model.functions.get(RECEIVE)
    if root is None:
        raise AnalysisError("LDAPSession.receive not found")
    if UNPACK not in model.functions:
        raise AnalysisError("_messages.unpack_ldap_message not found")
    region: Dict[str, RegionFn] = {}

    def local_facts(rf: RegionFn) -> None:
        fi = rf.fi
        for n in walk_no_nested(fi.node):
            if isinstance(n, (ast.Assign, ast.AnnAssign)) and n.value is not None:
                tg = n.targets if isinstance(n, ast.Assign) else [n.target]
                names = [t.id for t in tg if isinstance(t, ast.Name)]
                v = n.value
                if isinstance(v, ast.Call) and model.resolve_name(fi.module, norm(v.func)) == READER:
                    rf.readers |= set(names)
        final = fi.node.body[-1] if fi.node.body and isinstance(fi.node.body[-1], ast.Return) else None
        if final is not None and isinstance(final.value, ast.Name):
            nm = final.value.id
            inits = [n for n in walk_no_nested(fi.node) if isinstance(n, (ast.Assign, ast.AnnAssign)) and n.value is not None and
                     any(isinstance(t, ast.Name) and t.id == nm for t in (n.targets if isinstance(n, ast.Assign) else [n.target]))]
            if inits and all(isinstance(i.value, ast.List) and not i.value.elts for i in inits[:1]):
                rf.lists.add(nm)
                rf.returns_list = True

    def visit(rf: RegionFn) -> None:
        fi = rf.fi
        for n in walk_no_nested(fi.node):
            if not isinstance(n, ast.Call):
                continue
            c = _callee(model, fi, n)
            if c is None or c.qualname == UNPACK or c.qualname == fi.qualname or isinstance(c.node, ast.Lambda):
                continue
            if not (c.module.startswith("sansldap") and c.module != "sansldap.asn1" and _reaches_unpack(model, c)):
                continue
            sub = region.get(c.qualname)
            fresh = sub is None
            if fresh:
                sub = RegionFn(c)
                region[c.qualname] = sub
                local_facts(sub)
            ps = _params(c)
            before = (set(sub.readers), set(sub.lists))
            for i, a in enumerate(n.args):
                if i < len(ps) and isinstance(a, ast.Name):
                    if a.id in rf.readers:
                        sub.readers.add(ps[i])
                    if a.id in rf.lists:
                        sub.lists.add(ps[i])
            for k in n.keywords:
                if k.arg in ps and isinstance(k.value, ast.Name):
                    if k.value.id in rf.readers:
                        sub.readers.add(k.arg)
                    if k.value.id in rf.lists:
                        sub.lists.add(k.arg)
            if fresh or before != (sub.readers, sub.lists):
                visit(sub)

    r0 = RegionFn(root)
    region[root.qualname] = r0
    local_facts(r0)
    # a list bound to the result of a region helper that returns its own list
    visit(r0)
    for _ in range(3):
        changed = False
        for rf in list(region.values()):
            for n in walk_no_nested(rf.fi.node):
                if isinstance(n, ast.Assign) and isinstance(n.value, ast.Call):
                    c = _callee(model, rf.fi, n.value)
                    if c is not None and c.qualname in region and region[c.qualname].returns_list:
                        for t in n.targets:
                            if isinstance(t, ast.Name) and t.id not in rf.lists:
                                rf.lists.add(t.id)
                                changed = True
        if not changed:
            break
        for rf in list(region.values()):
            visit(rf)
    return list(region.values())


def region_call_returning_list(model: Model, region: List[RegionFn], fi: FuncInfo, call: ast.Call) -> bool:
    c = _callee(model, fi, call)
    return c is not None and any(r.fi.qualname == c.qualname and r.returns_list for r in region)
