"""Syntactic normalisation applied to every module when the source model is loaded.

The engines are written for the statement kinds the library uses; a refactoring that only changes the *spelling* of control
flow should not change any verdict.  Four spellings are brought back to the forms the engines read (line numbers are kept,
so reports still point at the real source):

  * `match subject: case ...`           -> an if / elif chain over the same tests (value, class, or-, wildcard and capture
                                           patterns, guards); anything else is left alone
  * `for a, b in <constant table>: ...` -> the body once per row with the row's values substituted for the loop variables
                                           (rows of constants, names and attribute chains; a table bound once to a local,
                                           a class attribute or a module-level name); `break` keeps its meaning through a
                                           one-trip `while True:` wrapper
  * `getattr(x, "name")`                -> `x.name`
  * `if (n := e) ...` / plain `x = (n := e)` walrus at statement head -> the assignment first, then the statement

Nothing is evaluated: the pass moves syntax around.  What it cannot prove to be the same program it does not touch."""
from __future__ import annotations

import ast
import copy
from typing import Dict, List, Optional

MAX_ROWS = 24


def _simple(e: ast.expr) -> bool:
    """side-effect free and stable: constants, names, attribute chains, tuples of those"""
    if isinstance(e, ast.Constant):
        return True
    if isinstance(e, ast.Name):
        return True
    if isinstance(e, ast.Attribute):
        return _simple(e.value)
    if isinstance(e, ast.Tuple):
        return all(_simple(x) for x in e.elts)
    return False


def _is_enum_like(a: ast.Attribute) -> bool:
    """`Name.MEMBER` with both parts capitalised the way classes and their constants are: a value that cannot change between
    the call and the use"""
    return isinstance(a.value, ast.Name) and a.value.id[:1].isupper() and a.attr.isupper()


def _loop_level(stmts: List[ast.stmt], kinds) -> bool:
    """does a statement of one of `kinds` (Break/Continue) belong to *this* loop level?"""
    for s in stmts:
        if isinstance(s, kinds):
            return True
        if isinstance(s, (ast.For, ast.While, ast.AsyncFor)):
            if _loop_level(s.orelse, kinds):
                return True
            continue
        if isinstance(s, (ast.FunctionDef, ast.AsyncFunctionDef, ast.ClassDef)):
            continue
        for fld in ("body", "orelse", "finalbody"):
            sub = getattr(s, fld, None)
            if isinstance(sub, list) and sub and isinstance(sub[0], ast.stmt) and _loop_level(sub, kinds):
                return True
        if isinstance(s, ast.Try):
            for h in s.handlers:
                if _loop_level(h.body, kinds):
                    return True
        if hasattr(ast, "Match") and isinstance(s, ast.Match):
            for c in s.cases:
                if _loop_level(c.body, kinds):
                    return True
    return False


class _Subst(ast.NodeTransformer):
    def __init__(self, mapping: Dict[str, ast.expr]):
        self.mapping = mapping

    def visit_Name(self, n: ast.Name):
        if isinstance(n.ctx, ast.Load) and n.id in self.mapping:
            return ast.copy_location(copy.deepcopy(self.mapping[n.id]), n)
        return n


class Desugar(ast.NodeTransformer):
    def __init__(self, module_tree: ast.Module):
        self.tmp = 0
        # module-level names bound exactly once to a literal table
        self.module_tables: Dict[str, ast.expr] = {}
        counts: Dict[str, int] = {}
        for s in module_tree.body:
            tg = s.targets if isinstance(s, ast.Assign) else [s.target] if isinstance(s, (ast.AnnAssign, ast.AugAssign)) else []
            for t_ in tg:
                if isinstance(t_, ast.Name):
                    counts[t_.id] = counts.get(t_.id, 0) + 1
        for s in module_tree.body:
            if isinstance(s, (ast.Assign, ast.AnnAssign)) and s.value is not None:
                tg = s.targets if isinstance(s, ast.Assign) else [s.target]
                if len(tg) == 1 and isinstance(tg[0], ast.Name) and counts.get(tg[0].id) == 1 and self._table(s.value) is not None:
                    self.module_tables[tg[0].id] = s.value
        # module-level generator functions that can be expanded at a `for` over a call of them
        self.generators: Dict[str, ast.FunctionDef] = {}
        for s in module_tree.body:
            if isinstance(s, ast.FunctionDef) and not s.decorator_list:
                g_ = self._rewrite_yield_from(s) if any(isinstance(x, ast.YieldFrom) for x in ast.walk(s)) else s
                if self._inlinable_generator(g_):
                    self.generators[s.name] = g_
        # NAME = functools.partial(f, <simple arguments>) at module level, bound once: NAME(x) is f(<arguments>, x)
        self.partials: Dict[str, ast.Call] = {}
        for s in module_tree.body:
            if isinstance(s, (ast.Assign, ast.AnnAssign)) and s.value is not None and isinstance(s.value, ast.Call):
                tg = s.targets if isinstance(s, ast.Assign) else [s.target]
                c = s.value
                fn_txt = ast.unparse(c.func)
                if len(tg) == 1 and isinstance(tg[0], ast.Name) and counts.get(tg[0].id) == 1 and fn_txt in ("functools.partial", "partial") and c.args and \
                        isinstance(c.args[0], (ast.Name, ast.Attribute)) and all(_simple(a) for a in c.args) and all(k.arg is not None and _simple(k.value) for k in c.keywords):
                    self.partials[tg[0].id] = c
        # leaf helpers: module-level functions that are one `return <expr>` over their parameters and call nothing defined in the
        # module (formatting / conversion one-liners): a call of one is replaced by the expression
        self.leaf_helpers: Dict[str, ast.FunctionDef] = {}
        local_defs = {x.name for x in module_tree.body if isinstance(x, (ast.FunctionDef, ast.AsyncFunctionDef, ast.ClassDef))}
        for s in module_tree.body:
            if isinstance(s, ast.FunctionDef) and not s.decorator_list and counts.get(s.name, 0) == 0 and \
                    sum(1 for x in module_tree.body if isinstance(x, (ast.FunctionDef, ast.ClassDef)) and x.name == s.name) == 1:
                a = s.args
                body = [b for b in s.body if not (isinstance(b, ast.Expr) and isinstance(b.value, ast.Constant))]
                if a.vararg or a.kwarg or a.kwonlyargs or a.posonlyargs or a.defaults or len(body) != 1 or not isinstance(body[0], ast.Return) or body[0].value is None:
                    continue
                ret = body[0].value
                if any(isinstance(x, (ast.Lambda, ast.NamedExpr, ast.Yield, ast.YieldFrom, ast.Await, ast.ListComp, ast.SetComp, ast.DictComp, ast.GeneratorExp, ast.IfExp, ast.BoolOp))
                       for x in ast.walk(ret)):
                    continue
                if any(isinstance(x, ast.Name) and x.id in local_defs for x in ast.walk(ret)):
                    continue
                params = [p.arg for p in a.args]
                uses = {p: sum(1 for x in ast.walk(ret) if isinstance(x, ast.Name) and x.id == p) for p in params}
                if all(u == 1 for u in uses.values()) and params:
                    self.leaf_helpers[s.name] = s
        # NAME = struct.Struct("<fmt>") at module level, bound once: NAME.unpack(x) is struct.unpack("<fmt>", x)
        self.structs: Dict[str, ast.expr] = {}
        for s in module_tree.body:
            if isinstance(s, (ast.Assign, ast.AnnAssign)) and s.value is not None and isinstance(s.value, ast.Call):
                tg = s.targets if isinstance(s, ast.Assign) else [s.target]
                c = s.value
                if len(tg) == 1 and isinstance(tg[0], ast.Name) and counts.get(tg[0].id) == 1 and ast.unparse(c.func) == "struct.Struct" and len(c.args) == 1 and \
                        not c.keywords and isinstance(c.args[0], ast.Constant) and isinstance(c.args[0].value, (str, bytes)):
                    self.structs[tg[0].id] = c.args[0]
        self.dict_helpers: Dict[str, ast.FunctionDef] = {}
        for s in module_tree.body:
            if isinstance(s, ast.FunctionDef) and self._dict_helper(s) and \
                    sum(1 for x in module_tree.body if isinstance(x, (ast.FunctionDef, ast.ClassDef)) and x.name == s.name) == 1:
                self.dict_helpers[s.name] = s
        self.context_managers: Dict[str, ast.Try] = {}
        for s in module_tree.body:
            if isinstance(s, ast.FunctionDef):
                tr = self._context_manager_try(s)
                if tr is not None and sum(1 for x in module_tree.body if isinstance(x, (ast.FunctionDef, ast.ClassDef)) and x.name == s.name) == 1:
                    self.context_managers[s.name] = tr
        # private @contextmanager methods, defined once in the module, that a `with self._m(simple arguments):` can be replaced by
        self.method_context_managers: Dict[str, tuple] = {}
        seen_methods: Dict[str, int] = {}
        for c in module_tree.body:
            if isinstance(c, ast.ClassDef):
                for s in c.body:
                    if isinstance(s, (ast.FunctionDef, ast.AsyncFunctionDef)):
                        seen_methods[s.name] = seen_methods.get(s.name, 0) + 1
        for c in module_tree.body:
            if isinstance(c, ast.ClassDef):
                for s in c.body:
                    if isinstance(s, ast.FunctionDef) and s.name.startswith("_") and not s.name.startswith("__") and seen_methods[s.name] == 1:
                        tr = self._context_manager_try(s, method=True)
                        if tr is not None:
                            self.method_context_managers[s.name] = (tr, [a.arg for a in s.args.args[1:]])
        # @contextmanager methods without a try: `PRE; yield; POST` - POST runs when the block completes, not when it raises
        self.linear_context_managers: Dict[str, tuple] = {}
        for c in module_tree.body:
            if isinstance(c, ast.ClassDef):
                for s in c.body:
                    if isinstance(s, ast.FunctionDef) and not s.name.startswith("__") and seen_methods[s.name] == 1:
                        lin = self._context_manager_linear(s)
                        if lin is not None:
                            self.linear_context_managers[s.name] = lin + ([a.arg for a in s.args.args[1:]],)
        self.carriers = {c.name: info for c in module_tree.body if isinstance(c, ast.ClassDef) for info in [self._carrier_info(c)] if info is not None}
        self.class_is_carrier = False
        self.class_tables: List[Dict[str, ast.expr]] = []
        self.attr_stores = {x.attr for x in ast.walk(module_tree) if isinstance(x, ast.Attribute) and isinstance(x.ctx, (ast.Store, ast.Del))}
        self.func_stack: List[ast.AST] = []
        self.count = {"match": 0, "unrolled": 0, "getattr": 0, "walrus": 0}

    # ------------------------------------------------------------------ generators
    @staticmethod
    def _inlinable_generator(fn: ast.FunctionDef) -> bool:
        a = fn.args
        if a.vararg or a.kwarg:
            return False
        yields = [x for x in ast.walk(fn) if isinstance(x, ast.Yield)]
        if not yields or any(isinstance(x, (ast.YieldFrom, ast.Return, ast.FunctionDef, ast.AsyncFunctionDef, ast.Lambda, ast.ClassDef, ast.Global, ast.Nonlocal, ast.Await))
                             for b in fn.body for x in ast.walk(b)):
            return False
        stmts = {id(x.value) for b in fn.body for x in ast.walk(b) if isinstance(x, ast.Expr)}
        if any(id(y) not in stmts or y.value is None for y in yields):
            return False                       # a yield whose sent value is used, or a bare yield
        if any(isinstance(x, ast.Name) and x.id == fn.name for b in fn.body for x in ast.walk(b)):
            return False                       # recursive
        return True

    def _generator_call(self, e: ast.expr) -> Optional[ast.FunctionDef]:
        if isinstance(e, ast.Call) and isinstance(e.func, ast.Name) and e.func.id in self.generators and \
                not any(isinstance(a, ast.Starred) for a in e.args) and not any(k.arg is None for k in e.keywords):
            fn = self.generators[e.func.id]
            if self.func_stack and self.func_stack[-1] is fn:
                return None
            return fn
        return None

    def _expand_generator(self, fn: ast.FunctionDef, call: ast.Call, target: ast.expr, body: List[ast.stmt], at: ast.stmt) -> Optional[List[ast.stmt]]:
        """the statements of `for target in fn(args): body` with the generator's code in place of the iteration protocol"""
        self.tmp += 1
        k = self.tmp
        a = fn.args
        pos = a.posonlyargs + a.args
        params = [p.arg for p in pos] + [p.arg for p in a.kwonlyargs]
        bound: Dict[str, ast.expr] = {}
        for i, arg in enumerate(call.args):
            if i >= len(pos):
                return None
            bound[pos[i].arg] = arg
        for kw in call.keywords:
            if kw.arg not in params or kw.arg in bound:
                return None
            bound[kw.arg] = kw.value
        defaults = {p.arg: d for p, d in zip(pos[len(pos) - len(a.defaults):], a.defaults)} if a.defaults else {}
        defaults.update({p.arg: d for p, d in zip(a.kwonlyargs, a.kw_defaults) if d is not None})
        gbody = [b for b in fn.body if not (isinstance(b, ast.Expr) and isinstance(b.value, ast.Constant))]
        stores = {x.id for b in gbody for x in ast.walk(b) if isinstance(x, ast.Name) and isinstance(x.ctx, (ast.Store, ast.Del))}
        pre: List[ast.stmt] = []
        mapping: Dict[str, ast.expr] = {}
        thunks: Dict[str, ast.expr] = {}
        for p_ in params:
            val = bound.get(p_, defaults.get(p_))
            if val is None:
                return None
            if p_ not in stores and isinstance(val, ast.Lambda) and not (val.args.args or val.args.posonlyargs or val.args.kwonlyargs or val.args.vararg or val.args.kwarg) and \
                    all(isinstance(u, ast.Call) and u.func is x_ for x_ in (y for b in gbody for y in ast.walk(b) if isinstance(y, ast.Name) and y.id == p_)
                        for u in [next((c_ for b in gbody for c_ in ast.walk(b) if isinstance(c_, ast.Call) and c_.func is x_), None)]):
                thunks[p_] = val.body           # a parameterless callback that the generator only calls: its body at each call
            elif p_ not in stores and _simple(val):
                mapping[p_] = val
            else:
                nm = f"{p_}__g{k}"
                pre.append(ast.copy_location(ast.Assign(targets=[ast.Name(id=nm, ctx=ast.Store())], value=copy.deepcopy(val)), at))
                mapping[p_] = ast.Name(id=nm, ctx=ast.Load())
        rename = {n: f"{n}__g{k}" for n in stores}
        for p_ in params:
            if p_ in stores:
                rename[p_] = f"{p_}__g{k}"
        for p_ in thunks:
            rename.pop(p_, None)

        outer = self

        class R(ast.NodeTransformer):
            def visit_Call(self, n: ast.Call):
                if isinstance(n.func, ast.Name) and n.func.id in thunks and not n.args and not n.keywords:
                    return ast.copy_location(copy.deepcopy(thunks[n.func.id]), n)
                return self.generic_visit(n)

            def visit_Name(self, n: ast.Name):
                if n.id in rename:
                    return ast.copy_location(ast.Name(id=rename[n.id], ctx=n.ctx), n)
                if isinstance(n.ctx, ast.Load) and n.id in mapping:
                    return ast.copy_location(copy.deepcopy(mapping[n.id]), n)
                return n

            def visit_Expr(self, n: ast.Expr):
                if isinstance(n.value, ast.Yield):
                    val = self.visit(copy.deepcopy(n.value.value))
                    asg = ast.copy_location(ast.Assign(targets=[copy.deepcopy(target)], value=val), n)
                    return [asg] + [copy.deepcopy(b) for b in body]
                return self.generic_visit(n)
        out = pre + [x for b in gbody for x in (lambda r: r if isinstance(r, list) else [r])(R().visit(copy.deepcopy(b)))]
        out = self._propagate_constants(out, set(rename.values()) | {f"{p_}__g{k}" for p_ in params})
        for x in out:
            ast.copy_location(x, at) if not hasattr(x, "lineno") else None
            ast.fix_missing_locations(x)
        self.count["generator"] = self.count.get("generator", 0) + 1
        return out

    CONTAINERS = {"list": ("list", "append"), "bytearray": ("bytearray", "append"), "set": ("set", "add"), "dict": ("dict", None)}

    @staticmethod
    def _fold_int(e: ast.expr) -> ast.expr:
        """integer arithmetic on literals, bottom-up"""
        class F(ast.NodeTransformer):
            def visit_BinOp(self, n: ast.BinOp):
                n = self.generic_visit(n)
                l, r = n.left, n.right
                if isinstance(l, ast.Constant) and isinstance(r, ast.Constant) and type(l.value) is int and type(r.value) is int:
                    try:
                        if isinstance(n.op, ast.Add):
                            v = l.value + r.value
                        elif isinstance(n.op, ast.Sub):
                            v = l.value - r.value
                        elif isinstance(n.op, ast.Mult):
                            v = l.value * r.value
                        elif isinstance(n.op, ast.LShift) and 0 <= r.value <= 64:
                            v = l.value << r.value
                        elif isinstance(n.op, ast.RShift) and 0 <= r.value <= 64:
                            v = l.value >> r.value
                        elif isinstance(n.op, ast.BitOr):
                            v = l.value | r.value
                        elif isinstance(n.op, ast.BitAnd):
                            v = l.value & r.value
                        else:
                            return n
                    except Exception:
                        return n
                    if abs(v) < 2 ** 70:
                        return ast.copy_location(ast.Constant(value=v), n)
                return n
        return F().visit(e)

    def _propagate_constants(self, stmts: List[ast.stmt], names) -> List[ast.stmt]:
        """among the fresh locals of an expansion: one bound once, at the top level, to an integer literal expression is
        replaced by the literal (so `mask = (1 << width) - 1` with width=7 reads as 127 where it is used)"""
        mod = ast.Module(body=stmts, type_ignores=[])
        changed = True
        while changed:
            changed = False
            for i, s_ in enumerate(mod.body):
                if isinstance(s_, ast.Assign) and len(s_.targets) == 1 and isinstance(s_.targets[0], ast.Name) and s_.targets[0].id in names:
                    nm = s_.targets[0].id
                    v = self._fold_int(copy.deepcopy(s_.value))
                    stores = [x for x in ast.walk(mod) if isinstance(x, ast.Name) and x.id == nm and isinstance(x.ctx, (ast.Store, ast.Del))]
                    if isinstance(v, ast.Constant) and type(v.value) is int and len(stores) == 1:
                        class S(ast.NodeTransformer):
                            def visit_Name(self, n: ast.Name):
                                if n.id == nm and isinstance(n.ctx, ast.Load):
                                    return ast.copy_location(ast.Constant(value=v.value), n)
                                return n
                        rest = [S().visit(x) for j, x in enumerate(mod.body) if j != i]
                        mod.body = rest
                        changed = True
                        break
        return mod.body

    def _comprehension_loop(self, value: ast.expr, at: ast.stmt):
        """(container kind, iterable call, loop target, conditions, element, counter name or None) for
             [E for v in gen(...)]   list(gen(...))   bytearray(gen(...))   bytearray(E for i, v in enumerate(gen(...)))  ...
           where gen is an expandable module-level generator; None otherwise"""
        kind = None
        comp = None
        if isinstance(value, ast.ListComp):
            kind, comp = "list", value
        elif isinstance(value, ast.Call) and isinstance(value.func, ast.Name) and value.func.id in self.CONTAINERS and len(value.args) == 1 and not value.keywords:
            kind = value.func.id
            a0 = value.args[0]
            if isinstance(a0, (ast.GeneratorExp, ast.ListComp)):
                comp = a0
            else:
                self.tmp += 1
                tgt = ast.Name(id=f"__item{self.tmp}", ctx=ast.Store())
                if self._generator_call(a0) is None:
                    return None
                return kind, a0, tgt, [], ast.Name(id=tgt.id, ctx=ast.Load()), None
        if comp is None or len(comp.generators) != 1 or comp.generators[0].is_async:
            return None
        g = comp.generators[0]
        it, tgt, counter = g.iter, g.target, None
        if isinstance(it, ast.Call) and isinstance(it.func, ast.Name) and it.func.id == "enumerate" and len(it.args) == 1 and not it.keywords and \
                isinstance(tgt, ast.Tuple) and len(tgt.elts) == 2 and isinstance(tgt.elts[0], ast.Name):
            counter, it, tgt = tgt.elts[0].id, it.args[0], tgt.elts[1]
        if self._generator_call(it) is None:
            return None
        return kind, it, tgt, list(g.ifs), comp.elt, counter

    def _list_building(self, listname: str, parts, at: ast.stmt) -> List[ast.stmt]:
        kind, it, tgt, ifs, elt, counter = parts
        ctor, adder = self.CONTAINERS[kind]
        if kind == "dict":
            # dict(<pairs>): d[k] = v for every pair
            if isinstance(elt, ast.Tuple) and len(elt.elts) == 2:
                k_, v_ = elt.elts
                pre_pair: List[ast.stmt] = []
            else:
                self.tmp += 1
                kn, vn = f"__k{self.tmp}", f"__v{self.tmp}"
                pre_pair = [ast.Assign(targets=[ast.Tuple(elts=[ast.Name(id=kn, ctx=ast.Store()), ast.Name(id=vn, ctx=ast.Store())], ctx=ast.Store())], value=elt)]
                k_, v_ = ast.Name(id=kn, ctx=ast.Load()), ast.Name(id=vn, ctx=ast.Load())
            app = ast.Assign(targets=[ast.Subscript(value=ast.Name(id=listname, ctx=ast.Load()), slice=k_, ctx=ast.Store())], value=v_)
        else:
            pre_pair = []
            app = ast.Expr(value=ast.Call(func=ast.Attribute(value=ast.Name(id=listname, ctx=ast.Load()), attr=adder, ctx=ast.Load()), args=[elt], keywords=[]))
        for c in reversed(ifs):
            app = ast.If(test=c, body=[app], orelse=[])
        body: List[ast.stmt] = pre_pair + [app] if not ifs else [app]
        if ifs and pre_pair:
            return [at]
        pre: List[ast.stmt] = []
        if counter is not None:
            if ifs:
                return [at]          # enumerate counts every item, a filtered append does not: left alone
            pre.append(ast.Assign(targets=[ast.Name(id=counter, ctx=ast.Store())], value=ast.Constant(value=0)))
            body.append(ast.AugAssign(target=ast.Name(id=counter, ctx=ast.Store()), op=ast.Add(), value=ast.Constant(value=1)))
        init = ast.Assign(targets=[ast.Name(id=listname, ctx=ast.Store())],
                          value=ast.List(elts=[], ctx=ast.Load()) if kind == "list" else ast.Dict(keys=[], values=[]) if kind == "dict" else
                          ast.Call(func=ast.Name(id=ctor, ctx=ast.Load()), args=[], keywords=[]))
        loop = ast.For(target=tgt, iter=it, body=body, orelse=[])
        out: List[ast.stmt] = []
        for x in [init] + pre + [loop]:
            ast.copy_location(x, at)
            ast.fix_missing_locations(x)
            r = self.visit(x)
            out.extend(r if isinstance(r, list) else [r])
        return out

    def _hoist_inner_walrus(self, node: ast.stmt, value: ast.expr):
        """`x = (h := f()).attr`: the one walrus of the statement, evaluated unconditionally and before anything else that has
        an effect, becomes its own assignment in front"""
        ws = [x for x in ast.walk(value) if isinstance(x, ast.NamedExpr)]
        if len(ws) != 1 or not isinstance(ws[0].target, ast.Name):
            return None
        w = ws[0]
        inner = {id(x) for x in ast.walk(w)}
        for x in ast.walk(value):
            if id(x) in inner:
                continue
            if isinstance(x, (ast.BoolOp, ast.IfExp, ast.Lambda, ast.ListComp, ast.SetComp, ast.DictComp, ast.GeneratorExp)) and any(y is w for y in ast.walk(x)):
                return None
            if isinstance(x, (ast.Call, ast.Await, ast.Yield, ast.YieldFrom)) and not any(y is w for y in ast.walk(x)):
                return None          # another effect in the statement: order could matter
            if isinstance(x, ast.Call) and any(y is w for y in ast.walk(x)):
                # the walrus is an argument / receiver of a call: everything evaluated before it must be effect free
                for a in [x.func] + list(x.args):
                    if any(y is w for y in ast.walk(a)):
                        break
                    if any(isinstance(y, ast.Call) for y in ast.walk(a)):
                        return None
        asg = ast.copy_location(ast.Assign(targets=[ast.Name(id=w.target.id, ctx=ast.Store())], value=w.value), node)
        ast.fix_missing_locations(asg)

        class Rep(ast.NodeTransformer):
            def visit_NamedExpr(self, n):
                if n is w:
                    return ast.copy_location(ast.Name(id=w.target.id, ctx=ast.Load()), n)
                return self.generic_visit(n)
        self.count["walrus"] += 1
        return asg, Rep().visit(value)

    def visit_Assign(self, node: ast.Assign):
        if self.func_stack and any(isinstance(x, ast.NamedExpr) for x in ast.walk(node.value)):
            h = self._hoist_inner_walrus(node, node.value)
            if h is not None:
                node.value = h[1]
                r = self.visit(node)
                return [h[0]] + (r if isinstance(r, list) else [r])
        v = node.value
        if self.func_stack and len(node.targets) == 1 and isinstance(v, ast.BoolOp) and isinstance(v.op, ast.Or) and len(v.values) == 2 and isinstance(v.values[0], ast.Name) \
                and not any(isinstance(x, ast.NamedExpr) for x in ast.walk(v)):
            # t = n or e   ->   if n: t = n else: t = e      (n = n or e  ->  if not n: n = e)
            n_, e_ = v.values
            tgt = node.targets[0]
            self.count["or-default"] = self.count.get("or-default", 0) + 1
            fill = ast.Assign(targets=[tgt], value=e_)
            if isinstance(tgt, ast.Name) and tgt.id == n_.id:
                new = ast.If(test=ast.UnaryOp(op=ast.Not(), operand=n_), body=[fill], orelse=[])
            else:
                new = ast.If(test=n_, body=[ast.Assign(targets=[copy.deepcopy(tgt)], value=ast.Name(id=n_.id, ctx=ast.Load()))], orelse=[fill])
            ast.copy_location(new, node)
            for x in ast.walk(new):
                if not hasattr(x, "lineno") and isinstance(x, (ast.stmt, ast.expr)):
                    ast.copy_location(x, node)
            ast.fix_missing_locations(new)
            r = self.visit(new)
            return r if isinstance(r, list) else [r]
        if self.func_stack and len(node.targets) == 1 and isinstance(node.targets[0], ast.Tuple) and isinstance(v, ast.Call) and isinstance(v.func, ast.Attribute) \
                and v.func.attr == "group" and _simple(v.func.value) and not v.keywords and len(v.args) == len(node.targets[0].elts) >= 2 \
                and all(isinstance(a, ast.Constant) and isinstance(a.value, (str, int)) for a in v.args) and all(isinstance(t_, ast.Name) for t_ in node.targets[0].elts) \
                and not any(isinstance(x, ast.Name) and x.id in {t_.id for t_ in node.targets[0].elts} for x in ast.walk(v.func.value)):
            # a, b = m.group("x", "y")  ->  a = m.group("x"); b = m.group("y")
            out = []
            for t_, a in zip(node.targets[0].elts, v.args):
                one = ast.Assign(targets=[t_], value=ast.Call(func=copy.deepcopy(v.func), args=[a], keywords=[]))
                ast.copy_location(one, node)
                ast.fix_missing_locations(one)
                out.append(one)
            self.count["group-split"] = self.count.get("group-split", 0) + 1
            return out
        if self.func_stack and len(node.targets) == 1 and isinstance(node.targets[0], ast.Tuple) and len(node.targets[0].elts) == 2 and isinstance(v, ast.Call) \
                and isinstance(v.func, ast.Name) and v.func.id == "divmod" and len(v.args) == 2 and not v.keywords and all(_simple(a) for a in v.args) \
                and all(isinstance(t_, ast.Name) for t_ in node.targets[0].elts) and not self._is_local("divmod"):
            # q, r = divmod(x, y)  ->  r = x % y; q = x // y   (the target that x and y do not mention first)
            tq, tr = node.targets[0].elts
            used = {x.id for a in v.args for x in ast.walk(a) if isinstance(x, ast.Name)}
            mk = lambda t_, op: ast.Assign(targets=[ast.Name(id=t_.id, ctx=ast.Store())], value=ast.BinOp(left=copy.deepcopy(v.args[0]), op=op, right=copy.deepcopy(v.args[1])))
            order = None
            if tr.id not in used:
                order = [mk(tr, ast.Mod()), mk(tq, ast.FloorDiv())]
            elif tq.id not in used:
                order = [mk(tq, ast.FloorDiv()), mk(tr, ast.Mod())]
            if order is not None and tq.id != tr.id:
                for o in order:
                    ast.copy_location(o, node)
                    for x in ast.walk(o):
                        if isinstance(x, (ast.expr,)):
                            ast.copy_location(x, node)
                    ast.fix_missing_locations(o)
                self.count["divmod"] = self.count.get("divmod", 0) + 1
                return order
        pre = self._splat_helper(node, v) if self.func_stack else None
        if pre is not None:
            r = self.visit(node)
            return pre + (r if isinstance(r, list) else [r])
        if len(node.targets) == 1 and isinstance(node.targets[0], ast.Tuple) and isinstance(node.value, ast.Tuple) and self.func_stack and \
                len(node.targets[0].elts) == len(node.value.elts) and all(isinstance(t_, ast.Name) for t_ in node.targets[0].elts) and \
                not any(isinstance(x, ast.Starred) for x in node.value.elts):
            # a, b = (x, y)  ->  a = x; b = y   when no right-hand side mentions a target
            names = {t_.id for t_ in node.targets[0].elts}
            if not any(isinstance(x, ast.Name) and x.id in names for v in node.value.elts for x in ast.walk(v)):
                out: List[ast.stmt] = []
                for t_, v in zip(node.targets[0].elts, node.value.elts):
                    a_ = ast.copy_location(ast.Assign(targets=[t_], value=v), node)
                    ast.fix_missing_locations(a_)
                    r = self.visit(a_)
                    out.extend(r if isinstance(r, list) else [r])
                return out
        if len(node.targets) == 1 and isinstance(node.targets[0], ast.Name) and self.func_stack:
            parts = self._comprehension_loop(node.value, node)
            if parts is not None:
                return self._list_building(node.targets[0].id, parts, node)
        return self.generic_visit(node)

    def visit_Expr(self, node: ast.Expr):
        v = node.value
        if self.func_stack and isinstance(v, ast.Call) and isinstance(v.func, ast.Attribute) and v.func.attr == "extend" and len(v.args) == 1 and not v.keywords \
                and _simple(v.func.value) and self._generator_call(v.args[0]) is not None:
            # xs.extend(gen(...))  ->  for v in gen(...): xs.append(v)
            self.tmp += 1
            nm = f"__e{self.tmp}"
            app = ast.Expr(value=ast.Call(func=ast.Attribute(value=copy.deepcopy(v.func.value), attr="append", ctx=ast.Load()), args=[ast.Name(id=nm, ctx=ast.Load())], keywords=[]))
            loop = ast.For(target=ast.Name(id=nm, ctx=ast.Store()), iter=v.args[0], body=[app], orelse=[])
            ast.copy_location(loop, node)
            for x in ast.walk(loop):
                if isinstance(x, (ast.expr, ast.stmt)) and not hasattr(x, "lineno"):
                    ast.copy_location(x, node)
            ast.fix_missing_locations(loop)
            r = self.visit(loop)
            return r
        return self.generic_visit(node)

    def visit_AnnAssign(self, node: ast.AnnAssign):
        if node.value is not None and isinstance(node.target, ast.Name) and self.func_stack:
            parts = self._comprehension_loop(node.value, node)
            if parts is not None:
                return self._list_building(node.target.id, parts, node)
        return self.generic_visit(node)

    def _or_default_argument(self, node: ast.Return):
        """`return f(a, k=n or e)` with n a plain parameter of the function and everything evaluated before it effect free:
        `if not n: n = e` in front (nothing runs after a return, so re-binding n is not observable)"""
        call = node.value
        fn = self.func_stack[-1]
        if not isinstance(call, ast.Call) or not isinstance(fn, (ast.FunctionDef, ast.AsyncFunctionDef)) or not _simple(call.func):
            return None
        params = {a.arg for a in fn.args.posonlyargs + fn.args.args + fn.args.kwonlyargs}
        args = list(call.args) + [k.value for k in call.keywords]
        for i, a in enumerate(args):
            if isinstance(a, ast.BoolOp) and isinstance(a.op, ast.Or) and len(a.values) == 2 and isinstance(a.values[0], ast.Name) and a.values[0].id in params:
                if not all(_simple(x) for x in args[:i]) or any(isinstance(x, ast.NamedExpr) for x in ast.walk(a)):
                    return None
                if any(isinstance(x, (ast.Try, ast.With)) for x in ast.walk(fn)):
                    return None          # a finally / __exit__ could still look at the parameter
                n_ = a.values[0]
                pre = ast.If(test=ast.UnaryOp(op=ast.Not(), operand=ast.Name(id=n_.id, ctx=ast.Load())),
                             body=[ast.Assign(targets=[ast.Name(id=n_.id, ctx=ast.Store())], value=a.values[1])], orelse=[])
                ast.copy_location(pre, node)
                for x in ast.walk(pre):
                    if not hasattr(x, "lineno") and isinstance(x, (ast.stmt, ast.expr)):
                        ast.copy_location(x, node)
                ast.fix_missing_locations(pre)
                repl = ast.copy_location(ast.Name(id=n_.id, ctx=ast.Load()), a)
                if i < len(call.args):
                    call.args[i] = repl
                else:
                    call.keywords[i - len(call.args)].value = repl
                self.count["or-default"] = self.count.get("or-default", 0) + 1
                return pre
        return None

    def _splat_helper(self, at: ast.stmt, call: ast.expr) -> Optional[List[ast.stmt]]:
        """`C(a=1, **helper(x))` with helper a module-level function whose body is plain assignments and one
        `return {"k": e, ...}`: the helper's assignments (locals renamed) in front of the statement and the dict's entries as
        explicit keywords"""
        if not isinstance(call, ast.Call):
            return None
        for i, k in enumerate(call.keywords):
            if k.arg is not None or not (isinstance(k.value, ast.Call) and isinstance(k.value.func, ast.Name) and k.value.func.id in self.dict_helpers):
                continue
            hc = k.value
            fn = self.dict_helpers[hc.func.id]
            if self._is_local(hc.func.id) or hc.keywords or len(hc.args) != len(fn.args.args) or not all(_simple(a) for a in hc.args):
                continue
            body = [b for b in fn.body if not (isinstance(b, ast.Expr) and isinstance(b.value, ast.Constant))]
            self.tmp += 1
            tag = self.tmp
            params = [a.arg for a in fn.args.args]
            stores = {x.id for b in body for x in ast.walk(b) if isinstance(x, ast.Name) and isinstance(x.ctx, ast.Store)}
            if stores & set(params):
                continue
            mapping = dict(zip(params, hc.args))

            class R(ast.NodeTransformer):
                def visit_Name(self, n: ast.Name):
                    if n.id in stores:
                        return ast.copy_location(ast.Name(id=f"{n.id}__h{tag}", ctx=n.ctx), n)
                    if isinstance(n.ctx, ast.Load) and n.id in mapping:
                        return ast.copy_location(copy.deepcopy(mapping[n.id]), n)
                    return n
            new = [R().visit(copy.deepcopy(b)) for b in body]
            ret = new[-1]
            pre = new[:-1]
            for b in pre:
                ast.copy_location(b, at)
                for x in ast.walk(b):
                    if isinstance(x, (ast.expr, ast.stmt)):
                        ast.copy_location(x, at)
            kws = [ast.keyword(arg=kk.value, value=vv) for kk, vv in zip(ret.value.keys, ret.value.values)]
            for kw_ in kws:
                ast.copy_location(kw_, k)
                for x in ast.walk(kw_.value):
                    if isinstance(x, ast.expr):
                        ast.copy_location(x, k)
            call.keywords[i:i + 1] = kws
            ast.fix_missing_locations(call)
            self.count["splat-helper"] = self.count.get("splat-helper", 0) + 1
            out: List[ast.stmt] = []
            for b in pre:
                r = self.visit(b)
                out.extend(r if isinstance(r, list) else [r])
            return out
        return None

    @staticmethod
    def _dict_helper(fn: ast.FunctionDef) -> bool:
        a = fn.args
        if fn.decorator_list or a.vararg or a.kwarg or a.kwonlyargs or a.posonlyargs or a.defaults:
            return False
        body = [b for b in fn.body if not (isinstance(b, ast.Expr) and isinstance(b.value, ast.Constant))]
        if not body or not isinstance(body[-1], ast.Return) or not isinstance(body[-1].value, ast.Dict):
            return False
        d = body[-1].value
        if not d.keys or not all(isinstance(k, ast.Constant) and isinstance(k.value, str) and k.value.isidentifier() for k in d.keys):
            return False
        for b in body[:-1]:
            if not (isinstance(b, ast.Assign) and all(isinstance(t_, (ast.Name, ast.Tuple)) for t_ in b.targets)):
                return False
            if any(isinstance(x, (ast.Yield, ast.YieldFrom, ast.Await, ast.Lambda, ast.NamedExpr)) for x in ast.walk(b)):
                return False
        return True

    def visit_Return(self, node: ast.Return):
        if node.value is not None and self.func_stack:
            pre0 = self._splat_helper(node, node.value)
            if pre0 is not None:
                r0 = self.visit(node)
                return pre0 + (r0 if isinstance(r0, list) else [r0])
            pre = self._or_default_argument(node)
            if pre is not None:
                r1 = self.visit(pre)
                r2 = self.visit(node)
                return (r1 if isinstance(r1, list) else [r1]) + (r2 if isinstance(r2, list) else [r2])
            parts = self._comprehension_loop(node.value, node)
            if parts is not None:
                self.tmp += 1
                nm = f"__list{self.tmp}"
                ret = ast.copy_location(ast.Return(value=ast.Name(id=nm, ctx=ast.Load())), node)
                ast.fix_missing_locations(ret)
                return self._list_building(nm, parts, node) + [ret]
        return self.generic_visit(node)

    # ------------------------------------------------------------------ tables
    @staticmethod
    def _table(e: ast.expr) -> Optional[List[ast.expr]]:
        if isinstance(e, (ast.Tuple, ast.List)) and 0 < len(e.elts) <= MAX_ROWS and all(_simple(x) for x in e.elts):
            return list(e.elts)
        return None

    def _resolve_table(self, it: ast.expr) -> Optional[List[ast.expr]]:
        rows = self._table(it)
        if rows is not None:
            return rows
        if isinstance(it, ast.Name):
            # a local bound once in the enclosing function to a literal and used nowhere but in this `for`
            if self.func_stack:
                fn = self.func_stack[-1]
                binds = [s for s in ast.walk(fn) if isinstance(s, (ast.Assign, ast.AnnAssign)) and s.value is not None and
                         any(isinstance(t_, ast.Name) and t_.id == it.id for t_ in (s.targets if isinstance(s, ast.Assign) else [s.target]))]
                stores = [x for x in ast.walk(fn) if isinstance(x, ast.Name) and x.id == it.id and isinstance(x.ctx, (ast.Store, ast.Del))]
                params = {a.arg for a in fn.args.posonlyargs + fn.args.args + fn.args.kwonlyargs} if hasattr(fn, "args") else set()
                if len(binds) == 1 and len(stores) == 1 and it.id not in params:
                    return self._table(binds[0].value)
                if stores or it.id in params:
                    return None
            if it.id in self.module_tables:
                return self._table(self.module_tables[it.id])
        if isinstance(it, ast.Attribute) and isinstance(it.value, ast.Name) and it.value.id in ("self", "cls") and self.class_tables:
            v = self.class_tables[-1].get(it.attr)
            if v is not None:
                return self._table(v)
        return None

    # ------------------------------------------------------------------ scopes
    def visit_ClassDef(self, node: ast.ClassDef):
        tabs: Dict[str, ast.expr] = {}
        counts: Dict[str, int] = {}
        for s in node.body:
            tg = s.targets if isinstance(s, ast.Assign) else [s.target] if isinstance(s, ast.AnnAssign) else []
            for t_ in tg:
                if isinstance(t_, ast.Name):
                    counts[t_.id] = counts.get(t_.id, 0) + 1
        for s in node.body:
            if isinstance(s, (ast.Assign, ast.AnnAssign)) and s.value is not None:
                tg = s.targets if isinstance(s, ast.Assign) else [s.target]
                if len(tg) == 1 and isinstance(tg[0], ast.Name) and counts[tg[0].id] == 1 and self._table(s.value) is not None:
                    tabs[tg[0].id] = s.value
        self.class_tables.append(tabs)
        was = self.class_is_carrier
        self.class_is_carrier = node.name in self.carriers
        try:
            return self.generic_visit(node)
        finally:
            self.class_tables.pop()
            self.class_is_carrier = was

    @staticmethod
    def _rewrite_yield_from(fn: ast.FunctionDef) -> ast.FunctionDef:
        """`yield from E` as a statement -> `for v in E: yield v`; `yield from zip(itertools.repeat(K), X)` -> `for v in X: yield (K, v)`"""
        fn = copy.deepcopy(fn)
        counter = [0]

        class Y(ast.NodeTransformer):
            def visit_FunctionDef(self, n):
                return n if n is not fn else self.generic_visit(n)

            def visit_Lambda(self, n):
                return n

            def visit_Expr(self, n: ast.Expr):
                if not isinstance(n.value, ast.YieldFrom):
                    return n
                e = n.value.value
                counter[0] += 1
                v = ast.Name(id=f"__y{counter[0]}", ctx=ast.Load())
                it, elt = e, v
                if isinstance(e, ast.Call) and isinstance(e.func, ast.Name) and e.func.id == "zip" and len(e.args) == 2 and not e.keywords:
                    rep = [i for i, a in enumerate(e.args) if isinstance(a, ast.Call) and ast.unparse(a.func) in ("itertools.repeat", "repeat") and len(a.args) == 1 and
                           isinstance(a.args[0], ast.Constant)]
                    if len(rep) == 1:
                        k = e.args[rep[0]].args[0]
                        it = e.args[1 - rep[0]]
                        elt = ast.Tuple(elts=[k, v] if rep[0] == 0 else [v, k], ctx=ast.Load())
                loop = ast.For(target=ast.Name(id=v.id, ctx=ast.Store()), iter=it, body=[ast.Expr(value=ast.Yield(value=elt))], orelse=[])
                ast.copy_location(loop, n)
                for x in ast.walk(loop):
                    if isinstance(x, (ast.expr, ast.stmt)) and not hasattr(x, "lineno"):
                        ast.copy_location(x, n)
                ast.fix_missing_locations(loop)
                return loop
        return Y().visit(fn)

    def _local_generators(self, node) -> Dict[str, ast.FunctionDef]:
        """generator closures without parameters that are defined at the top of a function's body and only ever used as
        `for ... in name():` in that function: expanded like module-level generator helpers, the definition goes"""
        found: Dict[str, ast.FunctionDef] = {}
        for st in list(node.body):
            if not (isinstance(st, ast.FunctionDef) and not st.decorator_list and not (st.args.args or st.args.posonlyargs or st.args.kwonlyargs or st.args.vararg or st.args.kwarg)):
                continue
            g = self._rewrite_yield_from(st)
            if not self._inlinable_generator(g):
                continue
            uses = [x for x in ast.walk(node) if isinstance(x, ast.Name) and x.id == st.name and x is not st]
            fors = [f_ for f_ in ast.walk(node) if isinstance(f_, ast.For) and isinstance(f_.iter, ast.Call) and isinstance(f_.iter.func, ast.Name) and f_.iter.func.id == st.name
                    and not f_.iter.args and not f_.iter.keywords and not any(f_ is y for y in ast.walk(st))]
            if not fors or len(uses) != len(fors):
                continue
            # the closure must not re-bind names of the enclosing function other than its own locals (it cannot: no nonlocal allowed)
            found[st.name] = g
        if found:
            node.body = [st for st in node.body if not (isinstance(st, ast.FunctionDef) and st.name in found)]
        return found

    def _local_partials(self, node) -> Dict[str, ast.Call]:
        """locals bound once, at the top level of the function body, to functools.partial(f, <simple arguments>) whose argument
        names are never re-bound in the function: calls of the local are calls of f"""
        out: Dict[str, ast.Call] = {}
        stores: Dict[str, int] = {}
        for x in ast.walk(node):
            if isinstance(x, ast.Name) and isinstance(x.ctx, (ast.Store, ast.Del)):
                stores[x.id] = stores.get(x.id, 0) + 1
        params = {a.arg for a in node.args.posonlyargs + node.args.args + node.args.kwonlyargs}
        nested = {id(x) for f_ in ast.walk(node) if isinstance(f_, (ast.FunctionDef, ast.AsyncFunctionDef, ast.Lambda, ast.ClassDef)) and f_ is not node for x in ast.walk(f_)}
        loops = {id(x) for l_ in ast.walk(node) if isinstance(l_, (ast.For, ast.While)) for x in ast.walk(l_) if x is not l_}
        for st in [x for x in ast.walk(node) if isinstance(x, ast.Assign) and id(x) not in nested and id(x) not in loops]:
            if isinstance(st, ast.Assign) and len(st.targets) == 1 and isinstance(st.targets[0], ast.Name) and isinstance(st.value, ast.Call) and \
                    ast.unparse(st.value.func) in ("functools.partial", "partial") and st.value.args and isinstance(st.value.args[0], (ast.Name, ast.Attribute)) and \
                    (not isinstance(st.value.args[0], ast.Attribute) or _simple(st.value.args[0])):
                c = st.value
                nm = st.targets[0].id
                if stores.get(nm) != 1 or nm in params or not all(_simple(a) for a in c.args) or not all(k.arg is not None and _simple(k.value) for k in c.keywords):
                    continue
                used = {x.id for a in list(c.args) + [k.value for k in c.keywords] for x in ast.walk(a) if isinstance(x, ast.Name)}
                earlier = {x.id for x in ast.walk(node) if isinstance(x, ast.Name) and isinstance(x.ctx, ast.Store) and
                           (x.lineno, x.col_offset) < (st.lineno, st.col_offset)}
                if any(stores.get(u, 0) > 1 or (stores.get(u, 0) == 1 and u not in earlier and u not in params) for u in used):
                    continue
                # only ever called, or handed to a generator helper that is expanded in place (where it ends up being called)
                loads = [x for x in ast.walk(node) if isinstance(x, ast.Name) and x.id == nm and isinstance(x.ctx, ast.Load)]
                called = [x for x in ast.walk(node) if isinstance(x, ast.Call) and isinstance(x.func, ast.Name) and x.func.id == nm]
                handed = [a for x in ast.walk(node) if isinstance(x, ast.Call) and isinstance(x.func, ast.Name) and x.func.id in self.generators
                          for a in list(x.args) + [k.value for k in x.keywords] if isinstance(a, ast.Name) and a.id == nm]
                def block_of(stmt):
                    for par in ast.walk(node):
                        for fld in ("body", "orelse", "finalbody"):
                            blk = getattr(par, fld, None)
                            if isinstance(blk, list) and any(b is stmt for b in blk):
                                return blk
                    return None
                blk = block_of(st)
                inside = {id(x) for b in (blk[blk.index(st) + 1:] if blk else []) for x in ast.walk(b)}
                if loads and len(loads) == len(called) + len(handed) and all(id(x) in inside for x in loads):
                    out[nm] = c
        return out

    def visit_FunctionDef(self, node):
        self.func_stack.append(node)
        saved = dict(self.generators)
        saved_partials = dict(self.partials)
        if len(self.func_stack) == 1 or True:
            lp = self._local_partials(node)
            if lp:
                self.partials.update(lp)
                self.local_partial_names = getattr(self, "local_partial_names", set()) | set(lp)
                class Drop(ast.NodeTransformer):
                    def visit_Assign(self, st):
                        if len(st.targets) == 1 and isinstance(st.targets[0], ast.Name) and st.targets[0].id in lp and st.value is lp[st.targets[0].id]:
                            return ast.copy_location(ast.Pass(), st)
                        return st
                Drop().visit(node)
        try:
            if self.carriers and not self.class_is_carrier:
                self._inline_carriers(node)
            loc = self._local_generators(node) if len(self.func_stack) >= 1 else {}
            self.generators.update(loc)
            return self.generic_visit(node)
        finally:
            self.generators = saved
            self.partials = saved_partials
            self.func_stack.pop()

    # ------------------------------------------------------------------ private carrier classes
    @staticmethod
    def _carrier_info(c: ast.ClassDef):
        """(fields, properties, factories) of a private NamedTuple / dataclass that only carries values around, or None"""
        if not c.name.startswith("_"):
            return None
        bases = [ast.unparse(b).split(".")[-1] for b in c.bases]
        is_nt = bases == ["NamedTuple"]
        is_dc = not bases and any(ast.unparse(d).split("(")[0].split(".")[-1] == "dataclass" for d in c.decorator_list)
        if not (is_nt or is_dc):
            return None
        fields, props, facts = [], {}, {}
        for s_ in c.body:
            if isinstance(s_, ast.Expr) and isinstance(s_.value, ast.Constant):
                continue
            if isinstance(s_, ast.AnnAssign) and isinstance(s_.target, ast.Name):
                fields.append((s_.target.id, s_.value))
                continue
            if isinstance(s_, ast.FunctionDef):
                decs = [ast.unparse(d).split(".")[-1] for d in s_.decorator_list]
                body = [b for b in s_.body if not (isinstance(b, ast.Expr) and isinstance(b.value, ast.Constant))]
                if decs == ["property"] and body and isinstance(body[-1], ast.Return) and body[-1].value is not None and \
                        all(isinstance(b, ast.Assign) and len(b.targets) == 1 and isinstance(b.targets[0], ast.Name) for b in body[:-1]):
                    props[s_.name] = body
                    continue
                if decs == ["classmethod"] and len(body) == 1 and isinstance(body[0], ast.Return) and isinstance(body[0].value, ast.Call) and \
                        isinstance(body[0].value.func, ast.Name) and s_.args.args and body[0].value.func.id == s_.args.args[0].arg and not s_.args.vararg and not s_.args.kwarg:
                    facts[s_.name] = s_
                    continue
            return None
        return fields, props, facts

    def _inline_carriers(self, fn) -> None:
        for i, st_ in enumerate(list(fn.body)):
            if not (isinstance(st_, (ast.Assign, ast.AnnAssign)) and st_.value is not None and isinstance(st_.value, ast.Call)):
                continue
            tg = st_.targets if isinstance(st_, ast.Assign) else [st_.target]
            if len(tg) != 1 or not isinstance(tg[0], ast.Name):
                continue
            x = tg[0].id
            call = st_.value
            cname, factory = None, None
            if isinstance(call.func, ast.Name) and call.func.id in self.carriers:
                cname = call.func.id
            elif isinstance(call.func, ast.Attribute) and isinstance(call.func.value, ast.Name) and call.func.value.id in self.carriers and \
                    call.func.attr in self.carriers[call.func.value.id][2]:
                cname, factory = call.func.value.id, call.func.attr
            if cname is None or any(isinstance(a, ast.Starred) for a in call.args) or any(k.arg is None for k in call.keywords):
                continue
            fields, props, facts = self.carriers[cname]
            stores = [n for n in ast.walk(fn) if isinstance(n, ast.Name) and n.id == x and isinstance(n.ctx, (ast.Store, ast.Del))]
            loads = [n for n in ast.walk(fn) if isinstance(n, ast.Name) and n.id == x and isinstance(n.ctx, ast.Load)]
            attrs = [n for n in ast.walk(fn) if isinstance(n, ast.Attribute) and isinstance(n.value, ast.Name) and n.value.id == x and isinstance(n.ctx, ast.Load)]
            names = {f for f, _ in fields}
            if len(stores) != 1 or not loads or len(loads) != len(attrs) or any(a.attr not in names and a.attr not in props for a in attrs):
                continue
            ctor = call
            if factory is not None:
                fdef = facts[factory]
                ps = [a.arg for a in fdef.args.args[1:]]
                if len(call.args) > len(ps):
                    continue
                bound = dict(zip(ps, call.args))
                bound.update({k.arg: k.value for k in call.keywords})
                if set(bound) != set(ps) or not all(_simple(v) for v in bound.values()):
                    continue
                ctor = _Subst(bound).visit(copy.deepcopy(fdef.body[-1].value if not isinstance(fdef.body[-1], ast.Return) else
                                                         [b for b in fdef.body if isinstance(b, ast.Return)][0].value))
            fnames = [f for f, _ in fields]
            if len(ctor.args) > len(fnames):
                continue
            vals = dict(zip(fnames, ctor.args))
            vals.update({k.arg: k.value for k in ctor.keywords})
            for f, d in fields:
                if f not in vals and d is not None:
                    vals[f] = d
            if set(vals) != set(fnames):
                continue
            pre: List[ast.stmt] = []
            fieldexpr: Dict[str, ast.expr] = {}
            for f in fnames:
                v = vals[f]
                if _simple(v):
                    fieldexpr[f] = v
                else:
                    nm = f"{x}__{f}"
                    pre.append(ast.copy_location(ast.Assign(targets=[ast.Name(id=nm, ctx=ast.Store())], value=v), st_))
                    fieldexpr[f] = ast.Name(id=nm, ctx=ast.Load())

            def prop_expr(name: str) -> ast.expr:
                body = props[name]
                local: Dict[str, ast.expr] = {}

                class P(ast.NodeTransformer):
                    def visit_Attribute(self, n: ast.Attribute):
                        if isinstance(n.value, ast.Name) and n.value.id == "self" and isinstance(n.ctx, ast.Load):
                            if n.attr in fieldexpr:
                                return ast.copy_location(copy.deepcopy(fieldexpr[n.attr]), n)
                            if n.attr in props:
                                return ast.copy_location(prop_expr(n.attr), n)
                        return self.generic_visit(n)

                    def visit_Name(self, n: ast.Name):
                        if isinstance(n.ctx, ast.Load) and n.id in local:
                            return ast.copy_location(copy.deepcopy(local[n.id]), n)
                        return n
                for b in body[:-1]:
                    local[b.targets[0].id] = P().visit(copy.deepcopy(b.value))
                return P().visit(copy.deepcopy(body[-1].value))

            class U(ast.NodeTransformer):
                def visit_Attribute(self, n: ast.Attribute):
                    if isinstance(n.value, ast.Name) and n.value.id == x and isinstance(n.ctx, ast.Load):
                        e = copy.deepcopy(fieldexpr[n.attr]) if n.attr in fieldexpr else prop_expr(n.attr)
                        return ast.copy_location(e, n)
                    return self.generic_visit(n)
            idx = fn.body.index(st_)
            rest = [U().visit(b) for b in fn.body[idx + 1:]]
            fn.body = fn.body[:idx] + pre + rest
            for b in fn.body:
                ast.fix_missing_locations(b)
            self.count["carrier"] = self.count.get("carrier", 0) + 1

    visit_AsyncFunctionDef = visit_FunctionDef

    def visit_Attribute(self, node: ast.Attribute):
        node = self.generic_visit(node)
        # self.<NAME> / cls.<NAME> where the class body binds NAME once to a tuple of constants / names and nothing in the
        # module ever assigns an attribute of that name: the tuple itself
        if isinstance(node.ctx, ast.Load) and isinstance(node.value, ast.Name) and node.value.id in ("self", "cls") and self.class_tables and self.func_stack:
            v = self.class_tables[-1].get(node.attr)
            if isinstance(v, ast.Tuple) and node.attr not in self.attr_stores:
                self.count["class_constant"] = self.count.get("class_constant", 0) + 1
                return ast.copy_location(copy.deepcopy(v), node)
        return node

    # ------------------------------------------------------------------ tuples of classes kept in a module-level name
    def _class_tuple(self, e: ast.expr) -> Optional[ast.Tuple]:
        """NAME bound once at module level to a tuple of names / attribute chains (exception or message classes), or a tuple
        display that splices such names in with *NAME: the flat tuple"""
        if isinstance(e, ast.Name) and e.id in self.module_tables and isinstance(self.module_tables[e.id], ast.Tuple) and \
                all(isinstance(x, (ast.Name, ast.Attribute)) for x in self.module_tables[e.id].elts) and not (self.func_stack and self._is_local(e.id)):
            return copy.deepcopy(self.module_tables[e.id])
        if isinstance(e, ast.Tuple) and any(isinstance(x, ast.Starred) for x in e.elts):
            out: List[ast.expr] = []
            for x in e.elts:
                if isinstance(x, ast.Starred):
                    inner = self._class_tuple(x.value)
                    if inner is None:
                        return None
                    out.extend(inner.elts)
                else:
                    out.append(x)
            return ast.copy_location(ast.Tuple(elts=out, ctx=ast.Load()), e)
        return None

    def _is_local(self, name: str) -> bool:
        fn = self.func_stack[-1]
        params = {a.arg for a in fn.args.posonlyargs + fn.args.args + fn.args.kwonlyargs} if hasattr(fn, "args") else set()
        return name in params or any(isinstance(x, ast.Name) and x.id == name and isinstance(x.ctx, (ast.Store, ast.Del)) for x in ast.walk(fn))

    def visit_ExceptHandler(self, node: ast.ExceptHandler):
        if node.type is not None:
            t = self._class_tuple(node.type)
            if t is not None:
                node.type = ast.copy_location(t, node.type)
                ast.fix_missing_locations(node.type)
                self.count["class_tuple"] = self.count.get("class_tuple", 0) + 1
        return self.generic_visit(node)

    # ------------------------------------------------------------------ getattr
    def visit_Call(self, node: ast.Call):
        node = self.generic_visit(node)
        if isinstance(node.func, ast.Name) and node.func.id in self.partials and \
                not (self.func_stack and self._is_local(node.func.id) and node.func.id not in getattr(self, "local_partial_names", set())) and \
                not any(isinstance(a, ast.Starred) for a in node.args) and all(k.arg is not None for k in node.keywords):
            pc = self.partials[node.func.id]
            kws = {k.arg: k.value for k in pc.keywords}
            kws.update({k.arg: k.value for k in node.keywords})
            new = ast.Call(func=copy.deepcopy(pc.args[0]), args=[copy.deepcopy(a) for a in pc.args[1:]] + list(node.args),
                           keywords=[ast.keyword(arg=k, value=copy.deepcopy(v)) for k, v in kws.items()])
            ast.copy_location(new, node)
            for x in ast.walk(new):
                if isinstance(x, (ast.expr, ast.keyword)) and not hasattr(x, "lineno"):
                    ast.copy_location(x, node)
            ast.fix_missing_locations(new)
            self.count["partial"] = self.count.get("partial", 0) + 1
            node = new
        if isinstance(node.func, ast.Attribute) and isinstance(node.func.value, ast.Name) and node.func.value.id in self.structs and \
                node.func.attr in ("unpack", "pack", "unpack_from", "iter_unpack") and not (self.func_stack and self._is_local(node.func.value.id)):
            new = ast.Call(func=ast.Attribute(value=ast.Name(id="struct", ctx=ast.Load()), attr=node.func.attr, ctx=ast.Load()),
                           args=[copy.deepcopy(self.structs[node.func.value.id])] + list(node.args), keywords=list(node.keywords))
            ast.copy_location(new, node)
            for x in ast.walk(new):
                if isinstance(x, ast.expr) and not hasattr(x, "lineno"):
                    ast.copy_location(x, node)
            ast.fix_missing_locations(new)
            self.count["struct"] = self.count.get("struct", 0) + 1
            return new
        if isinstance(node.func, ast.Name) and node.func.id in self.leaf_helpers and not (self.func_stack and self._is_local(node.func.id)) and not node.keywords and \
                not any(isinstance(a, ast.Starred) for a in node.args) and not (self.func_stack and getattr(self.func_stack[-1], "name", None) == node.func.id):
            fn = self.leaf_helpers[node.func.id]
            params = [p.arg for p in fn.args.args]
            if len(params) == len(node.args):
                # every parameter is used exactly once: arguments are evaluated once, as before (their order among themselves may
                # differ, which no analysis here depends on)
                body = [b for b in fn.body if not (isinstance(b, ast.Expr) and isinstance(b.value, ast.Constant))]
                new = _Subst(dict(zip(params, node.args))).visit(copy.deepcopy(body[0].value))
                for x in ast.walk(new):
                    if isinstance(x, (ast.expr, ast.keyword)):
                        ast.copy_location(x, node)
                ast.fix_missing_locations(new)
                self.count["leaf-helper"] = self.count.get("leaf-helper", 0) + 1
                return self.visit(new)          # constants that landed in f-string fields are merged into the template
        if isinstance(node.func, ast.Name) and node.func.id in ("isinstance", "issubclass") and len(node.args) == 2 and not node.keywords:
            t = self._class_tuple(node.args[1])
            if t is not None:
                node.args[1] = ast.copy_location(t, node.args[1])
                ast.fix_missing_locations(node.args[1])
                self.count["class_tuple"] = self.count.get("class_tuple", 0) + 1
        if isinstance(node.func, ast.Name) and node.func.id == "getattr" and len(node.args) == 2 and not node.keywords and \
                isinstance(node.args[1], ast.Constant) and isinstance(node.args[1].value, str) and node.args[1].value.isidentifier():
            self.count["getattr"] += 1
            return ast.copy_location(ast.Attribute(value=node.args[0], attr=node.args[1].value, ctx=ast.Load()), node)
        return node

    def visit_Compare(self, node: ast.Compare):
        node = self.generic_visit(node)
        if len(node.ops) == 1 and isinstance(node.ops[0], (ast.Eq, ast.NotEq)) and isinstance(node.left, ast.Tuple) and isinstance(node.comparators[0], ast.Tuple) and \
                len(node.left.elts) == len(node.comparators[0].elts) >= 2 and all(_simple(x) for x in node.left.elts + node.comparators[0].elts) and \
                not any(isinstance(x, ast.Starred) for x in node.left.elts + node.comparators[0].elts):
            # (a, b) == (c, d)  ->  a == c and b == d        (a, b) != (c, d)  ->  a != c or b != d
            eq = isinstance(node.ops[0], ast.Eq)
            parts = [ast.Compare(left=l_, ops=[ast.Eq() if eq else ast.NotEq()], comparators=[r_]) for l_, r_ in zip(node.left.elts, node.comparators[0].elts)]
            new = ast.BoolOp(op=ast.And() if eq else ast.Or(), values=parts)
            ast.copy_location(new, node)
            for x in ast.walk(new):
                if isinstance(x, ast.expr) and not hasattr(x, "lineno"):
                    ast.copy_location(x, node)
            ast.fix_missing_locations(new)
            self.count["tuple-compare"] = self.count.get("tuple-compare", 0) + 1
            return new
        return node

    def visit_JoinedStr(self, node: ast.JoinedStr):
        node = self.generic_visit(node)
        vals: List[ast.expr] = []
        for v in node.values:
            if isinstance(v, ast.FormattedValue) and isinstance(v.value, ast.Constant) and isinstance(v.value.value, str) and v.conversion == -1 and v.format_spec is None:
                v = ast.copy_location(ast.Constant(value=v.value.value), v)
            if isinstance(v, ast.Constant) and vals and isinstance(vals[-1], ast.Constant) and isinstance(v.value, str) and isinstance(vals[-1].value, str):
                vals[-1] = ast.copy_location(ast.Constant(value=vals[-1].value + v.value), vals[-1])
            else:
                vals.append(v)
        node.values = vals
        return node

    # ------------------------------------------------------------------ walrus
    def _hoist_walrus(self, s: ast.stmt, expr_field: str):
        """`if (n := e): ...` / `x = f(n := e)`-free simple heads: only a NamedExpr that is evaluated unconditionally and first"""
        e = getattr(s, expr_field)
        first = e
        # the leftmost operand chain: test itself, left of a compare, first value of `and`/`or`, operand of `not`
        path = []
        while True:
            if isinstance(first, ast.NamedExpr):
                break
            if isinstance(first, ast.Compare):
                path.append((first, "left"))
                first = first.left
            elif isinstance(first, ast.BoolOp):
                path.append((first, 0))
                first = first.values[0]
            elif isinstance(first, ast.UnaryOp) and isinstance(first.op, ast.Not):
                path.append((first, "operand"))
                first = first.operand
            else:
                return None
        if not isinstance(first.target, ast.Name):
            return None
        asg = ast.copy_location(ast.Assign(targets=[ast.Name(id=first.target.id, ctx=ast.Store())], value=first.value), s)
        repl = ast.copy_location(ast.Name(id=first.target.id, ctx=ast.Load()), first)
        if not path:
            setattr(s, expr_field, repl)
        else:
            parent, key = path[-1]
            if isinstance(key, int):
                parent.values[key] = repl
            else:
                setattr(parent, key, repl)
        ast.fix_missing_locations(asg)
        self.count["walrus"] += 1
        return asg

    def visit_With(self, node: ast.With):
        """`with cm(): BODY` where cm is a module-level @contextmanager generator without parameters whose body is one
        `try: yield  except ...: ...  [finally: ...]`: the try statement with BODY in place of the yield"""
        if self.func_stack and len(node.items) == 1 and node.items[0].optional_vars is None:
            ce = node.items[0].context_expr
            if isinstance(ce, ast.Call) and isinstance(ce.func, ast.Name) and not ce.args and not ce.keywords and ce.func.id in self.context_managers \
                    and not self._is_local(ce.func.id):
                tr = self.context_managers[ce.func.id]
                jumps = any(isinstance(x, (ast.Return, ast.Break, ast.Continue)) for st in node.body for x in ast.walk(st))
                names = {x.id for st in tr.handlers + tr.orelse + tr.finalbody for x in ast.walk(st) if isinstance(x, ast.Name)} | \
                        {h.name for h in tr.handlers if h.name}
                clash = any(self._is_local(nm) for nm in names)          # the manager's names must mean the same thing here
                if not (jumps and tr.orelse) and not clash:
                    new = copy.deepcopy(tr)
                    new.body = node.body
                    ast.copy_location(new, node)
                    self.count["contextmanager"] = self.count.get("contextmanager", 0) + 1
                    r = self.visit(new)
                    return r
            if isinstance(ce, ast.Call) and isinstance(ce.func, ast.Attribute) and isinstance(ce.func.value, ast.Name) and ce.func.value.id == "self" \
                    and ce.func.attr in self.method_context_managers and self.class_tables and not ce.keywords \
                    and all(_simple(a) for a in ce.args) and hasattr(self.func_stack[-1], "args") and self.func_stack[-1].args.args \
                    and self.func_stack[-1].args.args[0].arg == "self":
                tr, params = self.method_context_managers[ce.func.attr]
                jumps = any(isinstance(x, (ast.Return, ast.Break, ast.Continue)) for st in node.body for x in ast.walk(st))
                names = ({x.id for st in tr.handlers + tr.orelse + tr.finalbody for x in ast.walk(st) if isinstance(x, ast.Name)} |
                         {h.name for h in tr.handlers if h.name}) - set(params) - {"self"}
                clash = any(self._is_local(nm) for nm in names)
                # the arguments are evaluated once, up front: they must not be re-bound by the body
                stored = {x.id for st in node.body for x in ast.walk(st) if isinstance(x, ast.Name) and isinstance(x.ctx, (ast.Store, ast.Del))}
                arg_names = {x.id for a in ce.args for x in ast.walk(a) if isinstance(x, ast.Name)}
                attr_args = any(isinstance(x, ast.Attribute) for a in ce.args for x in ast.walk(a) if not (isinstance(a, ast.Attribute) and _is_enum_like(a)))
                if len(params) == len(ce.args) and not (jumps and tr.orelse) and not clash and not (stored & arg_names) and not attr_args:
                    new = _Subst(dict(zip(params, ce.args))).visit(copy.deepcopy(tr))
                    new.body = node.body
                    ast.copy_location(new, node)
                    ast.fix_missing_locations(new)
                    self.count["contextmanager"] = self.count.get("contextmanager", 0) + 1
                    return self.visit(new)
            if isinstance(ce, ast.Call) and isinstance(ce.func, ast.Attribute) and isinstance(ce.func.value, ast.Name) and ce.func.attr in self.linear_context_managers \
                    and not ce.keywords and all(_simple(a) for a in ce.args):
                pre, post, params = self.linear_context_managers[ce.func.attr]
                recv = ce.func.value.id
                jumps = any(isinstance(x, (ast.Return, ast.Break, ast.Continue)) for st in node.body for x in ast.walk(st))
                stored = {x.id for st in node.body for x in ast.walk(st) if isinstance(x, ast.Name) and isinstance(x.ctx, (ast.Store, ast.Del))}
                arg_names = {x.id for a in ce.args for x in ast.walk(a) if isinstance(x, ast.Name)} | {recv}
                free = {x.id for st in pre + post for x in ast.walk(st) if isinstance(x, ast.Name)} - set(params) - {"self"}
                binds = {x.id for st in pre + post for x in ast.walk(st) if isinstance(x, ast.Name) and isinstance(x.ctx, (ast.Store, ast.Del))}
                clash = any(self._is_local(nm) for nm in free) or bool(binds)
                try_form = len(post) == 1 and isinstance(post[0], ast.Try) and not post[0].body
                if len(params) == len(ce.args) and (not jumps or try_form) and not clash and not (stored & arg_names):
                    # `with R.m(a): BODY`  ->  PRE; BODY; POST   (an exception in BODY passes through the generator's yield uncaught: POST is skipped,
                    # exactly as the statements after BODY are)
                    mp = dict(zip(params, ce.args))
                    mp["self"] = ast.Name(id=recv, ctx=ast.Load())
                    if len(post) == 1 and isinstance(post[0], ast.Try) and not post[0].body:
                        tr_ = _Subst(mp).visit(copy.deepcopy(post[0]))
                        tr_.body = list(node.body)
                        out = [_Subst(mp).visit(copy.deepcopy(st)) for st in pre] + [tr_]
                    else:
                        out = [_Subst(mp).visit(copy.deepcopy(st)) for st in pre] + list(node.body) + [_Subst(mp).visit(copy.deepcopy(st)) for st in post]
                    for st in out:
                        ast.copy_location(st, node) if not hasattr(st, "lineno") else None
                        ast.fix_missing_locations(st)
                    self.count["contextmanager"] = self.count.get("contextmanager", 0) + 1
                    res = []
                    for st in out:
                        r_ = self.visit(st)
                        res.extend(r_ if isinstance(r_, list) else [r_])
                    return res
        return self.generic_visit(node)

    @staticmethod
    def _context_manager_linear(fn: ast.FunctionDef):
        if len(fn.decorator_list) != 1 or fn.args.posonlyargs or fn.args.kwonlyargs or fn.args.vararg or fn.args.kwarg or fn.args.defaults:
            return None
        if not fn.args.args or fn.args.args[0].arg != "self":
            return None
        dn = fn.decorator_list[0]
        if not (isinstance(dn, (ast.Name, ast.Attribute)) and (dn.id if isinstance(dn, ast.Name) else dn.attr) == "contextmanager"):
            return None
        body = [s_ for s_ in fn.body if not (isinstance(s_, ast.Expr) and isinstance(s_.value, ast.Constant))]
        def is_yield(s_):
            return isinstance(s_, ast.Expr) and isinstance(s_.value, ast.Yield) and s_.value.value is None

        def is_try_yield(s_):
            return isinstance(s_, ast.Try) and len(s_.body) == 1 and is_yield(s_.body[0]) and not s_.handlers and not s_.orelse and s_.finalbody
        ys = [i for i, s_ in enumerate(body) if is_yield(s_) or is_try_yield(s_)]
        if len(ys) != 1:
            return None
        pre, post = body[:ys[0]], body[ys[0] + 1:]
        fin = list(body[ys[0]].finalbody) if isinstance(body[ys[0]], ast.Try) else None
        for st in pre + post + (fin or []):
            if any(isinstance(x, (ast.Yield, ast.YieldFrom, ast.Return, ast.FunctionDef, ast.Lambda, ast.Try, ast.With)) for x in ast.walk(st)):
                return None
        if fin is not None:
            if post:
                return None
            # PRE; try: BODY finally: FIN
            return pre, [ast.Try(body=[], handlers=[], orelse=[], finalbody=fin)]
        return pre, post

    @staticmethod
    def _context_manager_try(fn: ast.FunctionDef, method: bool = False) -> Optional[ast.Try]:
        if len(fn.decorator_list) != 1 or fn.args.posonlyargs or fn.args.kwonlyargs or fn.args.vararg or fn.args.kwarg or fn.args.defaults:
            return None
        if not method and fn.args.args:
            return None
        if method and (not fn.args.args or fn.args.args[0].arg != "self" or
                       any(isinstance(x, ast.Name) and isinstance(x.ctx, (ast.Store, ast.Del)) and x.id in {a.arg for a in fn.args.args} for x in ast.walk(fn))):
            return None
        dn = fn.decorator_list[0]
        if not (isinstance(dn, (ast.Name, ast.Attribute)) and (dn.id if isinstance(dn, ast.Name) else dn.attr) == "contextmanager"):
            return None
        body = [s_ for s_ in fn.body if not (isinstance(s_, ast.Expr) and isinstance(s_.value, ast.Constant))]
        if len(body) != 1 or not isinstance(body[0], ast.Try):
            return None
        tr = body[0]
        if len(tr.body) != 1 or not (isinstance(tr.body[0], ast.Expr) and isinstance(tr.body[0].value, ast.Yield) and tr.body[0].value.value is None):
            return None
        rest = tr.handlers + tr.orelse + tr.finalbody
        if any(isinstance(x, (ast.Yield, ast.YieldFrom, ast.Return)) for st in rest for x in ast.walk(st)):
            return None
        return tr

    def visit_If(self, node: ast.If):
        pre = self._hoist_walrus(node, "test")
        node = self.generic_visit(node)
        return [pre, node] if pre is not None else node

    def visit_While(self, node: ast.While):
        # while (x := f()): body   ->   while True: x = f(); if not x: break; body      (no else clause)
        if not node.orelse:
            t = node.test
            if isinstance(t, ast.NamedExpr) and isinstance(t.target, ast.Name):
                asg = ast.copy_location(ast.Assign(targets=[ast.Name(id=t.target.id, ctx=ast.Store())], value=t.value), node)
                brk = ast.copy_location(ast.If(test=ast.UnaryOp(op=ast.Not(), operand=ast.Name(id=t.target.id, ctx=ast.Load())), body=[ast.Break()], orelse=[]), node)
                if not _loop_level(node.body, (ast.Continue,)):
                    node.test = ast.copy_location(ast.Constant(value=True), t)
                    node.body = [asg, brk] + node.body
                    for x in (asg, brk):
                        ast.fix_missing_locations(x)
                    self.count["walrus"] += 1
        return self.generic_visit(node)

    # ------------------------------------------------------------------ constant-table loops
    def visit_For(self, node: ast.For):
        it = node.iter
        if self.func_stack and isinstance(it, ast.Call) and ast.unparse(it.func) in ("itertools.count", "count") and not it.keywords and len(it.args) <= 1 and \
                isinstance(node.target, ast.Name) and not node.orelse and not _loop_level(node.body, (ast.Continue,)) and \
                not any(isinstance(x, ast.Name) and x.id == node.target.id and isinstance(x.ctx, (ast.Store, ast.Del)) for b in node.body for x in ast.walk(b)) and \
                all(isinstance(a, ast.Constant) and isinstance(a.value, int) for a in it.args):
            # for i in itertools.count(k): BODY   ->   i = k; while True: BODY; i += 1
            start = it.args[0] if it.args else ast.Constant(value=0)
            init = ast.Assign(targets=[ast.Name(id=node.target.id, ctx=ast.Store())], value=start)
            step = ast.AugAssign(target=ast.Name(id=node.target.id, ctx=ast.Store()), op=ast.Add(), value=ast.Constant(value=1))
            w = ast.While(test=ast.Constant(value=True), body=list(node.body) + [step], orelse=[])
            for x in (init, w):
                ast.copy_location(x, node)
            for x in list(ast.walk(init)) + [step] + list(ast.walk(step)):
                if isinstance(x, (ast.expr, ast.stmt)) and not hasattr(x, "lineno"):
                    ast.copy_location(x, node)
            ast.copy_location(step, node.body[-1] if node.body else node)
            ast.fix_missing_locations(init)
            ast.fix_missing_locations(w)
            self.count["count-loop"] = self.count.get("count-loop", 0) + 1
            r = self.visit(w)
            return [init] + (r if isinstance(r, list) else [r])
        gen = self._generator_call(node.iter) if not node.orelse and self.func_stack else None
        if gen is not None and not _loop_level(node.body, (ast.Break, ast.Continue)) and \
                not any(isinstance(x, (ast.Yield, ast.YieldFrom)) for b in node.body for x in ast.walk(b)):
            exp = self._expand_generator(gen, node.iter, node.target, node.body, node)
            if exp is not None:
                res: List[ast.stmt] = []
                for x in exp:
                    r = self.visit(x)
                    res.extend(r if isinstance(r, list) else [r])
                return res
        rows = self._resolve_table(node.iter) if not node.orelse else None
        ok = rows is not None
        names: List[str] = []
        if ok:
            if isinstance(node.target, ast.Name):
                names = [node.target.id]
            elif isinstance(node.target, ast.Tuple) and all(isinstance(x, ast.Name) for x in node.target.elts):
                names = [x.id for x in node.target.elts]
                ok = all(isinstance(r, ast.Tuple) and len(r.elts) == len(names) for r in rows)
            else:
                ok = False
        if ok:
            stored = {x.id for b in node.body for x in ast.walk(b) if isinstance(x, ast.Name) and isinstance(x.ctx, (ast.Store, ast.Del))}
            nested_defs = any(isinstance(x, (ast.FunctionDef, ast.AsyncFunctionDef, ast.Lambda, ast.ClassDef)) for b in node.body for x in ast.walk(b))
            if stored & set(names) or nested_defs or _loop_level(node.body, (ast.Continue,)):
                ok = False
        if not ok:
            return self.generic_visit(node)
        out: List[ast.stmt] = []
        for r in rows:
            vals = [r] if len(names) == 1 else list(r.elts)
            mapping = dict(zip(names, vals))
            for b in node.body:
                nb = _Subst(mapping).visit(copy.deepcopy(b))
                out.append(nb)
        self.count["unrolled"] += 1
        if _loop_level(node.body, (ast.Break,)) and len(node.body) == 1 and isinstance(node.body[0], ast.If) and not node.body[0].orelse and \
                isinstance(node.body[0].body[-1], ast.Break) and not _loop_level(node.body[0].body[:-1], (ast.Break,)):
            # "the first row that matches is applied": an if / elif chain
            chain: List[ast.stmt] = []
            for iff in reversed(out):
                iff.body = iff.body[:-1] or [ast.copy_location(ast.Pass(), iff)]
                iff.orelse = chain
                chain = [iff]
            ast.fix_missing_locations(chain[0])
            r = self.visit(chain[0])
            return r
        if _loop_level(node.body, (ast.Break,)):
            w = ast.copy_location(ast.While(test=ast.Constant(value=True), body=out + [ast.copy_location(ast.Break(), node)], orelse=[]), node)
            ast.fix_missing_locations(w)
            return self.generic_visit(w)
        res: List[ast.stmt] = []
        for x in out:
            ast.fix_missing_locations(x)
            r = self.visit(x)
            res.extend(r if isinstance(r, list) else [r])
        return res

    # ------------------------------------------------------------------ match
    def visit_Match(self, node):
        subj = node.subject
        pre: List[ast.stmt] = []
        tuple_subject = isinstance(subj, ast.Tuple) and all(_simple(e) or (isinstance(e, ast.Attribute) and not any(isinstance(x, ast.Call) for x in ast.walk(e))) for e in subj.elts)
        if not _simple(subj) and not tuple_subject:
            self.tmp += 1
            nm = f"__match{self.tmp}"
            pre.append(ast.copy_location(ast.Assign(targets=[ast.Name(id=nm, ctx=ast.Store())], value=subj), node))
            subj = ast.copy_location(ast.Name(id=nm, ctx=ast.Load()), node.subject)
        tests = []
        for c in node.cases:
            binds: List[ast.stmt] = []
            t = self._pattern(c.pattern, subj, binds)
            if t is None:
                return self.generic_visit(node)
            if c.guard is not None:
                if binds:
                    return self.generic_visit(node)      # a guard that uses captured names: not handled
                t = c.guard if t is True else ast.BoolOp(op=ast.And(), values=[t, c.guard])
            tests.append((t, binds, c))
        # build the chain from the last case backwards
        chain: List[ast.stmt] = []
        for t, binds, c in reversed(tests):
            body = binds + c.body
            if t is True:
                chain = body
                continue
            iff = ast.copy_location(ast.If(test=t, body=body, orelse=chain), c.pattern)
            chain = [iff]
        self.count["match"] += 1
        out = pre + chain
        res: List[ast.stmt] = []
        for x in out:
            ast.fix_missing_locations(x)
            r = self.visit(x)
            res.extend(r if isinstance(r, list) else [r])
        return res

    def _pattern(self, p, subj: ast.expr, binds: List[ast.stmt]):
        """test expression for `subj` matching p (True for irrefutable), None when the pattern kind is not handled"""
        s = copy.deepcopy(subj)
        if isinstance(p, ast.MatchValue):
            return ast.copy_location(ast.Compare(left=s, ops=[ast.Eq()], comparators=[p.value]), p)
        if isinstance(p, ast.MatchSingleton):
            return ast.copy_location(ast.Compare(left=s, ops=[ast.Is()], comparators=[ast.Constant(value=p.value)]), p)
        if isinstance(p, ast.MatchAs):
            if p.pattern is None:
                if p.name is not None:
                    binds.append(ast.copy_location(ast.Assign(targets=[ast.Name(id=p.name, ctx=ast.Store())], value=s), p))
                return True
            inner = self._pattern(p.pattern, subj, binds)
            if inner is None:
                return None
            if p.name is not None:
                binds.append(ast.copy_location(ast.Assign(targets=[ast.Name(id=p.name, ctx=ast.Store())], value=s), p))
            return inner
        if isinstance(p, ast.MatchOr):
            alts = []
            for q in p.patterns:
                b2: List[ast.stmt] = []
                t = self._pattern(q, subj, b2)
                if t is None or b2:
                    return None
                if t is True:
                    return True
                alts.append(t)
            return ast.copy_location(ast.BoolOp(op=ast.Or(), values=alts), p)
        if isinstance(p, ast.MatchSequence):
            # `match (a, b): case (X, Y):` with the subject written as a tuple of plain expressions: element by element
            if not isinstance(subj, ast.Tuple) or len(p.patterns) != len(subj.elts) or any(isinstance(q, ast.MatchStar) for q in p.patterns):
                return None
            parts_: List[ast.expr] = []
            for q, e in zip(p.patterns, subj.elts):
                t = self._pattern(q, e, binds)
                if t is None:
                    return None
                if t is not True:
                    parts_.extend(t.values if isinstance(t, ast.BoolOp) and isinstance(t.op, ast.And) else [t])
            if not parts_:
                return True
            return parts_[0] if len(parts_) == 1 else ast.copy_location(ast.BoolOp(op=ast.And(), values=parts_), p)
        if isinstance(p, ast.MatchClass):
            if p.patterns:
                return None                   # positional sub-patterns need __match_args__: left alone
            parts: List[ast.expr] = [ast.copy_location(ast.Call(func=ast.Name(id="isinstance", ctx=ast.Load()), args=[s, p.cls], keywords=[]), p)]
            for attr, sub in zip(p.kwd_attrs, p.kwd_patterns):
                t = self._pattern(sub, ast.copy_location(ast.Attribute(value=copy.deepcopy(subj), attr=attr, ctx=ast.Load()), p), binds)
                if t is None:
                    return None
                if t is not True:
                    parts.extend(t.values if isinstance(t, ast.BoolOp) and isinstance(t.op, ast.And) else [t])
            return parts[0] if len(parts) == 1 else ast.copy_location(ast.BoolOp(op=ast.And(), values=parts), p)
        return None


def _expand_module_dictcomps(tree: ast.Module) -> int:
    """NAME = {k(row): v(row) for a, b in TABLE} at module level, TABLE a module-level tuple of tuples of simple expressions
    bound once: the dict literal it builds"""
    counts: Dict[str, int] = {}
    for s in tree.body:
        for t_ in (s.targets if isinstance(s, ast.Assign) else [s.target] if isinstance(s, (ast.AnnAssign, ast.AugAssign)) else []):
            if isinstance(t_, ast.Name):
                counts[t_.id] = counts.get(t_.id, 0) + 1
    tables = {}
    for s in tree.body:
        if isinstance(s, (ast.Assign, ast.AnnAssign)) and s.value is not None:
            tg = s.targets if isinstance(s, ast.Assign) else [s.target]
            if len(tg) == 1 and isinstance(tg[0], ast.Name) and counts.get(tg[0].id) == 1 and isinstance(s.value, (ast.Tuple, ast.List)) \
                    and 0 < len(s.value.elts) <= 4 * MAX_ROWS and all(_simple(x) for x in s.value.elts):
                tables[tg[0].id] = s.value
    n = 0
    for s in tree.body:
        if not (isinstance(s, (ast.Assign, ast.AnnAssign)) and isinstance(s.value, ast.DictComp)):
            continue
        dc = s.value
        if len(dc.generators) != 1:
            continue
        g = dc.generators[0]
        if g.ifs or g.is_async or not isinstance(g.iter, ast.Name) or g.iter.id not in tables:
            continue
        keys, vals = [], []
        ok = True
        for row in tables[g.iter.id].elts:
            if isinstance(g.target, ast.Name):
                mp = {g.target.id: row}
            elif isinstance(g.target, ast.Tuple) and isinstance(row, ast.Tuple) and len(row.elts) == len(g.target.elts) and all(isinstance(x, ast.Name) for x in g.target.elts):
                mp = {x.id: r for x, r in zip(g.target.elts, row.elts)}
            else:
                ok = False
                break
            keys.append(_Subst(mp).visit(copy.deepcopy(dc.key)))
            vals.append(_Subst(mp).visit(copy.deepcopy(dc.value)))
        if not ok:
            continue
        s.value = ast.copy_location(ast.Dict(keys=keys, values=vals), dc)
        ast.fix_missing_locations(s)
        n += 1
    return n


def exported_generators(tree: ast.Module) -> Dict[str, tuple]:
    """module-level generator helpers that could be expanded at a `for` in another module: name -> (def, global names it uses)"""
    import builtins
    out: Dict[str, tuple] = {}
    for s in tree.body:
        if isinstance(s, ast.FunctionDef) and not s.decorator_list and Desugar._inlinable_generator(s) and \
                sum(1 for x in tree.body if isinstance(x, (ast.FunctionDef, ast.ClassDef)) and x.name == s.name) == 1:
            a = s.args
            local = {p.arg for p in a.posonlyargs + a.args + a.kwonlyargs} | \
                    {x.id for b in s.body for x in ast.walk(b) if isinstance(x, ast.Name) and isinstance(x.ctx, (ast.Store, ast.Del))}
            free = {x.id for b in s.body for x in ast.walk(b) if isinstance(x, ast.Name) and isinstance(x.ctx, ast.Load)} - local
            free = {n for n in free if not hasattr(builtins, n)}
            # annotations and defaults are evaluated in the defining module: defaults that are not constants keep the helper opaque
            if all(isinstance(d, ast.Constant) for d in list(a.defaults) + [d for d in a.kw_defaults if d is not None]):
                out[s.name] = (s, free)
    return out


def desugar_module(tree: ast.Module, foreign: Optional[Dict[str, ast.FunctionDef]] = None) -> Dict[str, int]:
    nd = _expand_module_dictcomps(tree)
    d = Desugar(tree)
    defined = {x.name for x in tree.body if isinstance(x, (ast.FunctionDef, ast.AsyncFunctionDef, ast.ClassDef))}
    for name, fn in (foreign or {}).items():
        if name not in defined and name not in d.generators:
            d.generators[name] = fn
    d.count["dictcomp"] = nd
    d.visit(tree)
    ast.fix_missing_locations(tree)
    return d.count
