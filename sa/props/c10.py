"""C10 - rejected calls have no wire effect; servers answer only open requests."""
from __future__ import annotations

from ..report import Finding, Run
from ..sessrules import (M, OBUF, OUT, SEARCH, SESSION_CLASSES, Extraction, common_coverage, discharge_implicit, exc_short,
                         ext_msg, extends, extraction, fact, is_ldap_error, msg_short, path_key, where)
from ..session import SESSION_MOD, desc
from ..srcmodel import Model

SERVER = f"{SESSION_MOD}.LDAPServer"
NON_FINAL = ("SearchResultEntry", "SearchResultReference")


def check(model: Model, run: Run) -> None:
    ex = extraction(model)
    run.explanation = ("effect-ordering rules on every path of every message-sending entry of the three session classes "
                       "(Engine D): E1 a path that raises has queued no bytes (explicit raises, refused gates, encoding failures "
                       "and implicit KeyError forks alike), E2 refusals raised inside _session.py are LDAPError, E3 every server "
                       "response is queued under a live fact that its id is outstanding, E4 a final response retires the id")
    common_coverage(ex, run)
    from .c07 import exit_does_not_swallow
    exit_does_not_swallow(model, run)
    construction_does_not_refuse(model, run, ex)
    refusal_text_is_total(model, run, ex)
    n_e3 = 0
    for q in SESSION_CLASSES:
        sending = set(ex.sending_entries(q))
        for p in ex.paths[q]:
            if p.entry not in sending:
                continue
            exts = extends(p)
            other_buf = [e for e in p.effects if (e.kind in ("attr_assign", "attr_call") and e.a == OBUF)]
            if p.outcome.kind == "raise":
                origin = p.outcome.exc.origin
                if origin.startswith("implicit:"):
                    okd, why = discharge_implicit(ex, q, p)
                    run.ob("E2-own-error-type", okd)
                    if not okd:
                        e = [x for x in p.effects if x.kind == "implicit"][-1]
                        run.fail(Finding("E2-own-error-type", e.func, e.text,
                                         f"{exc_short(p)} can escape {ex.short(q)}.{p.entry}: {why}", where(ex, e), p.trace()))
                    if okd:
                        continue
                ok = not exts and not other_buf
                run.ob("E1-no-wire-effect-on-failure", ok, {"entry": f"{ex.short(q)}.{p.entry}", "pre": p.pre_state, "raise": exc_short(p), "origin": origin,
                                                             "queued": [msg_short(ext_msg(e)) for e in exts]})
                if not ok:
                    e = (exts or other_buf)[0]
                    run.fail(Finding("E1-no-wire-effect-on-failure", f"{q}.{p.entry}", f"{msg_short(ext_msg(e)) if exts else 'buffer write'} queued, then {exc_short(p)} ({origin.split(':')[0]})",
                                     f"the call fails with {exc_short(p)} after its bytes were written to the outgoing buffer", where(ex, e), p.trace()))
                if origin == "explicit":
                    ok = is_ldap_error(ex, p.outcome.exc.cls)
                    run.ob("E2-own-error-type", ok, {"entry": f"{ex.short(q)}.{p.entry}", "raise": exc_short(p)})
                    if not ok:
                        run.fail(Finding("E2-own-error-type", p.outcome.exc.func, f"raise {exc_short(p)}",
                                         f"a sending call is refused with {exc_short(p)}, which is not the library's LDAPError", f"{model.relpath(SESSION_MOD)}:{p.outcome.exc.line}", p.trace()))
            # ---- server-only rules
            if q == SERVER:
                # what is outstanding is what the peer asked: only the receive path may add to the set
                for e in [x for x in p.effects if x.kind == "set_add" and x.a == OUT]:
                    run.ob("E5-requests-become-outstanding-only-on-receive", False, {"entry": f"LDAPServer.{p.entry}", "added": desc(e.b)})
                    run.fail(Finding("E5-requests-become-outstanding-only-on-receive", f"{q}.{p.entry}", f"{OUT}.add({desc(e.b)})",
                                     f"LDAPServer.{p.entry} adds {desc(e.b)} to the outstanding requests itself: the response it then sends is not an answer to anything "
                                     "the peer has open", where(ex, e), p.trace()))
            if q == SERVER and p.pre_state != "CLOSED":
                for e in exts:
                    o = ext_msg(e)
                    k = msg_short(o)
                    if o is None or k == "UnbindRequest":
                        continue
                    n_e3 += 1
                    mid = desc(o.fields.get("message_id"))
                    live = e.snap_facts.get(f"in[{OUT}]({mid})")
                    ok = live is True
                    run.ob("E3-answers-only-outstanding", ok, {"entry": f"LDAPServer.{p.entry}", "pre": p.pre_state, "response": k, "id": mid, "fact": live})
                    if not ok:
                        run.fail(Finding("E3-answers-only-outstanding", f"{q}.{p.entry}", f"{k} queued with in-outstanding={live}",
                                         f"a {k} is written to the outgoing buffer on a path where its id is not known to be outstanding", where(ex, e), p.trace()))
                    if p.outcome.kind == "return":
                        end = p.facts.get(f"in[{OUT}]({mid})")
                        if k in NON_FINAL:
                            ok = end is True
                            run.ob("E4-non-final-keeps-request", ok)
                            if not ok:
                                run.fail(Finding("E4-non-final-keeps-request", f"{q}.{p.entry}", f"{k} leaves in-outstanding={end}",
                                                 f"a {k} (not a final response) retires the search request", where(ex, e), p.trace()))
                        else:
                            ok = end is False
                            run.ob("E4-final-response-retires", ok, {"entry": f"LDAPServer.{p.entry}", "response": k, "id-outstanding-after": end})
                            if not ok:
                                run.fail(Finding("E4-final-response-retires", f"{q}.{p.entry}", f"{k} leaves in-outstanding={end}",
                                                 f"after a final response ({k}) the id may still be outstanding, so a second response would be accepted", where(ex, e), p.trace()))
    run.floor("server response paths", n_e3, 10)
    run.floor("E1 obligations", run.rules.get("E1-no-wire-effect-on-failure", {}).get("obligations", 0), 40)


def construction_does_not_refuse(model: Model, run: Run, ex) -> None:
    """E6: a sending call builds its message object before the gate is consulted.  If a constructor hook of a message / result /
    control / filter class (`__post_init__`, `__init__`) raises, the call is refused by something that is not the session's
    gate and with whatever exception class the hook chose (E2 only sees raises inside _session.py)."""
    from .c05 import may_raise
    from ..raises import exc_is_sub
    mr = may_raise(model)
    n = 0
    for q in SESSION_CLASSES:
        for entry in sorted(ex.sending_entries(q)):
            fi = model.find_method(q, entry)
            if fi is None:
                continue
            n += 1
            esc = mr.escapes(fi.qualname, q)
            bad = [e for e in esc if e.kind == "explicit" and e.func.rsplit(".", 1)[-1] in ("__post_init__", "__init__", "__new__") and
                   not exc_is_sub(model, e.exc, "sansldap._session.LDAPError") and e.func.rsplit(".", 1)[0] in model.classes]
            run.ob("E6-message-construction-does-not-refuse", not bad, {"entry": f"{ex.short(q)}.{entry}"})
            for e in sorted(bad, key=str)[:1]:
                run.fail(Finding("E6-message-construction-does-not-refuse", e.func, f"{e.exc.split('.')[-1]}|{e.text[:60]}",
                                 f"{ex.short(q)}.{entry} can be refused by `{e.text[:60]}` in {e.func.split('sansldap.')[-1]}: a {e.exc.split('.')[-1]}, not the library's LDAPError, "
                                 "raised before the session's own checks run", f"{model.relpath(model.functions[e.func].module) if e.func in model.functions else ''}:{e.line}"))
    run.floor("sending entries examined for constructor refusals", n, 10)


def refusal_text_is_total(model: Model, run: Run, ex, rule: str = "E7-refusal-is-raised-as-written") -> None:
    """E7: a refusal is `raise <LDAPError>(<text>)` in _session.py.  Building the text runs code too: an f-string field shows a
    message object through its __repr__/__str__ (the generated dataclass one shows every field, so the hand-written ones of
    nested values run as well).  If that can raise, the call fails with that exception instead of the refusal (E2)."""
    import ast
    from .c05 import may_raise
    from ..srcmodel import norm, walk_no_nested
    mr = may_raise(model)
    sites = []
    for fq, fi in list(model.functions.items()):
        if fi.module != SESSION_MOD or isinstance(fi.node, ast.Lambda):
            continue
        for r in walk_no_nested(fi.node):
            if isinstance(r, ast.Raise) and isinstance(r.exc, ast.Call):
                q = model.resolve_name(fi.module, norm(r.exc.func)) if isinstance(r.exc.func, (ast.Name, ast.Attribute)) else None
                if q in model.classes and is_ldap_error(ex, q):
                    sites.append((fi, r))

    def escs_of(fi, r):
        ctx = {"fi": fi, "self_cls": None, "pcls": None, "key": (fi.qualname, None), "caught": frozenset(), "handler_var": None}
        out = set()
        for a in list(r.exc.args) + [k.value for k in r.exc.keywords]:
            out |= mr.expr_escapes(a, ctx)
        return out
    for fi, r in sites:
        escs_of(fi, r)          # registers the summaries the text needs
    mr.fixpoint()
    for fi, r in sites:
        bad = sorted(escs_of(fi, r), key=lambda e: (e.exc, e.func, e.line))
        run.ob(rule, not bad, {"function": fi.qualname.split("sansldap.")[-1], "raise": norm(r)[:70]})
        for e in bad[:3]:
            run.fail(Finding(rule, fi.qualname, f"{norm(r)[:50]}|{e.exc.split('.')[-1]}|{e.text[:50]}",
                             f"while the refusal `{norm(r)[:70]}` is being built, {e.exc.split('.')[-1]} can be raised at `{e.text[:70]}` in {e.func.split('sansldap.')[-1]} "
                             f"({e.why or e.kind}): the caller gets that instead of the library's error", model.loc(fi.module, r), [e.short()]))
    run.floor("refusals raised in the session module", len(sites), 8)
