"""C18 - parsing cost grows polynomially (regular expressions: no exponential ambiguity; scanners: structural progress)."""
from __future__ import annotations

import ast
from typing import Dict, List

from ..report import Finding, Run
from ..rx.eda import failing_suffix, find_eda, prefix_to, show
from ..rx.nfa import build
from ..rx.sites import find_sites
from ..srcmodel import AnalysisError, Model, norm, walk_no_nested
from .c05 import may_raise

FIXTURES = {r"(x+)+y": True, r"(a*)*b": True, r"(a|a)*b": True, r"(a*a*b)*c": True, r"(a?)*b": False, r"(a|b)*c": False, r"a*a*b": False}


def fragment_near(pattern: str, nfa, pos_idx: int) -> str:
    return repr(nfa.positions[pos_idx].cs)


def check(model: Model, run: Run) -> None:
    run.explanation = ("every regular expression the package compiles or uses inline is recovered by constant folding, parsed with re._parser and "
                       "translated to an epsilon-NFA; exponential ambiguity (two distinct runs over the same pumpable word: product-SCC criterion on the "
                       "position multigraph with sre's empty-iteration rule) is reported only together with a constructed witness family x.w^n.s that "
                       "is rejected as a whole, so the backtracking matcher has to explore all 2^n runs. Nothing is compiled or matched. "
                       "For the hand-written scanners a structural progress rule bounds the work per call frame (best effort, see notes)")
    # fixtures keep the zero-expected-count rule honest
    for pat, exp in FIXTURES.items():
        nfa = build(pat, 0, "match")
        _, f = find_eda(nfa)
        ok = bool(f) == exp
        run.ob("E0-engine-fixtures", ok, {"pattern": pat, "expected_eda": exp, "found": bool(f)})
        if not ok:
            raise AnalysisError(f"EDA engine self-check failed on fixture {pat!r}")
    ambiguity(model, run, "E1-no-exponential-ambiguity", None, 10, 8)
    # ---- scanner progress (best effort, structural) ---------------------------------------
    progress_rule(model, run)
    from ..readerrules import lemma_consuming_methods_advance
    lemma_consuming_methods_advance(model, run)
    # ---- recursion: no value is descended into twice by one frame --------------------------
    double_descent(model, run)
    error_text_growth(model, run)
    allocations_follow_the_input(model, run)


E4_FIXTURE = '''
def depth(node):
    kids = list(node.children)
    if not kids:
        return 0
    deepest = max(kids, key=depth)
    return 1 + depth(deepest)
'''


def _recursive_components(model: Model, mr, extra=None):
    """call graph over the package (callees resolved by the type resolver, constructors to __init__/__post_init__, a function
    named as a value counts as called) and its recursive strongly connected components"""
    funcs = {q: fi for q, fi in model.functions.items() if not isinstance(fi.node, ast.Lambda)}
    if extra:
        funcs.update(extra)
    g = {}
    sites = {}
    for q, fi in funcs.items():
        outs = {}
        for c in walk_no_nested(fi.node):
            tg = set()
            if isinstance(c, ast.Call):
                try:
                    res = mr.r.callees(c, fi, fi.cls) if q in model.functions else ("unknown",)
                except Exception:
                    res = ("unknown",)
                if res[0] == "funcs":
                    tg |= {f.qualname for f in res[1]}
                elif res[0] == "ctor":
                    for mn in ("__init__", "__post_init__"):
                        mt = model.find_method(res[1], mn)
                        if mt is not None:
                            tg.add(mt.qualname)
                # a function handed over as an argument (key=..., a callback) is applied by the callee
                for a in list(c.args) + [k.value for k in c.keywords]:
                    if isinstance(a, ast.Name):
                        q2 = model.resolve_name(fi.module, a.id) if q in model.functions else None
                        if q2 is None and extra and a.id in extra:
                            q2 = a.id
                        if q2 in funcs:
                            tg.add(q2)
                if isinstance(c.func, ast.Name) and extra and c.func.id in extra:
                    tg.add(c.func.id)
            for t_ in tg:
                outs.setdefault(t_, []).append(c)
        g[q] = set(outs)
        sites[q] = outs
    index, low, stack, on, comps = {}, {}, [], set(), []
    counter = [0]

    def strong(v):
        work = [(v, iter(sorted(g.get(v, ()))))]
        index[v] = low[v] = counter[0]
        counter[0] += 1
        stack.append(v)
        on.add(v)
        while work:
            node, it = work[-1]
            advanced = False
            for w in it:
                if w not in g:
                    continue
                if w not in index:
                    index[w] = low[w] = counter[0]
                    counter[0] += 1
                    stack.append(w)
                    on.add(w)
                    work.append((w, iter(sorted(g.get(w, ())))))
                    advanced = True
                    break
                if w in on:
                    low[node] = min(low[node], index[w])
            if advanced:
                continue
            work.pop()
            if work:
                low[work[-1][0]] = min(low[work[-1][0]], low[node])
            if low[node] == index[node]:
                comp = []
                while True:
                    w = stack.pop()
                    on.discard(w)
                    comp.append(w)
                    if w == node:
                        break
                if len(comp) > 1 or node in g.get(node, ()):
                    comps.append(sorted(comp))
    for v in sorted(g):
        if v not in index:
            strong(v)
    return funcs, sites, comps


def _arms(func: ast.AST):
    """node id -> list of (id of the If/Try it sits in, arm) from the outside in"""
    out = {}

    def visit(node, path):
        out[id(node)] = path
        if isinstance(node, ast.If):
            visit(node.test, path)
            for s_ in node.body:
                visit(s_, path + [(id(node), "body")])
            for s_ in node.orelse:
                visit(s_, path + [(id(node), "orelse")])
            return
        if isinstance(node, ast.IfExp):
            visit(node.test, path)
            visit(node.body, path + [(id(node), "body")])
            visit(node.orelse, path + [(id(node), "orelse")])
            return
        for ch in ast.iter_child_nodes(node):
            if isinstance(ch, (ast.FunctionDef, ast.AsyncFunctionDef, ast.Lambda, ast.ClassDef)) and ch is not func:
                continue
            visit(ch, path)
    visit(func, [])
    return out


def _double_descents(fi_node: ast.AST, events):
    """pairs (first, second) of recursive call sites in one function where the whole result of the first (or a value read
    off it) is an argument or the receiver of the second, and the two are not in exclusive arms of a test"""
    arms = _arms(fi_node)
    ev_ids = {id(c) for c in events}
    # names bound to the whole result of an event
    holders = {}
    for a in walk_no_nested(fi_node):
        if isinstance(a, (ast.Assign, ast.AnnAssign)) and a.value is not None and id(a.value) in ev_ids:
            for t_ in (a.targets if isinstance(a, ast.Assign) else [a.target]):
                if isinstance(t_, ast.Name):
                    holders.setdefault(t_.id, []).append(a.value)
    # one level of plain aliasing / attribute reads: x = holder ; x = holder.attr
    for a in walk_no_nested(fi_node):
        if isinstance(a, ast.Assign) and len(a.targets) == 1 and isinstance(a.targets[0], ast.Name):
            v = a.value
            while isinstance(v, ast.Attribute):
                v = v.value
            if isinstance(v, ast.Name) and v.id in holders and a.targets[0].id not in holders:
                holders[a.targets[0].id] = list(holders[v.id])
    out = []
    for c2 in events:
        operands = list(c2.args) + [k.value for k in c2.keywords] + ([c2.func.value] if isinstance(c2.func, ast.Attribute) else [])
        for o in operands:
            firsts = []
            for x in ast.walk(o):
                if id(x) in ev_ids and x is not c2:
                    firsts.append(x)                      # f(g(x)) with both recursive
                elif isinstance(x, ast.Name) and x.id in holders:
                    firsts.extend(holders[x.id])
            for c1 in firsts:
                if c1 is c2:
                    continue
                p1, p2 = dict(arms.get(id(c1), [])), dict(arms.get(id(c2), []))
                if any(k in p2 and p2[k] != v for k, v in p1.items()):
                    continue
                out.append((c1, c2))
    return out


def double_descent(model: Model, run: Run) -> None:
    """E4: inside a recursive group of functions no frame hands the result of one recursive call to another recursive call.
    The second call walks the value the first one has already walked; with nesting depth d that is 2^d frames."""
    from .c05 import may_raise
    mr = may_raise(model)
    # fixture: the rule has to see the two descents of a "deepest child first" helper
    ftree = ast.parse(E4_FIXTURE)
    fnode = ftree.body[0]

    class _F:
        node = fnode
        module = "<fixture>"
        cls = None
        qualname = "depth"
        name = "depth"
    _, fsites, fcomps = _recursive_components(model, mr, {"depth": _F})
    fx = [c for cs in fsites["depth"].values() for c in cs] if ["depth"] in fcomps else []
    fx = list({id(c): c for c in fx}.values())
    ok = bool(_double_descents(fnode, fx))
    run.ob("E0-engine-fixtures", ok, {"fixture": "double descent through max(key=f) then f(deepest)"})
    if not ok:
        raise AnalysisError("E4 self-check failed on the double-descent fixture")
    funcs, sites, comps = _recursive_components(model, mr)
    run.coverage["recursive_groups"] = [[q.split("sansldap.")[-1] for q in c] for c in comps]
    run.floor("recursive groups of functions", len(comps), 2)
    for comp in comps:
        members = set(comp)
        for q in comp:
            fi = funcs[q]
            evs = list({id(c): c for t_, cs in sites[q].items() if t_ in members for c in cs}.values())
            pairs = _double_descents(fi.node, evs)
            run.ob("E4-no-double-descent", not pairs, {"function": q.split("sansldap.")[-1], "recursive_call_sites": len(evs)})
            # E6: ... nor parses a piece again because parsing it failed: a recursive call in a handler of the `try` around a
            # recursive call runs the whole descent a second time on the error path, at every level the error passes through
            for tr in walk_no_nested(fi.node):
                if not isinstance(tr, ast.Try):
                    continue
                in_body = [c for c in evs if any(x is c for b in tr.body for x in ast.walk(b))]
                in_handlers = [c for c in evs if any(x is c for h in tr.handlers for b in h.body for x in ast.walk(b))]
                run.ob("E6-no-second-descent-on-failure", not (in_body and in_handlers), {"function": q.split("sansldap.")[-1], "try_line": tr.lineno})
                if in_body and in_handlers:
                    run.fail(Finding("E6-no-second-descent-on-failure", q, f"{norm(in_body[0])[:50]} / except: {norm(in_handlers[0])[:50]}",
                                     f"{fi.name} is part of the recursive group {[x.split('.')[-1] for x in comp]}: when `{norm(in_body[0])[:50]}` fails, its handler descends into the same "
                                     f"input again with `{norm(in_handlers[0])[:50]}`; an error deep inside is re-parsed at every level it passes through (2^depth)",
                                     model.loc(fi.module, in_handlers[0])))
            for c1, c2 in pairs:
                run.fail(Finding("E4-no-double-descent", q, f"{norm(c1)[:50]} -> {norm(c2)[:50]}",
                                 f"{fi.name} is part of the recursive group {[x.split('.')[-1] for x in comp]}: the value produced by the recursive call `{norm(c1)[:60]}` "
                                 f"is descended into again by `{norm(c2)[:60]}` in the same frame; each nesting level doubles the work (2^depth)", model.loc(fi.module, c2)))


def allocations_follow_the_input(model: Model, run: Run, rule: str = "E7-no-allocation-sized-by-a-decoded-number") -> None:
    """E7: memory is allocated for bytes that have arrived, never for a number the bytes announce: `bytearray(n)`, `bytes(n)`,
    `b"\\0" * n`, `[x] * n` with n computed from a decoded length (a header's `length` / `tag_length`, the result of
    `read_integer`) costs time and memory proportional to a number inside the input - 256 times more per extra length octet -
    whatever the size of the input."""
    n = 0
    for fq, fi in sorted(model.functions.items()):
        if isinstance(fi.node, ast.Lambda) or fi.module.endswith(".schema"):
            continue
        tainted = set()
        def is_tainted(e: ast.expr) -> bool:
            for x in ast.walk(e):
                if isinstance(x, ast.Attribute) and x.attr in ("length", "tag_length") and not (isinstance(x.value, ast.Name) and x.value.id == "self"):
                    return True
                if isinstance(x, ast.Call) and isinstance(x.func, ast.Attribute) and x.func.attr in ("read_integer", "read_enumerated"):
                    return True
                if isinstance(x, ast.Name) and x.id in tainted:
                    return True
            return False
        for _ in range(3):
            for a in walk_no_nested(fi.node):
                if isinstance(a, (ast.Assign, ast.AnnAssign, ast.AugAssign)) and getattr(a, "value", None) is not None and is_tainted(a.value):
                    for t_ in (a.targets if isinstance(a, ast.Assign) else [a.target]):
                        if isinstance(t_, ast.Name):
                            tainted.add(t_.id)
        for c in walk_no_nested(fi.node):
            size = None
            if isinstance(c, ast.Call) and isinstance(c.func, ast.Name) and c.func.id in ("bytearray", "bytes") and len(c.args) == 1 and not c.keywords:
                a0 = c.args[0]
                # bytes(<int>) allocates; bytes(<buffer>) copies - only a plain arithmetic expression can be an int here
                if isinstance(a0, (ast.Name, ast.BinOp)) or (isinstance(a0, ast.Call) and isinstance(a0.func, ast.Name) and a0.func.id in ("max", "min", "int")):
                    if isinstance(a0, ast.Name) and a0.id not in tainted:
                        continue
                    size = a0
            elif isinstance(c, ast.BinOp) and isinstance(c.op, ast.Mult) and any(isinstance(s_, (ast.List, ast.Constant)) and (isinstance(s_, ast.List) or isinstance(s_.value, (bytes, str)))
                                                                                 for s_ in (c.left, c.right)):
                size = c.right if isinstance(c.left, (ast.List, ast.Constant)) else c.left
            if size is None:
                continue
            n += 1
            bad = is_tainted(size) and not (isinstance(size, ast.Call) and isinstance(size.func, ast.Name) and size.func.id == "min" and
                                            any(isinstance(x, ast.Constant) or (isinstance(x, ast.Call) and isinstance(x.func, ast.Name) and x.func.id == "len") for x in size.args))
            run.ob(rule, not bad, {"function": fq.split("sansldap.")[-1], "allocation": norm(c)[:60]})
            if bad:
                run.fail(Finding(rule, fq, norm(c)[:80], f"{fi.name} allocates `{norm(c)[:60]}` where the size comes from a decoded length: a few octets that announce a large value cost "
                                 "time and memory proportional to the number they announce, not to what was received", model.loc(fi.module, c)))
    run.ob(rule, True, {"sized_allocations_examined": n})


def error_text_growth(model: Model, run: Run) -> None:
    """E5: an error that is re-raised from a recursive frame with the caught error's text inside its own message, by a class
    whose __str__ also appends the text of __cause__ / __context__, contains that text twice: its size doubles with every level
    of nesting (2^depth characters are built, eagerly, for a few dozen input characters)."""
    from .c05 import may_raise
    mr = may_raise(model)
    _, sites, comps = _recursive_components(model, mr)
    rec = {q for c in comps for q in c}
    chained = set()
    for q, c in model.classes.items():
        m_ = c.methods.get("__str__") or c.methods.get("__repr__")
        if m_ is not None and any(isinstance(x, ast.Attribute) and x.attr in ("__cause__", "__context__") for x in ast.walk(m_.node)):
            chained.add(q)
    run.coverage["exception_classes_rendering_their_cause"] = sorted(x.split(".")[-1] for x in chained)
    n = 0
    for q in sorted(rec):
        fi = model.functions.get(q)
        if fi is None or isinstance(fi.node, ast.Lambda):
            continue
        for h in [x for x in walk_no_nested(fi.node) if isinstance(x, ast.ExceptHandler) and x.name]:
            for r in [x for x in ast.walk(h) if isinstance(x, ast.Raise) and isinstance(x.exc, ast.Call)]:
                n += 1
                cq = model.resolve_name(fi.module, norm(r.exc.func))
                texts = [a for a in list(r.exc.args) + [k.value for k in r.exc.keywords]
                         if isinstance(a, (ast.JoinedStr, ast.BinOp)) or (isinstance(a, ast.Call) and norm(a.func).split(".")[-1] in ("str", "repr", "format"))]
                embeds = any(isinstance(y, ast.Name) and y.id == h.name for a in texts for y in ast.walk(a))
                renders_cause = cq in model.classes and any(k in chained for k in model.classes[cq].mro)
                bad = embeds and renders_cause
                run.ob("E5-error-text-does-not-double", not bad, {"function": q.split("sansldap.")[-1], "raise": norm(r)[:60]})
                if bad:
                    run.fail(Finding("E5-error-text-does-not-double", q, norm(r.exc)[:80],
                                     f"{fi.name} is recursive and re-raises {cq.split('.')[-1]} with the caught error's text inside the new message, while "
                                     f"{cq.split('.')[-1]}.__str__ appends the text of its cause as well: every nesting level doubles the text", model.loc(fi.module, r)))
    run.coverage["re_raises_in_recursive_functions"] = n
    run.ob("E5-error-text-does-not-double", True, {"re_raises_examined": n}) if n == 0 else None


def ambiguity(model: Model, run: Run, rule: str, only_module, floor_sites: int, floor_patterns: int) -> None:
    sites = [s for s in find_sites(model) if only_module is None or s.module == only_module]
    run.floor("regex use sites", len(sites), floor_sites)
    distinct: Dict[tuple, List] = {}
    for s in sites:
        distinct.setdefault((s.pattern, s.flags, s.api if s.api in ("match", "fullmatch") else "search"), []).append(s)
    run.coverage["patterns"] = len(distinct)
    run.floor("distinct patterns", len(distinct), floor_patterns)
    from ..rx.eda import confirmed_exponential
    for (pat, flags, api), ss in distinct.items():
        # look-ahead assertions are built as empty transitions: the automaton then has every run the matcher can make (an assertion
        # only prunes); an ambiguity found in it is confirmed by counting runs over the witness with the assertions evaluated
        nfa = build(pat, flags, "match" if api != "fullmatch" else "fullmatch", lookaround="epsilon")
        for neg_, dir_, items_ in list(nfa.assertions):
            sub = build(pat, flags, "match", lookaround="epsilon", items_override=list(items_))
            g2, finds2 = find_eda(sub)
            if finds2:
                raise AnalysisError(f"pattern {ss[0].name}: the sub-pattern of a look-around is itself ambiguous: not decided")
        g, finds = find_eda(nfa)
        site0 = ss[0]
        label = {"pattern": site0.name, "api": api, "positions": len(nfa.positions), "loops": len(nfa.loops), "uses": [f"{s.func.split('sansldap.')[-1]}:{s.line}" for s in ss]}
        reported = set()
        real = []
        for f in finds:
            x = prefix_to(nfa, g, f["position"])
            w = f["pump"]
            if x is None or not w:
                continue
            fs = failing_suffix(nfa, x, w)
            if fs is None:
                continue
            key = (repr(nfa.positions[f["position"]].cs), f["kind"], tuple(repr(c) for c in w))
            if key in reported:
                continue
            reported.add(key)
            if nfa.assert_edges:
                verdict = confirmed_exponential(nfa, fs[0], fs[1], fs[2])
                if verdict is False:
                    continue          # the assertions cut the competing runs of this witness
                if verdict is None:
                    raise AnalysisError(f"pattern {site0.name}: an ambiguity next to a look-around could be neither confirmed nor ruled out")
            real.append((f, fs))
        run.ob(rule, not real, dict(label, ambiguous_forks=len(finds), with_failing_witness=len(real)))
        for f, (xs, ws, suf) in real[:3]:
            isb = isinstance(pat, bytes)
            fam = f'x="{show(xs, isb)}" w="{show(ws, isb)}" s="{show(suf, isb)}"'
            run.fail(Finding(rule, f"{site0.module}.{site0.name}", f"fork@{nfa.positions[f['position']].cs!r}|{f['kind']}|w={show(ws, isb)}",
                             f"pattern {site0.name} (used with .{api} in {', '.join(label['uses'][:3])}) is exponentially ambiguous: after the class "
                             f"{nfa.positions[f['position']].cs!r} {f['kind']} continue on the same input and rejoin; witness family {fam}: the input x.w^n.s is rejected "
                             "as a whole, so matching explores about 2^n runs", f"{model.relpath(site0.module)}:{site0.line}",
                             [f"pattern: {pat[:200]!r}", f"family: {fam}"]))


def find_restarts_ahead(body, idx: str):
    """`while idx != -1:` driven by `idx = text.find(sub, start)`: on every path to the back edge the search must restart strictly
    after the previous hit - start is `idx + k` (k >= 1) or a name given such a value on that very path.  A restart at a position
    that did not move past the hit finds the same hit again: the loop never ends."""
    def ahead_expr(e: ast.expr, ahead) -> bool:
        if isinstance(e, ast.Name):
            return e.id in ahead
        if isinstance(e, ast.BinOp) and isinstance(e.op, ast.Add):
            for a, b in ((e.left, e.right), (e.right, e.left)):
                if isinstance(b, ast.Constant) and type(b.value) is int and b.value >= 1 and ((isinstance(a, ast.Name) and a.id == idx) or ahead_expr(a, ahead)):
                    return True
                if isinstance(a, ast.Name) and a.id == idx and isinstance(b, ast.Call) and norm(b.func) == "len" and b.args and isinstance(b.args[0], ast.Constant) and b.args[0].value:
                    return True             # idx + len(<non-empty literal>)
        return False

    def run_block(stmts, ahead, done):
        """-> list of (ahead, done) states that fall off the end of stmts; a path that reaches the back edge undone is an error"""
        states = [(set(ahead), done)]
        for st in stmts:
            nxt = []
            for ah, dn in states:
                if isinstance(st, (ast.Break, ast.Return, ast.Raise)):
                    continue
                if isinstance(st, ast.Continue):
                    if not dn:
                        raise _NoProgress(st.lineno)
                    continue
                if isinstance(st, ast.If):
                    nxt += run_block(st.body, ah, dn) + run_block(st.orelse, ah, dn)
                    continue
                if isinstance(st, (ast.While, ast.For, ast.Try, ast.With, ast.Match)):
                    if any(isinstance(x, ast.Name) and x.id == idx and isinstance(x.ctx, ast.Store) for x in ast.walk(st)) or \
                            any(isinstance(x, (ast.Continue,)) for x in ast.walk(st)):
                        raise AnalysisError(f"scanning loop over `{idx}`: the search position is changed inside a nested block (line {st.lineno})")
                    nxt.append((ah, dn))
                    continue
                ah = set(ah)
                if isinstance(st, (ast.Assign, ast.AnnAssign, ast.AugAssign)):
                    tg = st.targets[0] if isinstance(st, ast.Assign) and len(st.targets) == 1 else getattr(st, "target", None)
                    val = getattr(st, "value", None)
                    if isinstance(tg, ast.Name):
                        if tg.id == idx:
                            if isinstance(st, ast.AugAssign):
                                good = isinstance(st.op, ast.Add) and isinstance(val, ast.Constant) and type(val.value) is int and val.value >= 1
                            else:
                                good = isinstance(val, ast.Call) and isinstance(val.func, ast.Attribute) and val.func.attr in ("find", "index") and len(val.args) >= 2 \
                                    and ahead_expr(val.args[1], ah)
                            if not good and not dn:
                                raise _NoProgress(st.lineno)
                            dn = True
                        elif isinstance(st, ast.AugAssign):
                            if not (tg.id in ah and isinstance(st.op, ast.Add) and isinstance(val, ast.Constant) and type(val.value) is int and val.value >= 0):
                                ah.discard(tg.id)
                        elif val is not None and not dn and ahead_expr(val, ah):
                            ah.add(tg.id)
                        else:
                            ah.discard(tg.id)
                    elif tg is not None and any(isinstance(x, ast.Name) and isinstance(x.ctx, ast.Store) and x.id == idx for x in ast.walk(tg)):
                        raise AnalysisError(f"scanning loop over `{idx}`: unpacking assignment to the search position (line {st.lineno})")
                nxt.append((ah, dn))
            states = nxt
        return states

    class _NoProgress(Exception):
        pass
    try:
        for _ah, dn in run_block(body, set(), False):
            if not dn:
                return False, f"`{idx}` is searched for again from a position that has not moved past the previous hit on some path"
    except _NoProgress as e:
        return False, f"`{idx}` is searched for again from a position that has not moved past the previous hit (line {e.args[0]})"
    return True, ""


def progress_rule(model: Model, run: Run) -> None:
    """Every `while` loop in the filter string parser and in receive compares a counter with a length and
    advances the counter on every path to the back edge, or iterates a reader that is consumed by each
    successful read (truthiness of a reader/list that the body shrinks)."""
    from ..anchors import filt as filter_anchors
    fa = filter_anchors(model)
    from ..regions import decode_region
    targets = [f.qualname for f in fa.parser_functions] + [r.fi.qualname for r in decode_region(model)]
    # every `while <reader>:` loop of the decoders (messages, controls, filters, credentials)
    from ..resolve import Resolver
    rs = Resolver(model)
    n_rd = 0
    for fq, f2 in sorted(model.functions.items()):
        if isinstance(f2.node, ast.Lambda) or f2.module == "sansldap.asn1" or fq in targets:
            continue
        loops = [x for x in walk_no_nested(f2.node) if isinstance(x, ast.While) and isinstance(x.test, ast.Name) and rs.env(f2).get(x.test.id) == ("inst", "sansldap.asn1.ASN1Reader")]
        if loops:
            targets.insert(len(targets) - 1, fq)
            n_rd += len(loops)
    run.floor("reader loops in the decoders", n_rd, 5)
    # `while idx != -1:` search loops anywhere else in the text parsers (schema, filter): judged by the restart-ahead rule only
    def is_find_loop(x: ast.AST) -> bool:
        return isinstance(x, ast.While) and isinstance(x.test, ast.Compare) and len(x.test.ops) == 1 and isinstance(x.test.left, ast.Name) and \
            ((isinstance(x.test.ops[0], ast.NotEq) and norm(x.test.comparators[0]) == "-1") or (isinstance(x.test.ops[0], ast.GtE) and norm(x.test.comparators[0]) == "0") or
             (isinstance(x.test.ops[0], ast.Gt) and norm(x.test.comparators[0]) == "-1")) and \
            any(isinstance(y, ast.Call) and isinstance(y.func, ast.Attribute) and y.func.attr in ("find", "index", "rfind") for y in ast.walk(x))
    find_only: set = set()
    for fq, f2 in sorted(model.functions.items()):
        if f2.module in ("sansldap.schema", "sansldap._filter") and not isinstance(f2.node, ast.Lambda) and fq not in targets and \
                any(is_find_loop(x) for x in walk_no_nested(f2.node)):
            targets.append(fq)
            find_only.add(fq)
    n = 0
    for q in targets:
        fi = model.functions.get(q)
        if fi is None:
            raise AnalysisError(f"anchor {q} not found")
        if any(isinstance(x, (ast.Yield, ast.YieldFrom)) for x in walk_no_nested(fi.node)):
            # a generator that drives a loop for its callers: progress is the consumer's business, and it is judged where the
            # generator's code has been expanded into the consuming `for` loop.  A reference that could not be expanded leaves
            # the loop undecidable here.
            used = [g.qualname for g in model.functions.values() if g is not fi and not isinstance(g.node, ast.Lambda)
                    and any(isinstance(x, ast.Name) and x.id == fi.name and model.resolve_name(g.module, x.id) == fi.qualname for x in ast.walk(g.node))]
            if used:
                raise AnalysisError(f"{q}: a generator with a scanning loop is used in {used[0]} in a way that is not expanded")
            run.note(f"{q}: generator, judged at its expansions")
            continue
        for w in [x for x in walk_no_nested(fi.node) if isinstance(x, ast.While)]:
            if q in find_only and not is_find_loop(w):
                continue
            n += 1
            t = w.test
            ok, why = False, "loop condition shape not recognised"
            def counter_of(e: ast.expr):
                """c for a test  c < len(x)"""
                if isinstance(e, ast.Compare) and len(e.ops) == 1 and isinstance(e.ops[0], ast.Lt) and isinstance(e.left, ast.Name) and isinstance(e.comparators[0], ast.Call) and norm(e.comparators[0].func) == "len":
                    return e.left.id
                return None
            c = counter_of(t)
            if c is None and isinstance(t, ast.BoolOp) and isinstance(t.op, ast.And):
                c = counter_of(t.values[0])           # while c < len(x) and <more>: leaving early only shortens the loop
            if c is None and isinstance(t, ast.Constant) and t.value is True:
                # while True: ... if c >= len(x): break ...  - the loop is bounded by the same counter through its break guard
                for b in w.body:
                    if isinstance(b, ast.If) and b.body and isinstance(b.body[-1], ast.Break) and isinstance(b.test, ast.Compare) and len(b.test.ops) == 1 \
                            and isinstance(b.test.left, ast.Name) and isinstance(b.test.comparators[0], ast.Call) and norm(b.test.comparators[0].func) == "len" \
                            and isinstance(b.test.ops[0], (ast.GtE, ast.Eq)):
                        c = b.test.left.id
                        break
            fv = None
            if c is None and isinstance(t, ast.Compare) and len(t.ops) == 1 and isinstance(t.left, ast.Name) and \
                    ((isinstance(t.ops[0], ast.NotEq) and norm(t.comparators[0]) == "-1") or (isinstance(t.ops[0], ast.GtE) and norm(t.comparators[0]) == "0") or
                     (isinstance(t.ops[0], ast.Gt) and norm(t.comparators[0]) == "-1")):
                fv = t.left.id              # while idx != -1: ... idx = text.find(sub, start)
            if fv is not None:
                ok, why = find_restarts_ahead(w.body, fv)
            elif c is not None:
                ok, why = advances_on_all_paths(w.body, c)
            elif isinstance(t, ast.Name):
                # `while reader:` - each iteration must call a read on it (or break/raise)
                r = t.id
                ok = consumes_on_all_paths(w.body, r, model, fi)
                why = f"`{r}` is not consumed on some path to the back edge" if not ok else ""
            run.ob("E2-scanner-progress", ok, {"function": q.split(".")[-1], "loop": norm(t)})
            if not ok:
                run.fail(Finding("E2-scanner-progress", q, f"while {norm(t)}", f"loop `while {norm(t)}` may reach its back edge without progress: {why}", model.loc(fi.module, w)))
    run.floor("scanner loops", n, 3)
    # no scanner call re-parses the same span: a recursive call inside an exception handler is a retry
    parser_names = {f.name for f in fa.scanners}
    for q in [f.qualname for f in fa.parser_functions]:
        fi = model.functions[q]
        for h in [x for x in walk_no_nested(fi.node) if isinstance(x, ast.ExceptHandler)]:
            for c in ast.walk(h):
                if isinstance(c, ast.Call) and isinstance(c.func, ast.Name) and c.func.id in parser_names:
                    run.ob("E3-no-reparse-on-failure", False)
                    run.fail(Finding("E3-no-reparse-on-failure", q, norm(c)[:80], "a parser call is retried inside an exception handler: every nesting level then parses its operand twice on failure (2^depth)", model.loc(fi.module, c)))
        run.ob("E3-no-reparse-on-failure", True)


def advances_on_all_paths(body: List[ast.stmt], c: str):
    """True if every path through body that reaches the end (or `continue`) performs `c += <positive>`."""
    def walk(stmts, advanced: bool):
        """returns list of (advanced, kind) for paths: kind in end|continue|exit"""
        states = [advanced]
        outs = []
        for s in stmts:
            nxt = []
            for adv in states:
                if isinstance(s, ast.AugAssign) and isinstance(s.target, ast.Name) and s.target.id == c and isinstance(s.op, ast.Add):
                    pos = isinstance(s.value, ast.Constant) and isinstance(s.value.value, int) and s.value.value > 0
                    # += of a consumed-count returned by a sub-parser counts when that name was bound by a parser call
                    nxt.append(adv or pos or isinstance(s.value, ast.Name))
                elif isinstance(s, ast.If):
                    for br in (s.body, s.orelse):
                        for a2, kind in walk(br, adv):
                            if kind == "end":
                                nxt.append(a2)
                            else:
                                outs.append((a2, kind))
                elif isinstance(s, ast.Continue):
                    outs.append((adv, "continue"))
                elif isinstance(s, (ast.Break, ast.Return, ast.Raise)):
                    outs.append((adv, "exit"))
                else:
                    nxt.append(adv)
            states = nxt
            if not states:
                break
        return outs + [(a, "end") for a in states]
    res = walk(body, False)
    bad = [k for a, k in res if k in ("end", "continue") and not a]
    return (not bad), (f"a path reaches the back edge ({bad[0]}) without `{c} += ...`" if bad else "")


def consumes_on_all_paths(body: List[ast.stmt], r: str, model: Model = None, fi=None, _depth: int = 0) -> bool:
    """Every path through `body` that reaches its end or a `continue` has consumed from reader `r`: a read_*/skip_value
    call on r, or a call that is handed r and itself consumes on every normally returning path."""
    def expr_consumes(e: ast.AST) -> bool:
        for n in ast.walk(e):
            if isinstance(n, ast.Call):
                if isinstance(n.func, ast.Attribute) and isinstance(n.func.value, (ast.Name, ast.Attribute)) and norm(n.func.value) in (r, held) and \
                        (n.func.attr.startswith("read") or n.func.attr in ("skip_value", "pop", "popleft")):
                    return True
                if held and isinstance(n.func, ast.Attribute) and isinstance(n.func.value, ast.Name) and n.func.value.id == "self" and method_consumes(n.func.attr):
                    return True
                for i, a in enumerate(list(n.args) + [k.value for k in n.keywords]):
                    if isinstance(a, ast.Name) and a.id == r:
                        if helper_consumes(n, i):
                            return True
        return False

    # the reader may be an attribute of the object the function is a method of (`self._reader`, or a local bound once to it):
    # sibling methods called on self then consume from the same reader
    held = None
    if fi is not None and getattr(fi, "cls", None) and not isinstance(fi.node, ast.Lambda):
        if r.startswith("self.") and r.count(".") == 1:
            held = r
        else:
            binds = [a.value for a in walk_no_nested(fi.node) if isinstance(a, (ast.Assign, ast.AnnAssign)) and a.value is not None and
                     any(isinstance(t_, ast.Name) and t_.id == r for t_ in (a.targets if isinstance(a, ast.Assign) else [a.target]))]
            if len(binds) == 1 and isinstance(binds[0], ast.Attribute) and isinstance(binds[0].value, ast.Name) and binds[0].value.id == "self" and r not in fi.params():
                held = norm(binds[0])

    def method_consumes(name: str) -> bool:
        if model is None or _depth > 3:
            return False
        callee = model.find_method(fi.cls, name)
        if callee is None or isinstance(callee.node, ast.Lambda) or callee.is_staticmethod or "classmethod" in callee.decorators or "property" in callee.decorators:
            return False
        key = (callee.qualname, held)
        if key in _helper_memo:
            return _helper_memo[key]
        _helper_memo[key] = False
        ok = consumes_on_all_paths(callee.node.body, held, model, callee, _depth + 1)
        _helper_memo[key] = ok
        return ok

    def helper_consumes(call: ast.Call, argi: int) -> bool:
        if model is None or fi is None or _depth > 3:
            return True
        q = model.resolve_name(fi.module, norm(call.func)) if isinstance(call.func, (ast.Name, ast.Attribute)) else None
        callee = model.functions.get(q) if q else None
        if callee is None or isinstance(callee.node, ast.Lambda):
            return True          # a dispatched unpack callable / a class-level unpack: consumes its element or raises
        ps = callee.params()
        off = 1 if callee.cls and not callee.is_staticmethod else 0
        pname = None
        if argi < len(call.args):
            pname = ps[argi + off] if argi + off < len(ps) else None
        else:
            k = call.keywords[argi - len(call.args)]
            pname = k.arg
        if pname is None:
            return True
        key = (callee.qualname, pname)
        if key in _helper_memo:
            return _helper_memo[key]
        _helper_memo[key] = True      # recursion (nested filters): assume, then verify
        body2 = callee.node.body
        # abstract / dispatching base implementations raise or delegate
        ok = consumes_on_all_paths(body2, pname, model, callee, _depth + 1) if not _is_dispatcher(callee) else True
        _helper_memo[key] = ok
        return ok

    def walk(stmts, consumed: bool):
        states = [consumed]
        outs = []
        for s in stmts:
            nxt = []
            for c in states:
                if isinstance(s, ast.If):
                    c2 = c or expr_consumes(s.test)
                    for br in (s.body, s.orelse):
                        for a2, kind in walk(br, c2):
                            if kind == "end":
                                nxt.append(a2)
                            else:
                                outs.append((a2, kind))
                elif isinstance(s, ast.Try):
                    for a2, kind in walk(s.body + s.orelse, c):
                        (nxt if kind == "end" else outs).append(a2 if kind == "end" else (a2, kind))
                    for h in s.handlers:
                        for a2, kind in walk(h.body, c):
                            (nxt if kind == "end" else outs).append(a2 if kind == "end" else (a2, kind))
                elif isinstance(s, (ast.While, ast.For)):
                    # an inner loop may run zero times; what it consumes is not counted
                    nxt.append(c or (isinstance(s, ast.For) and expr_consumes(s.iter)))
                elif isinstance(s, ast.With):
                    c2 = c or any(expr_consumes(i.context_expr) for i in s.items)
                    for a2, kind in walk(s.body, c2):
                        (nxt if kind == "end" else outs).append(a2 if kind == "end" else (a2, kind))
                elif isinstance(s, ast.Continue):
                    outs.append((c, "continue"))
                elif isinstance(s, (ast.Break, ast.Raise)):
                    outs.append((c, "exit"))
                elif isinstance(s, ast.Return):
                    outs.append((c or (s.value is not None and expr_consumes(s.value)), "return"))
                else:
                    nxt.append(c or expr_consumes(s))
            states = sorted(set(nxt))
            if not states:
                break
        return outs + [(a, "end") for a in states]
    res = walk(body, False)
    back = ("end", "continue") if _depth == 0 else ("end", "return")
    return not [k for a, k in res if k in back and not a]


_helper_memo: dict = {}


def _is_dispatcher(fi) -> bool:
    """LDAPFilter.unpack / AuthenticationCredential.unpack style: picks a concrete unpack by the peeked tag and delegates."""
    calls = [n for n in ast.walk(fi.node) if isinstance(n, ast.Call) and isinstance(n.func, ast.Attribute) and n.func.attr == "unpack"]
    return bool(calls) and any(isinstance(n, ast.Raise) for n in ast.walk(fi.node))
