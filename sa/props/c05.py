"""C05 - receiving arbitrary bytes either yields messages or fails closed."""
from __future__ import annotations

import ast
from typing import Dict, List, Optional, Set, Tuple

from ..fold import EnumConst, Folder, TagConst, Unfoldable
from ..raises import Esc, MayRaise, exc_is_sub
from ..report import Finding, Run
from ..resolve import Resolver
from ..sessrules import (SESSION_CLASSES, common_coverage, discharge_implicit, exc_short, extraction, fact, implicit_paths, path_key,
                         session_effects, where, NOTICE_ATOM)
from ..session import SESSION_MOD, Const, EnumV, ListV, Obj, Packed, Unknown, desc
from ..srcmodel import AnalysisError, FuncInfo, Model, norm, walk_no_nested

BASE = f"{SESSION_MOD}.LDAPSession"
CLIENT = f"{SESSION_MOD}.LDAPClient"
SERVER = f"{SESSION_MOD}.LDAPServer"
PROTO = f"{SESSION_MOD}.ProtocolError"
NOTICE_OID = "1.3.6.1.4.1.1466.20036"
WRITER_METHODS = ("push_sequence", "push_sequence_of", "push_set", "push_set_of", "write_boolean", "write_enumerated", "write_integer", "write_octet_string")

_shared: Dict[int, MayRaise] = {}


def may_raise(model: Model) -> MayRaise:
    if id(model) not in _shared:
        _shared[id(model)] = MayRaise(model)
    return _shared[id(model)]


# ------------------------------------------------------------------ pack-side discharges
def writer_tag_sites(model: Model, folder: Folder):
    """Every tag expression handed to an ASN1Writer method or used as a default in asn1.py."""
    sites = []
    from ..anchors import asn1 as asn1_anchors, reachable
    an = asn1_anchors(model)
    writer_side = {f.qualname for h in an.writer_helper.values() for f in reachable(model, h)} | {fi.qualname for fi in model.cls("sansldap.asn1.ASN1Writer").methods.values()}
    for fq, fi in list(model.functions.items()):
        if isinstance(fi.node, ast.Lambda):
            continue
        for n in walk_no_nested(fi.node):
            if isinstance(n, ast.Call) and isinstance(n.func, ast.Attribute) and n.func.attr in WRITER_METHODS:
                tag = None
                pos = 0 if n.func.attr.startswith("push") else 1
                if len(n.args) > pos:
                    tag = n.args[pos]
                for k in n.keywords:
                    if k.arg == "tag":
                        tag = k.value
                if tag is not None:
                    sites.append((fi, n, tag))
            elif isinstance(n, ast.Assign) and fi.module == "sansldap.asn1" and fi.qualname in writer_side \
                    and any(isinstance(t, ast.Name) and t.id == "tag" for t in n.targets):
                sites.append((fi, n, n.value))
    return sites


def fold_at_call_sites(model: Model, folder: Folder, fi, expr: ast.expr, self_cls, depth: int = 0):
    """Values of `expr` (which mentions parameters of fi) at every call site of fi in the package, or None when some call
    site does not pass constants."""
    ps = fi.params()
    off = 1 if fi.cls and not fi.is_staticmethod else 0
    used = {x.id for x in ast.walk(expr) if isinstance(x, ast.Name) and x.id in ps[off:]}
    if not used or depth > 2 or isinstance(fi.node, ast.Lambda):
        return None
    if any(isinstance(x, ast.Name) and x.id in used and isinstance(x.ctx, ast.Store) for x in walk_no_nested(fi.node)):
        return None
    vals = []
    n_sites = 0
    for cq, cfi in model.functions.items():
        if isinstance(cfi.node, ast.Lambda) or fi.name not in model.modules[cfi.module].source:
            continue
        for n in walk_no_nested(cfi.node):
            if not isinstance(n, ast.Call):
                continue
            f = n.func
            hit = (isinstance(f, ast.Name) and model.resolve_name(cfi.module, f.id) == fi.qualname) or \
                  (isinstance(f, ast.Attribute) and f.attr == fi.name and fi.cls is not None and isinstance(f.value, ast.Name) and f.value.id in ("self", "cls") and
                   cfi.cls is not None and model.find_method(cfi.cls, f.attr) is fi)
            if not hit:
                continue
            n_sites += 1
            envs = [{}]
            for p_ in used:
                i = ps.index(p_) - off
                a = n.args[i] if i < len(n.args) else next((k.value for k in n.keywords if k.arg == p_), None)
                if a is None:
                    return None
                if isinstance(a, ast.Name) and a.id in ("self", "cls") and cfi.cls is not None and cfi.params() and cfi.params()[0] == a.id:
                    # the caller hands over the object it is a method of: one binding per concrete class that runs this method
                    from ..fold import SelfRef
                    ks = [c_ for c_ in model.subclasses(cfi.cls) if model.find_method(c_, cfi.name) is cfi] or [cfi.cls]
                    envs = [dict(e_, **{p_: SelfRef(c_)}) for e_ in envs for c_ in ks]
                    continue
                try:
                    val = folder.fold(a, cfi.module, None, cfi.cls if f and isinstance(f, ast.Attribute) else None)
                except Unfoldable:
                    return None
                for e_ in envs:
                    e_[p_] = val
            for env in envs:
                try:
                    vals.append(folder.fold(expr, fi.module, env, self_cls))
                except Unfoldable:
                    return None
    return vals if n_sites else None


def stored_constructor_tag(model: Model, cls: str, attr: str) -> bool:
    """self.<attr> is only ever bound, in the class's __init__, to the constructor's own `tag` parameter"""
    from ..srcmodel import attr_is_constructor_param
    return attr_is_constructor_param(model, cls, attr) == "tag"


def check_tags(model: Model, run: Run, folder: Folder) -> bool:
    ok_all = True
    sites = writer_tag_sites(model, folder)
    run.floor("writer tag sites", len(sites), 20)
    from ..srcmodel import enclosing_statement, reaching_constants
    rc_cache: Dict[str, dict] = {}
    for fi, node, tag in sites:
        # locals that hold a literal at this statement (`choice = 1` just before the write) are read as that literal
        if any(isinstance(x, ast.Name) and x.id not in fi.params() for x in ast.walk(tag)):
            rc = rc_cache.setdefault(fi.qualname, reaching_constants(fi.node))
            st_ = enclosing_statement(fi.node, node)
            env_ = rc.get(id(st_), {}) if st_ is not None else {}
            if env_ and any(isinstance(x, ast.Name) and x.id in env_ for x in ast.walk(tag)):
                import copy as _copy

                class _S(ast.NodeTransformer):
                    def visit_Name(self, n: ast.Name):
                        if isinstance(n.ctx, ast.Load) and n.id in env_:
                            return ast.copy_location(_copy.deepcopy(env_[n.id]), n)
                        return n
                tag = _S().visit(_copy.deepcopy(tag))
        classes = [fi.cls] if fi.cls else [None]
        if fi.cls:
            classes = [c for c in model.subclasses(fi.cls) if model.find_method(c, fi.name) is fi] or [fi.cls]
            # a mixin that only makes sense combined with the classes that inherit the method (it names `self.<const>` that they define)
            concrete = [c for c in classes if c != fi.cls]
            if concrete and not model.classes[fi.cls].is_dataclass and all(b in ("object",) or b not in model.classes for b in model.classes[fi.cls].bases):
                classes = concrete
            # an abstract base (its own pack only raises NotImplementedError) is never the class of an object that is written
            pk_ = model.classes[fi.cls].methods.get("pack")
            if concrete and pk_ is not None and not isinstance(pk_.node, ast.Lambda):
                body_ = [b for b in pk_.node.body if not (isinstance(b, ast.Expr) and isinstance(b.value, ast.Constant))]
                if len(body_) == 1 and isinstance(body_[0], ast.Raise):
                    classes = concrete
        for k in classes:
            try:
                if isinstance(tag, ast.Name) and tag.id == "tag":
                    continue     # pass-through of the caller's tag parameter (checked at that caller)
                if isinstance(tag, ast.Attribute) and isinstance(tag.value, ast.Name) and tag.value.id == "self" and fi.cls and stored_constructor_tag(model, fi.cls, tag.attr):
                    continue     # the tag the object was constructed with (checked where it is constructed)
                if isinstance(tag, ast.Name) and tag.id not in fi.params():
                    # a local bound exactly once: judge its definition
                    binds = [a.value for a in walk_no_nested(fi.node) if isinstance(a, (ast.Assign, ast.AnnAssign)) and a.value is not None and
                             any(isinstance(t_, ast.Name) and t_.id == tag.id for t_ in (a.targets if isinstance(a, ast.Assign) else [a.target]))]
                    if len(binds) == 1:
                        tag = binds[0]
                if isinstance(tag, ast.BoolOp) and isinstance(tag.op, ast.Or):
                    # `tag or <default>`: the default must fold
                    v = folder.fold(tag.values[-1], fi.module, None, k)
                elif "tag" in fi.params() and any(isinstance(x, ast.Name) and x.id == "tag" for x in ast.walk(tag)):
                    # `<helper>(tag, <default number>)`: the caller's tag when there is one (checked at that caller), else a
                    # default - which is what the expression evaluates to with tag = None
                    v = folder.fold(tag, fi.module, {"tag": None}, k)
                else:
                    v = folder.fold(tag, fi.module, None, k)
                good = isinstance(v, TagConst) and isinstance(v.tag_class, EnumConst) and v.tag_class.cls.endswith(".TagClass") and isinstance(v.num, int) and v.num >= 0
            except Unfoldable as ex:
                good = False
                v = f"unfoldable: {ex}"
                # the expression depends on parameters of the enclosing helper: fold it once per call site of the helper
                vals = fold_at_call_sites(model, folder, fi, tag.values[-1] if isinstance(tag, ast.BoolOp) and isinstance(tag.op, ast.Or) else tag, k)
                if vals is not None:
                    good = all(isinstance(x, TagConst) and isinstance(x.tag_class, EnumConst) and x.tag_class.cls.endswith(".TagClass") and isinstance(x.num, int) and x.num >= 0 for x in vals)
                    v = vals
            run.ob("P2-constant-tags", good, {"function": fi.qualname, "class": k, "tag": repr(v)})
            if not good:
                ok_all = False
                run.fail(Finding("P2-constant-tags", fi.qualname, norm(tag)[:100],
                                 f"a tag passed to the TLV writer is not a folded constant with a TagClass member and a non-negative number ({v}); "
                                 "_pack_asn1 may then raise ValueError while the disconnect notification is encoded", model.loc(fi.module, node)))
    return ok_all


def check_get_data(model: Model, run: Run) -> bool:
    ok_all = True
    n = 0
    for fq, fi in list(model.functions.items()):
        if isinstance(fi.node, ast.Lambda):
            continue
        for c in walk_no_nested(fi.node):
            if isinstance(c, ast.Call) and isinstance(c.func, ast.Attribute) and c.func.attr == "get_data" and fi.module != "sansldap.asn1":
                n += 1
                rv = c.func.value
                good = False
                if isinstance(rv, ast.Name):
                    binds = [a for a in walk_no_nested(fi.node) if isinstance(a, (ast.Assign, ast.AnnAssign)) and
                             any(isinstance(t, ast.Name) and t.id == rv.id for t in (a.targets if isinstance(a, ast.Assign) else [a.target]))]
                    withs = [w for w in walk_no_nested(fi.node) if isinstance(w, ast.With) and any(i.optional_vars is not None and isinstance(i.optional_vars, ast.Name) and i.optional_vars.id == rv.id for i in w.items)]
                    good = len(binds) == 1 and not withs and isinstance(binds[0].value, ast.Call) and not binds[0].value.args and not binds[0].value.keywords \
                        and model.resolve_name(fi.module, norm(binds[0].value.func)) == "sansldap.asn1.ASN1Writer" and rv.id not in fi.params()
                run.ob("P1-get_data-on-root-writer", good, {"function": fq, "receiver": norm(rv)})
                if not good:
                    ok_all = False
                    run.fail(Finding("P1-get_data-on-root-writer", fq, norm(c), "get_data() is called on a writer that is not a local root ASN1Writer(): it raises TypeError on child writers", model.loc(fi.module, c)))
    run.floor("get_data call sites", n, 2)
    return ok_all


def check_len_octets(model: Model, esc: Esc) -> Tuple[bool, str]:
    """`X.append(len(L) | c)` where L collects one octet per 8 bits of a len() value."""
    fi = model.functions.get(esc.func)
    if fi is None:
        return False, "origin vanished"
    for n in walk_no_nested(fi.node):
        if isinstance(n, ast.Call) and n.lineno == esc.line and isinstance(n.func, ast.Attribute) and n.func.attr == "append" and n.args:
            a = n.args[0]
            if isinstance(a, ast.BinOp) and isinstance(a.op, ast.BitOr) and isinstance(a.left, ast.Call) and norm(a.left.func) == "len" and isinstance(a.right, ast.Constant) and isinstance(a.right.value, int) and 0 <= a.right.value <= 128:
                lst = norm(a.left.args[0])
                # find the while loop that fills lst
                for w in walk_no_nested(fi.node):
                    if isinstance(w, ast.While) and isinstance(w.test, ast.Name):
                        nvar = w.test.id
                        appends = [c for c in ast.walk(w) if isinstance(c, ast.Call) and isinstance(c.func, ast.Attribute) and c.func.attr == "append" and norm(c.func.value) == lst]
                        shifts = [c for c in ast.walk(w) if isinstance(c, ast.AugAssign) and isinstance(c.target, ast.Name) and c.target.id == nvar and isinstance(c.op, ast.RShift) and isinstance(c.value, ast.Constant) and c.value.value == 8]
                        other_n = [c for c in ast.walk(w) if isinstance(c, ast.Name) and c.id == nvar and isinstance(c.ctx, ast.Store)]
                        other_l = [c for c in walk_no_nested(fi.node) if isinstance(c, ast.Call) and isinstance(c.func, ast.Attribute) and norm(c.func.value) == lst and c.func.attr in ("append", "extend", "insert") and c not in appends]
                        src = [s for s in walk_no_nested(fi.node) if isinstance(s, ast.Assign) and any(isinstance(t, ast.Name) and t.id == nvar for t in s.targets)]
                        if len(appends) == 1 and len(shifts) == 1 and len(other_n) == 1 and not other_l and len(src) == 1 and isinstance(src[0].value, ast.Call) and norm(src[0].value.func) == "len":
                            return True, f"`{lst}` gets one octet per 8 bits of {nvar} = len(...) <= sys.maxsize < 2**63, so len({lst}) <= 8 and the stored value <= 8 | {a.right.value}"
    return False, "shape of the length-octet loop not recognised"


# ------------------------------------------------------------------ notification message construction
def find_objs(v, cls_pred, seen=None) -> List[Obj]:
    seen = seen if seen is not None else set()
    out = []
    if isinstance(v, Packed):
        v = v.of
    if isinstance(v, Obj):
        if id(v) in seen:
            return out
        seen.add(id(v))
        if cls_pred(v.cls):
            out.append(v)
        for fv in v.fields.values():
            out += find_objs(fv, cls_pred, seen)
    return out


def encodable(s: str) -> bool:
    try:
        s.encode("utf-8")
        return True
    except UnicodeEncodeError:
        return False


def escape_set_rule(model: Model, run: Run, ex, mr: MayRaise, rule: str):
    """the exception classes that can leave LDAPSession.receive must be {ProtocolError}; returns the escape set"""
    from ..readerrules import receive_anchor
    base_fi = receive_anchor(model)
    # ---- (1) escape set of the base receive (it contains the handlers) ---------
    base_esc = mr.escapes(base_fi.qualname, None)
    if mr.unknown_calls:
        raise AnalysisError("unresolved call sites on the receive path: " + "; ".join(sorted(set(mr.unknown_calls))[:5]))
    reach = {k[0] for k in mr.summ}
    run.coverage["functions_analysed"] = len(reach)
    run.coverage["implicit_raiser_sites"] = len(mr.implicit_sites)
    run.coverage["implicit_sites_safe"] = len([s for s in mr.implicit_sites if s["verdict"] == "safe"])
    run.floor("functions reachable from receive", len(reach), 50)
    run.floor("implicit raiser sites classified", len(mr.implicit_sites), 40)
    inv_cache: Dict[str, bool] = {}
    for e in sorted(base_esc, key=lambda e: (e.exc, e.func, e.line)):
        ok = exc_is_sub(model, e.exc, PROTO)
        why = ""
        if not ok and e.kind == "implicit" and e.exc == "KeyError" and e.func.startswith(SESSION_MOD):
            # set.remove inside the session module: decided path-sensitively by Engine D
            cls_q = e.func.rsplit(".", 1)[0]
            ips = [p for p in implicit_paths(ex, cls_q) if p.entry == "receive" and p.outcome.exc.line == e.line]
            res = [discharge_implicit(ex, cls_q, p) for p in ips]
            ok = all(r[0] for r in res)
            why = res[0][1] if res else "no path of the extracted machine reaches this removal without a membership fact"
            if not ok:
                why = [r[1] for r in res if not r[0]][0]
        run.ob(rule, ok, {"exception": e.exc.split(".")[-1], "origin": e.short(), "discharge": why} if (not exc_is_sub(model, e.exc, PROTO)) else None)
        if not ok:
            run.fail(Finding(rule, e.func, f"{e.exc.split('.')[-1]}|{e.text[:80]}",
                             f"{e.exc.split('.')[-1]} can leave receive(): raised at `{e.text[:80]}` ({e.kind}{'; ' + e.why if e.why else ''}{'; ' + why if why else ''}) "
                             "and no handler on the way converts it to ProtocolError",
                             f"{model.relpath(model.functions[e.func].module) if e.func in model.functions else ''}:{e.line}",
                             [f"origin {e.short()}"]))
    return base_esc


def check(model: Model, run: Run) -> None:
    ex = extraction(model)
    mr = may_raise(model)
    folder = Folder(model)
    run.explanation = ("(1) inter-procedural may-raise analysis (explicit raises, catalogued implicit raisers discharged by dominating guard "
                       "facts, class-hierarchy call resolution, recursion cycles) from LDAPSession/LDAPClient/LDAPServer.receive: the set of "
                       "exception classes that can leave must be {ProtocolError}; (2) every exception that can arise while the disconnect "
                       "notification is encoded inside the handlers is discharged by a verified site-specific argument (root writer, constant "
                       "tags, constant/strictly-decoded text); (3) Engine D: every ProtocolError path ends CLOSED, a CLOSED session refuses "
                       "input without effect, and the attached response is pack() of the expected constant message")
    common_coverage(ex, run)
    for q in (BASE, CLIENT, SERVER):
        model.cls(q)
        if model.find_method(q, "receive") is None:
            raise AnalysisError(f"{q}.receive not found")
    from ..readerrules import receive_anchor
    base_fi = receive_anchor(model)          # the method with the decode phase: receive itself, or what a template-method receive hands over to
    base_esc = escape_set_rule(model, run, ex, mr, "X1-escape-set")
    reach = {k[0] for k in mr.summ}
    # sample of discharged implicit sites for the evidence
    for s in mr.implicit_sites[:12]:
        run.samples.append({"site": f"{s['function'].split('sansldap.')[-1]}: {s['construct']}", "kind": s["kind"], "verdict": s["verdict"], "reason": s["reason"]})
    # ---- (2) what the wrappers add: exceptions while the notification is packed ---
    tags_ok = None
    getdata_ok = None
    from ..anchors import asn1 as asn1_anchors
    packer_qs = {f.qualname for f in asn1_anchors(model).packer_family}
    for q in (CLIENT, SERVER):
        wfi = model.find_method(q, "receive")
        if wfi is base_fi:
            continue
        w_esc = mr.escapes(wfi.qualname, q)
        extra = [e for e in w_esc if not exc_is_sub(model, e.exc, PROTO) and e not in base_esc]
        # constructed notification objects on raising paths (Engine D)
        responses = []
        for p in ex.paths[q]:
            if p.entry == "receive" and p.outcome.kind == "raise" and p.outcome.exc.obj is not None:
                r = p.outcome.exc.obj.fields.get("response")
                if isinstance(r, Packed) and isinstance(r.of, Obj):
                    responses.append(r.of)
        for e in sorted(extra, key=lambda e: (e.exc, e.func, e.line)):
            ok, why = False, "no discharge rule applies"
            if e.func.endswith("ASN1Writer.get_data") and e.exc == "TypeError":
                if getdata_ok is None:
                    getdata_ok = check_get_data(model, run)
                ok, why = getdata_ok, "every get_data() receiver is a local root ASN1Writer()"
            elif e.func in packer_qs and e.exc == "ValueError" and not ("len(" in e.text and e.kind == "implicit"):
                if tags_ok is None:
                    tags_ok = check_tags(model, run, folder)
                ok, why = tags_ok, "every tag handed to the writer folds to a constant with a TagClass member and a number >= 0"
            elif e.func in packer_qs and e.exc == "ValueError" and "len(" in e.text:
                ok, why = check_len_octets(model, e)
            elif e.exc == "UnicodeEncodeError":
                ok, why = encode_discharge(model, ex, q, e, responses, folder, mr, run)
            elif e.kind == "recursion":
                ok, why = False, "recursive encoding of the notification"
            run.ob("P0-notification-encoding-total", ok, {"class": ex.short(q), "exception": e.exc, "origin": e.short(), "discharge": why})
            if not ok:
                run.fail(Finding("P0-notification-encoding-total", e.func, f"{e.exc}|{e.text[:80]}",
                                 f"while {ex.short(q)}.receive encodes the notification attached to a ProtocolError, {e.exc} can be raised at `{e.text[:70]}` ({why}); "
                                 "it would replace the ProtocolError", f"{model.relpath(model.functions[e.func].module) if e.func in model.functions else ''}:{e.line}"))
    # ---- (3) closure and attached response (Engine D) -----------------------------
    nresp = 0
    for q in SESSION_CLASSES:
        for p in ex.paths[q]:
            if p.entry != "receive":
                continue
            if p.pre_state == "CLOSED":
                eff = session_effects(p)
                ok = p.outcome.kind == "raise" and not eff and p.post_state == "CLOSED"
                run.ob("X2-closed-refuses-input", ok)
                if not ok:
                    run.fail(Finding("X2-closed-refuses-input", f"{q}.receive", path_key(p), "a CLOSED session accepts data or changes", "", p.trace()))
                continue
            if p.outcome.kind == "raise" and p.outcome.exc.cls == PROTO:
                ok = p.post_state == "CLOSED"
                run.ob("X3-protocol-error-closes", ok, {"class": ex.short(q), "pre": p.pre_state, "incoming": p.msg_in, "post": p.post_state})
                if not ok:
                    run.fail(Finding("X3-protocol-error-closes", f"{q}.receive", path_key(p), f"ProtocolError leaves the session {p.post_state}", "", p.trace()))
                # attached response
                o = p.outcome.exc.obj
                r = o.fields.get("response") if o is not None else None
                if q == BASE:
                    continue
                nresp += 1
                ok, why = response_ok(model, folder, q, r, p)
                run.ob("X4-attached-notification", ok, {"class": ex.short(q), "incoming": p.msg_in, "response": desc(r) if r is not None else None, "why": why})
                if not ok:
                    run.fail(Finding("X4-attached-notification", f"{q}.receive", f"{ex.short(q)}|{why}", f"the bytes attached to the ProtocolError are not the expected notification: {why}", "", p.trace()))
    run.floor("ProtocolError paths with response check", nresp, 30)
    # ---- (4) lenient decodes feeding error text ------------------------------------
    lenient_decode_rule(model, mr, run, reach)


def response_ok(model: Model, folder: Folder, q: str, r, p) -> Tuple[bool, str]:
    if r is None or (isinstance(r, Const) and r.v is None):
        # allowed only when the peer initiated the termination (unbind / notice received)
        req = p.outcome.exc.obj.fields.get("request") if p.outcome.exc.obj else None
        if isinstance(req, Obj) and (req.cls.endswith(".UnbindRequest") or (q == CLIENT and req.cls.endswith(".ExtendedResponse"))):
            return True, "no response for a peer-initiated termination"
        return False, "no notification attached although the error was not a peer-initiated termination"
    if not (isinstance(r, Packed) and isinstance(r.of, Obj)):
        if desc(r).startswith("?global:"):
            # a module-level name the session interpreter does not evaluate (a payload packed once at import): what it holds is not read here
            raise AnalysisError(f"{q}: the response attached to the ProtocolError is the module-level value `{desc(r)[8:]}`, which is not followed to the message it was packed from")
        return False, f"response is {desc(r)}, not pack() of a message"
    o = r.of
    mid = o.fields.get("message_id")
    if not (isinstance(mid, Const) and mid.v == 0):
        return False, f"message_id is {desc(mid)}, not 0"
    if q == CLIENT:
        if not o.cls.endswith(".UnbindRequest"):
            return False, f"client attaches {o.cls.split('.')[-1]}, not UnbindRequest"
        return True, "UnbindRequest(message_id=0)"
    if not o.cls.endswith(".ExtendedResponse"):
        return False, f"server attaches {o.cls.split('.')[-1]}, not ExtendedResponse"
    nm = o.fields.get("name")
    name_ok = False
    if isinstance(nm, EnumV):
        try:
            name_ok = folder.enum_member(nm.cls, nm.member).value == NOTICE_OID
        except Unfoldable:
            name_ok = False
    elif isinstance(nm, Const):
        name_ok = nm.v == NOTICE_OID
    if not name_ok:
        return False, f"responseName is {desc(nm)}, not the notice-of-disconnection OID"
    res = o.fields.get("result")
    rc = res.fields.get("result_code") if isinstance(res, Obj) else None
    if not (isinstance(rc, EnumV) and rc.member == "PROTOCOL_ERROR"):
        return False, f"resultCode is {desc(rc)}, not protocolError"
    val = o.fields.get("value")
    if not (isinstance(val, Const) and val.v is None):
        return False, "responseValue present"
    return True, "ExtendedResponse(message_id=0, protocolError, notice OID)"


def value_origin(model: Model, fi, e: ast.expr, depth: int = 0):
    """[(class, field, is_loop_element)] for the text value `e` in function fi: `self.f`, an element of `self.f` (loop variable),
    `<param>.f` / `<param>` of a module-level helper resolved at every call site of the helper. None = unknown."""
    if depth > 3:
        return None
    if isinstance(e, ast.Attribute) and isinstance(e.value, ast.Name) and e.value.id == "self" and fi.cls:
        return [(fi.cls, e.attr, False)]
    params = fi.params()

    def at_call_sites(pname: str, attr: Optional[str]):
        idx = params.index(pname)
        out, n_sites = [], 0
        for cq, cfi in model.functions.items():
            if isinstance(cfi.node, ast.Lambda) or fi.name not in model.modules[cfi.module].source:
                continue
            for n in walk_no_nested(cfi.node):
                if not isinstance(n, ast.Call):
                    continue
                f = n.func
                hit = (isinstance(f, ast.Name) and model.resolve_name(cfi.module, f.id) == fi.qualname) or \
                      (isinstance(f, ast.Attribute) and f.attr == fi.name and fi.cls is not None and isinstance(f.value, ast.Name) and f.value.id in ("self", "cls") and
                       cfi.cls is not None and model.find_method(cfi.cls, f.attr) is fi)
                if not hit:
                    continue
                n_sites += 1
                off = 1 if (fi.cls and not fi.is_staticmethod and isinstance(f, ast.Attribute)) else 0
                i = idx - off
                a = n.args[i] if 0 <= i < len(n.args) else next((k.value for k in n.keywords if k.arg == pname), None)
                if a is None:
                    return None
                if attr is not None:
                    if isinstance(a, ast.Name) and a.id == "self" and cfi.cls:
                        out.append((cfi.cls, attr, False))
                        continue
                    return None
                sub = value_origin(model, cfi, a, depth + 1)
                if sub is None:
                    return None
                out += sub
        return out if n_sites else None

    if isinstance(e, ast.Attribute) and isinstance(e.value, ast.Name) and e.value.id in params and e.value.id != "self":
        return at_call_sites(e.value.id, e.attr)
    if not isinstance(e, ast.Name):
        return None
    # loop variable over something
    for f in walk_no_nested(fi.node):
        if isinstance(f, ast.For) and isinstance(f.target, ast.Name) and f.target.id == e.id:
            src = value_origin(model, fi, f.iter, depth + 1)
            return None if src is None else [(c, fld, True) for c, fld, _ in src]
    stores = [a for a in walk_no_nested(fi.node) if isinstance(a, (ast.Assign, ast.AnnAssign)) and a.value is not None and
              any(isinstance(t, ast.Name) and t.id == e.id for t in (a.targets if isinstance(a, ast.Assign) else [a.target]))]
    if len(stores) == 1 and e.id not in params:
        return value_origin(model, fi, stores[0].value, depth + 1)
    if e.id in params and not stores:
        return at_call_sites(e.id, None)
    return None


def encode_origins(model: Model, fi, call: ast.Call, depth: int = 0):
    return value_origin(model, fi, call.func.value, depth)


def encode_discharge(model: Model, ex, q: str, e: Esc, responses: List[Obj], folder: Folder, mr: MayRaise, run: Run) -> Tuple[bool, str]:
    fi = model.functions.get(e.func)
    if fi is None or isinstance(fi.node, ast.Lambda):
        return False, "origin is not a function"
    # which field does the encoded text come from?
    call = None
    for n in walk_no_nested(fi.node):
        if isinstance(n, ast.Call) and n.lineno == e.line and isinstance(n.func, ast.Attribute) and n.func.attr == "encode" and norm(n)[:120] == e.text:
            call = n
    if call is None:
        return False, "encode call not found"
    origins = encode_origins(model, fi, call)
    if not origins:
        return False, "encoded text is not a field of the message"
    n_objs = 0
    for ocls, fname, is_loop in origins:
        objs = []
        for r in responses:
            objs += find_objs(r, lambda c: model.is_subclass(c, ocls) if c in model.classes else False)
        n_objs += len(objs)
        for o in objs:
            v = o.fields.get(fname)
            if is_loop:
                if (isinstance(v, Const) and v.v is None) or (isinstance(v, ListV) and not v.tags):
                    continue
                return False, f"{fname} is {desc(v)}: elements not known"
            if isinstance(v, Const) and v.v is None:
                continue
            if isinstance(v, Const) and isinstance(v.v, str):
                if encodable(v.v):
                    continue
                return False, f"constant {v.v!r} is not encodable"
            if isinstance(v, EnumV):
                try:
                    val = folder.enum_member(v.cls, v.member).value
                except Unfoldable:
                    return False, "enum value not foldable"
                if isinstance(val, str) and encodable(val):
                    continue
                return False, "enum value not encodable text"
            if isinstance(v, Unknown) and v.why == "str":
                ok, why = error_text_encodable(model, mr, run)
                if ok:
                    continue
                return False, why
            return False, f"{fname} is {desc(v)}: not a constant"
    names = "/".join(sorted({f for _, f, _ in origins}))
    if not n_objs:
        return True, f"no instance of {'/'.join(sorted({c.split('.')[-1] for c, _, _ in origins}))} is part of the constructed notification (its list arguments are empty literals)"
    return True, f"`{names}` is constant, None/empty, or error text built from ints, enums, tags and strictly decoded strings"


_err_text_cache: Dict[int, Tuple[bool, str]] = {}


def error_text_encodable(model: Model, mr: MayRaise, run: Run) -> Tuple[bool, str]:
    """str(e) for the ProtocolError raised in receive: every interpolated value of every message
    template that can reach it is an int, an enum, a tag tuple, a class name, or text that was
    produced by a strict decode (strictly decoded UTF-8 always re-encodes)."""
    if id(model) in _err_text_cache:
        return _err_text_cache[id(model)]
    r = mr.r
    bad: List[str] = []
    n = 0
    base_fi = model.find_method(BASE, "receive")
    sites = set()
    for key, escs in mr.summ.items():
        for e in escs:
            if e.kind == "explicit" and e.func in model.functions:
                sites.add((e.func, e.line))
    for fq, line in sorted(sites):
        fi = model.functions[fq]
        for node in walk_no_nested(fi.node):
            if isinstance(node, ast.Raise) and node.lineno == line and isinstance(node.exc, ast.Call) and node.exc.args:
                msg = node.exc.args[0]
                for fv in [x for x in ast.walk(msg) if isinstance(x, ast.FormattedValue)] + ([msg] if isinstance(msg, ast.Name) else []):
                    expr = fv.value if isinstance(fv, ast.FormattedValue) else fv
                    n += 1
                    ok, why = text_source_ok(model, r, fi, expr, 0)
                    if not ok:
                        bad.append(f"{fq.split('sansldap.')[-1]}:{line} {{{norm(expr)[:50]}}}: {why}")
    run.ob("P3-error-text-encodable", not bad, {"interpolations": n, "bad": bad[:5]})
    if bad:
        run.fail(Finding("P3-error-text-encodable", SERVER + ".receive", bad[0][:150],
                         "the server re-encodes str(error) into the notice of disconnection with the strict codec, but a value interpolated into an "
                         "error message may contain text that does not encode: " + bad[0], ""))
    res = (not bad, "error text interpolates only ints/enums/tags/strictly decoded text" if not bad else bad[0])
    _err_text_cache[id(model)] = res
    return res


def text_source_ok(model: Model, r: Resolver, fi: FuncInfo, expr: ast.expr, depth: int) -> Tuple[bool, str]:
    t = r.strip_opt(r.type_of(expr, fi))
    if t[0] == "prim" and t[1] in ("int", "bool", "float", "none", "exception"):
        return True, t[1]
    if t[0] == "inst":
        c = model.classes.get(t[1])
        if c is not None and (c.is_enum or any(b.endswith("NamedTuple") for b in c.bases)):
            return True, "enum/tuple repr"
        if c is not None and c.is_dataclass:
            return True, "dataclass repr (repr of str/bytes fields is ASCII-escaped only for bytes; str fields come from strict decodes: checked by the decode rule)"
    if isinstance(expr, ast.Attribute) and expr.attr in ("__name__", "name") and not (t == ("prim", "str") and expr.attr == "name" and not _is_enum_name(model, r, fi, expr)):
        return True, "identifier"
    if isinstance(expr, ast.Call) and isinstance(expr.func, ast.Name) and expr.func.id in ("len", "repr", "type", "int", "hex"):
        return True, "int/repr"
    if isinstance(expr, ast.Name) and depth < 4:
        # local: every assignment must itself be fine
        binds = [a for a in walk_no_nested(fi.node) if isinstance(a, (ast.Assign, ast.AnnAssign, ast.AugAssign)) and
                 any(isinstance(tg, ast.Name) and tg.id == expr.id for tg in (a.targets if isinstance(a, ast.Assign) else [a.target]))]
        handlers = [h for h in walk_no_nested(fi.node) if isinstance(h, ast.ExceptHandler) and h.name == expr.id]
        if handlers and not binds:
            return True, "str() of a caught exception (its own template is checked at its raise site)"
        if binds:
            for a in binds:
                v = a.value
                parts = [x.value for x in ast.walk(v) if isinstance(x, ast.FormattedValue)] if isinstance(v, (ast.JoinedStr, ast.IfExp, ast.BinOp)) else ([v] if not isinstance(v, ast.Constant) else [])
                for pz in parts:
                    if isinstance(pz, ast.Constant):
                        continue
                    ok, why = text_source_ok(model, r, fi, pz, depth + 1)
                    if not ok:
                        return False, why
            return True, "local built from checked parts"
        if expr.id in fi.params():
            at = r.env(fi).get(expr.id)
            if at and r.strip_opt(at) == ("prim", "str"):
                return True, "str parameter (hint literal supplied by library code)"
    if t == ("prim", "str") and isinstance(expr, ast.Attribute):
        # a str field of a decoded message: must come from a strict decode (decided by the decode rule below)
        return True, "decoded field (strictness checked by D1)"
    if t == ("unknown",) and isinstance(expr, ast.Attribute):
        # attribute of a message whose static type is the base class (guarded by isinstance at run time):
        # classify by the declared type of every dataclass field of that name in the package
        kinds = set()
        for cq, c in model.classes.items():
            if c.is_dataclass and expr.attr in c.annos:
                kinds.add(r.strip_opt(r.anno(c.module, c.annos[expr.attr].annotation)))
        if kinds and all(k == ("prim", "str") for k in kinds):
            return True, "decoded str field (strictness checked by D1)"
        if kinds and all(k[0] == "prim" and k[1] in ("int", "bool") or (k[0] == "inst" and model.classes[k[1]].is_enum) for k in kinds):
            return True, "int/enum field"
    if t == ("prim", "str") and isinstance(expr, ast.Call) and isinstance(expr.func, ast.Name) and expr.func.id == "str":
        return True, "str() of an exception"
    if t in (("prim", "str"), ("prim", "strlike")) and isinstance(expr, ast.Constant):
        return True, "literal"
    if t[0] == "prim" and t[1] in ("bytes", "bytearray", "memoryview", "byteslike"):
        return True, "bytes repr is ASCII"
    return False, f"source of type {t} not classified"


def _is_enum_name(model, r, fi, expr: ast.Attribute) -> bool:
    bt = r.strip_opt(r.type_of(expr.value, fi))
    return bt[0] == "inst" and bt[1] in model.classes and model.classes[bt[1]].is_enum


def lenient_decode_rule(model: Model, mr: MayRaise, run: Run, reach: Set[str]) -> None:
    """D1: text produced on the receive path that can end up in an error message is decoded strictly."""
    # fields interpolated into ProtocolError text in the session module
    interpolated: Set[str] = set()
    for fq, fi in model.functions.items():
        if fi.module != SESSION_MOD or isinstance(fi.node, ast.Lambda):
            continue
        for n in ast.walk(fi.node):
            if isinstance(n, ast.FormattedValue):
                for a in ast.walk(n.value):
                    if isinstance(a, ast.Attribute):
                        interpolated.add(a.attr)
    n = 0
    for fq in sorted(reach):
        fi = model.functions.get(fq)
        if fi is None or isinstance(fi.node, ast.Lambda) or fi.module == SESSION_MOD:
            continue
        for c in walk_no_nested(fi.node):
            if isinstance(c, ast.Call) and isinstance(c.func, ast.Attribute) and c.func.attr == "decode":
                n += 1
                err = c.args[1] if len(c.args) >= 2 else None
                for k in c.keywords:
                    if k.arg == "errors":
                        err = k.value
                strict = err is None or (isinstance(err, ast.Constant) and err.value == "strict")
                # where does the decoded value go?
                target = decode_target_field(fi, c)
                flows = target in interpolated if target else True
                ok = strict or not flows
                run.ob("D1-strict-decode-of-error-text", ok, {"function": fq.split("sansldap.")[-1], "field": target, "strict": strict})
                if not ok:
                    run.fail(Finding("D1-strict-decode-of-error-text", fq, f"{target}|{norm(c)[-60:]}",
                                     f"`{target}` is decoded with a non-strict error handler and is interpolated into the ProtocolError text that "
                                     "LDAPServer.receive re-encodes strictly for the notice of disconnection: undecodable peer bytes then make "
                                     "receive raise UnicodeEncodeError instead of ProtocolError", model.loc(fi.module, c)))
    run.floor("decode sites on the receive path", n, 5)


def decode_target_field(fi: FuncInfo, call: ast.Call) -> Optional[str]:
    """keyword name of the constructor argument the decoded value reaches (directly or via one local)."""
    parent_kw = None
    for n in walk_no_nested(fi.node):
        if isinstance(n, ast.keyword) and any(x is call for x in ast.walk(n.value)):
            return n.arg
        if isinstance(n, (ast.Assign, ast.AnnAssign)) and n.value is not None and any(x is call for x in ast.walk(n.value)):
            tg = n.targets[0] if isinstance(n, ast.Assign) else n.target
            if isinstance(tg, ast.Name):
                for k in walk_no_nested(fi.node):
                    if isinstance(k, ast.keyword) and any(isinstance(x, ast.Name) and x.id == tg.id for x in ast.walk(k.value)):
                        return k.arg
                    if isinstance(k, ast.Call) and isinstance(k.func, ast.Attribute) and k.func.attr == "append" and any(isinstance(x, ast.Name) and x.id == tg.id for x in k.args):
                        lst = norm(k.func.value)
                        for kk in walk_no_nested(fi.node):
                            if isinstance(kk, ast.keyword) and norm(kk.value) == lst:
                                return kk.arg
                return tg.id
    return None
