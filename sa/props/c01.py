"""C01 - every message survives encode -> decode (writer/reader grammar agreement: necessary condition)."""
from __future__ import annotations

import ast
from typing import Dict, List

from ..report import Finding, Run
from ..srcmodel import AnalysisError, Model, norm, walk_no_nested
from ..tlv import flatten
from ..tlvcheck import AUTH, CTL, FLT, MSG, Aligner, extracted, finish_with_errors, short


def check(model: Model, run: Run) -> None:
    # rules that read the writers directly come first: they give their verdict even when a writer has a shape the grammar
    # extractor cannot follow
    purity(model, run, None)
    written_as_held(model, run)
    from ..tlvcheck import string_encoding_defaults
    string_encoding_defaults(model, run, "W19-string-encoding-defaults-are-utf8")
    from ..readerrules import lemma_no_deferred_loop_capture
    lemma_no_deferred_loop_capture(model, run, ("sansldap._messages", "sansldap._controls", "sansldap._filter", "sansldap._authentication", "sansldap.asn1"),
                                   "W18-no-deferred-capture-of-loop-variables", "elements of a repeated component are all decoded from (or encoded as) the last one")
    from ..commonrules import memoised_results_are_immutable, no_memoised_views_of_fields
    memoised_results_are_immutable(model, run, "W20-no-memoised-mutable-results", ("sansldap._messages", "sansldap._controls", "sansldap._filter", "sansldap._authentication", "sansldap.asn1"),
                                   "octets or elements one message appended are part of the next message's encoding")
    no_memoised_views_of_fields(model, run, "W21-nothing-derived-from-the-fields-is-memoised",
                                [q for q, c in model.classes.items() if c.is_dataclass and c.module in ("sansldap._messages", "sansldap._controls", "sansldap._filter", "sansldap._authentication")],
                                "what is encoded (or compared) is the object as it was when first asked, not as it is")
    from ..commonrules import values_compare_by_their_fields, overrides_keep_the_signature
    _wire_classes = [q for q, c in model.classes.items() if c.is_dataclass and c.module in ("sansldap._messages", "sansldap._controls", "sansldap._filter", "sansldap._authentication")]
    values_compare_by_their_fields(model, run, "W25-values-compare-by-their-fields", _wire_classes,
                                   "the decoded message is compared with the original by a relation that is no longer equality of the fields")
    overrides_keep_the_signature(model, run, "W26-overrides-keep-the-signature",
                                 ("sansldap._controls.LDAPControl", "sansldap._filter.LDAPFilter", "sansldap._authentication.AuthenticationCredential", "sansldap._messages.LDAPMessage"),
                                 ("unpack", "pack", "_pack_inner", "get_value"),
                                 "what the decoder passes for that parameter is lost and the field is built from a default")
    from .c17 import hooks_store_fields_as_given
    wire = sorted(q for q, c in model.classes.items() if c.is_dataclass and c.module in ("sansldap._messages", "sansldap._controls", "sansldap._filter", "sansldap._authentication"))
    hooks_store_fields_as_given(model, run, wire, "W17-fields-held-as-given",
                                "the value a decoder builds is changed again on construction, so what is decoded is not what was encoded for the inputs the rewrite touches")
    ex = extracted(model)
    run.explanation = ("sibling cross-check of the two implementations of each type: the TLV grammar the writer can emit and the grammar the reader accepts are both "
                       "extracted by abstract interpretation; every emitted component must be accepted by the reader at that point (by position for mandatory "
                       "components, by tag dispatch for optional ones) with the same universal kind, an accepted tag, the SAME dataclass field on both sides, inverse "
                       "conversions and omission <=> decoder default; plus field coverage, protocolOp/choice dispatch and purity of the writers. "
                       "Necessary condition only: value equality and primitive arithmetic (C07) are not decided")
    from ..tlvcheck import dispatch_entries_are_owned
    dispatch_entries_are_owned(model, run, "D5-dispatch-entries-are-owned", "bytes no encoder of this library writes are decoded into a message of another kind")
    al = Aligner(ex, run)
    # ---- envelope + per-operation body ------------------------------------------------------
    env = ex.envelope
    env_nodes = env.nodes
    n_types = 0
    for c in ex.msg_classes:
        res = ex.rres.get(c)
        num = ex.class_tag_number(c)
        if res is None and c in ex.errors:
            continue
        ok = res is not None
        run.ob("D1-protocol-op-dispatch", ok, {"class": short(c), "tag_number": num})
        if not ok:
            run.fail(Finding("D1-protocol-op-dispatch", c, f"tag_number={num}", f"no PROTOCOL_PACKER entry decodes protocolOp {num} ({short(c)})", ""))
            continue
        ok = res.cls == c
        run.ob("D1-protocol-op-dispatch", ok, {"class": short(c), "decoder_returns": short(res.cls)})
        if not ok:
            run.fail(Finding("D1-protocol-op-dispatch", c, f"{num} -> {short(res.cls)}", f"PROTOCOL_PACKER[{num}] builds a {short(res.cls)}, not a {short(c)}", ""))
            continue
        n_types += 1
        w = ex.wgram[c]
        if not (len(w) == 1 and w[0].kind == "cons" and len(w[0].children) >= 2):
            raise AnalysisError(f"{c}: unexpected envelope shape in the writer grammar")
        wenv = w[0]
        # envelope: message id, protocolOp wrapper, controls
        if not (len(env_nodes) == 1 and env_nodes[0].kind == "cons"):
            raise AnalysisError("unexpected envelope shape in the reader grammar")
        renv = env_nodes[0]
        content = env.inlines.get("<return>")
        # envelope locals reach the message through the positional arguments of the per-operation unpacker
        emap = envelope_map(model, ex, c, content)
        content_res = content if content is not None else env
        content_res.envelope_map = emap
        # compare message id + controls via the aligner with the op body spliced in
        rchildren = list(renv.children)
        op_r = [n for n in rchildren if n.kind == "cons"]
        if len(op_r) != 1:
            raise AnalysisError("protocolOp reader component not found")
        op_w = [n for n in wenv.children if n.kind == "cons" and n.tag is not None and n.tag.cls_name == "APPLICATION"]
        if len(op_w) != 1:
            raise AnalysisError(f"{c}: protocolOp writer component not found")
        # 1. protocolOp tag accepted by the envelope reader and dispatched on class APPLICATION + number
        ok = op_r[0].spec.accepts(op_w[0].tag)
        run.ob("W4-tag-accepted", ok, {"class": short(c), "protocolOp": repr(op_w[0].tag)})
        if not ok:
            run.fail(Finding("W4-tag-accepted", c, f"protocolOp {op_w[0].tag}", f"{short(c)}: protocolOp tag {op_w[0].tag} is not accepted by the envelope reader", ""))
        # 2. body
        al.align(c, op_w[0].children, res.nodes, res)
        # 3. rest of the envelope (message id, controls)
        w_rest = [n for n in wenv.children if n is not op_w[0]]
        r_rest = [n for n in rchildren if n is not op_r[0]]
        save = dict(content_res.field_of_var)
        content_res.field_of_var.update({k: v for k, v in emap.items()})
        al.align(c, w_rest, r_rest, content_res)
        content_res.field_of_var.clear()
        content_res.field_of_var.update(save)
        # 4. field coverage
        fields = [f.name for f in model.dataclass_fields(c) if f.init]
        written = {l.path.split(".")[0] for l in flatten(w) if l.path} | {n.src.path.split(".")[0] for n in walk_w(w) if n.kind in ("rep", "ref") and n.src is not None}
        assigned = set(res.field_of_var.values())
        for f in fields:
            ok = f in written and f in assigned
            run.ob("W10-field-coverage", ok, {"class": short(c), "field": f, "written": f in written, "read": f in assigned})
            if not ok:
                run.fail(Finding("W10-field-coverage", c, f"{f}|written={f in written}|read={f in assigned}", f"{short(c)}.{f} is {'never written by pack' if f not in written else 'never assigned by the decoder'}", ""))
    for c_, res_ in list(ex.rres.items()) + [("<envelope>", ex.envelope), ("<control>", ex.ctl_generic)]:
        for ln_, var_, lst_ in getattr(res_, "late_appends", []) if res_ is not None else []:
            run.ob("W1-component-accepted", False, {"reader": short(res_.func), "list": lst_})
            run.fail(Finding("W1-component-accepted", res_.func, f"late-append|{lst_}.append({var_})", f"{short(res_.func)} reads `{var_}` inside a loop but appends it to `{lst_}` only after the loop: "
                             "of a repeated component only the last element is kept", f"{model.relpath(model.functions[res_.func].module) if res_.func in model.functions else ''}:{ln_}"))
    run.floor("message types aligned", n_types, 9)
    # ---- filters, credentials -------------------------------------------------------------------
    for group, base, idattr in ((ex.filter_classes, f"{FLT}.LDAPFilter", "filter_id"), (ex.cred_classes, f"{AUTH}.AuthenticationCredential", "auth_id")):
        for c in group:
            res = ex.rres.get(c)
            if res is None and c in ex.errors:
                continue
            if res is None:
                run.ob("D2-choice-has-reader", False)
                run.fail(Finding("D2-choice-has-reader", c, "no unpack", f"{short(c)} has no unpack classmethod", ""))
                continue
            ok = res.cls == c
            run.ob("D2-choice-has-reader", ok)
            if not ok:
                run.fail(Finding("D2-choice-has-reader", c, f"returns {short(res.cls)}", f"{short(c)}.unpack builds a {short(res.cls)}", ""))
            al.align(c, ex.wgram[c], res.nodes, res)
            n_types += 1
            fields = [f.name for f in model.dataclass_fields(c) if f.init]
            written = {l.path.split(".")[0] for l in flatten(ex.wgram[c]) if l.path} | {n.src.path.split(".")[0] for n in walk_w(ex.wgram[c]) if n.kind in ("rep", "ref") and n.src is not None}
            assigned = set(res.field_of_var.values())
            for f in fields:
                ok = f in written and f in assigned
                run.ob("W10-field-coverage", ok, {"class": short(c), "field": f})
                if not ok:
                    run.fail(Finding("W10-field-coverage", c, f"{f}|written={f in written}|read={f in assigned}", f"{short(c)}.{f} is {'never written by pack' if f not in written else 'never assigned by unpack'}", ""))
            # choice tag written == id the dispatcher compares
            try:
                cid = ex.folder.fold(ast.parse(f"self.{idattr}", mode="eval").body, model.classes[c].module, None, c)
            except Exception:
                cid = None
            top = ex.wgram[c][0] if ex.wgram[c] else None
            ok = top is not None and top.tag is not None and top.tag.cls_name == "CONTEXT_SPECIFIC" and top.tag.num == cid
            run.ob("D3-choice-tag-is-dispatch-id", ok, {"class": short(c), idattr: cid, "written_tag": repr(top.tag) if top else None})
            if not ok:
                run.fail(Finding("D3-choice-tag-is-dispatch-id", c, f"{idattr}={cid} vs {top.tag if top else None}", f"{short(c)} writes choice tag {top.tag if top else None} but is dispatched on {idattr}={cid}", ""))
        # dispatcher shape: context class + id comparison over options.choices
        bfi = model.find_method(base, "unpack")
        src = ast.unparse(bfi.node) if bfi else ""
        if bfi is not None:
            # the dispatcher may delegate the search to private module-level helpers
            for n_ in ast.walk(bfi.node):
                if isinstance(n_, ast.Call) and isinstance(n_.func, ast.Name):
                    q_ = model.resolve_name(bfi.module, n_.func.id)
                    if q_ in model.functions and model.functions[q_].cls is None and not isinstance(model.functions[q_].node, ast.Lambda):
                        src += "\n" + ast.unparse(model.functions[q_].node)
        import re as _re
        by_attr = bool(_re.search(rf"\.{idattr}\s*(==|!=)|(==|!=)\s*[\w.]+\.{idattr}\b", src))
        # ... or through a shared helper that is told the name of the id attribute: getattr(choice, <that parameter>) compared with the tag number
        by_name = (f"'{idattr}'" in src or f'"{idattr}"' in src) and bool(_re.search(r"getattr\([^)]*\)\s*(==|!=)|(==|!=)\s*getattr\(", src))
        # ... or through a getter object handed to the helper: operator.attrgetter("<id>") applied to the choice and compared
        by_getter = bool(_re.search(rf"attrgetter\(['\"]{idattr}['\"]\)", src)) and bool(_re.search(r"\w+\(\w+\)\s*(==|!=)|(==|!=)\s*\w+\(\w+\)", src))
        ok = bfi is not None and "CONTEXT_SPECIFIC" in src and (by_attr or by_name or by_getter) and ".choices" in src and "tag_number" in src
        if not ok and bfi is not None and idattr in src and ".choices" in src and not (by_attr or by_name or by_getter):
            raise AnalysisError(f"{short(base)}.unpack mentions {idattr} and options.choices but the comparison with the tag number is spelled in a way D4 does not read")
        run.ob("D4-choice-dispatcher", ok, {"base": short(base)})
        if not ok:
            run.fail(Finding("D4-choice-dispatcher", base + ".unpack", "dispatcher shape", f"{short(base)}.unpack does not dispatch on the context tag number over options.choices", ""))
        # every concrete class is in the default choices
        chosen = default_choices(model, base)
        for c in group:
            ok = short(c) in chosen
            run.ob("D5-default-choices-complete", ok, {"class": short(c)})
            if not ok:
                run.fail(Finding("D5-default-choices-complete", c, "missing from default choices", f"{short(c)} is not in the default choices of its options class: it would be encoded but never decoded", ""))
    # ---- controls ----------------------------------------------------------------------------------
    for c in ex.ctl_classes:
        al.align(c, ex.wgram[c], ex.ctl_generic.nodes, ctl_result(model, ex, c))
        n_types += 1
    paged = [c for c in ex.ctl_classes if short(c) == "PagedResultControl"]
    for c in paged:
        enc_w = [x for w in ex.wgram[c] for x in walk_w(w) if x.kind == "encaps"]
        res = ex.rres.get(c)
        enc_r = [n for n in (res.nodes if res else []) if n.kind == "encaps"]
        ok = len(enc_w) == 1 and len(enc_r) == 1
        if not ok:
            from ..tlvcheck import value_codec_is_delegated
            dl = value_codec_is_delegated(model, c)
            if dl:
                raise AnalysisError(f"the value of {short(c)} is encoded / decoded by a separate codec object ({dl}): its grammar is not extracted")
        run.ob("W11-encapsulated-value", ok)
        if not ok:
            run.fail(Finding("W11-encapsulated-value", c, "encapsulated value", "PagedResultControl value is not written and read as an encapsulated BER value", ""))
        else:
            al.align(c, enc_w[0].children, enc_r[0].children, res)
    chosen = default_choices(model, f"{CTL}.LDAPControl")
    for c in ex.ctl_classes:
        if short(c) != "LDAPControl":
            ok = short(c) in chosen
            run.ob("D5-default-choices-complete", ok, {"class": short(c)})
            if not ok:
                run.fail(Finding("D5-default-choices-complete", c, "missing from default choices", f"{short(c)} is not in the default control choices", ""))
    run.floor("types aligned", n_types, 20)
    # ---- exact consumption: the envelope is the first and only read on the stream reader -----------
    fi = model.func(f"{MSG}.unpack_ldap_message")
    rp = fi.params()[0]
    body = [s for s in fi.node.body if not (isinstance(s, ast.Expr) and isinstance(s.value, ast.Constant))]
    reads = [n for n in walk_no_nested(fi.node) if isinstance(n, ast.Call) and isinstance(n.func, ast.Attribute) and isinstance(n.func.value, ast.Name) and n.func.value.id == rp]
    first_is_read = bool(body) and any(isinstance(x, ast.Call) and isinstance(x.func, ast.Attribute) and isinstance(x.func.value, ast.Name) and x.func.value.id == rp for x in ast.walk(body[0]))
    ok = len(reads) == 1 and first_is_read and reads[0].func.attr in ("read_sequence", "read_sequence_of")
    run.ob("W12-exact-consumption", ok, {"reads_on_stream_reader": [norm(r)[:50] for r in reads]})
    if not ok:
        run.fail(Finding("W12-exact-consumption", fi.qualname, f"reads={len(reads)}", "unpack_ldap_message does not consume exactly one outer SEQUENCE from the stream reader as its first step", model.loc(MSG, fi.node)))
    # the reader primitives advance by exactly what was validated and keep no state that a sibling forgets to reset
    from ..readerrules import lemma_no_consume_on_failure
    lemma_no_consume_on_failure(model, run, "C01")
    # a nested writer emits what was written into it, in that order, under the tag it was opened with
    from .c07 import constructed_flush
    constructed_flush(model, run)
    # ---- purity of the writers (re-encoding is byte-identical): checked first, see above ------------------
    post_decode_mutation(model, run)
    seen = set()
    for rule, cls, key, line, msg, func in al.findings:
        ident = (rule, cls, key)
        if ident in seen:
            continue
        seen.add(ident)
        fi2 = model.functions.get(func)
        run.fail(Finding(rule, cls, key, msg, f"{model.relpath(fi2.module)}:{line}" if fi2 else ""))
    from ..tlvcheck import nonconstant_tags
    nonconstant_tags(ex, run, "W15-writer-tags-are-constants")
    finish_with_errors(ex, run)


def walk_w(ws):
    for w in (ws if isinstance(ws, list) else [ws]):
        yield w
        yield from walk_w(w.children)


def envelope_map(model: Model, ex, c: str, content) -> Dict[str, str]:
    """envelope local -> message field, through the positional arguments of unpack_func(...) and the per-op function's constructor keywords."""
    out: Dict[str, str] = {}
    res = ex.rres[c]
    num = ex.class_tag_number(c)
    fi = ex.dispatch[num]
    cfi = model.functions.get(content.func) if content is not None else model.functions.get(ex.envelope.func)
    call = dispatch_call(cfi) if cfi is not None else None
    if call is None and content is None and ex.envelope.flat_body:
        call = dispatch_call(ast.Module(body=ex.envelope.flat_body, type_ignores=[]))
    if call is None:
        return out
    params = getattr(res, "lambda_params", None) or (fi.params() if not isinstance(fi.node, ast.Lambda) else [a.arg for a in fi.node.args.args])
    for p, a in zip(params, call.args):
        if isinstance(a, ast.Name) and p in res.field_of_var:
            out[a.id] = res.field_of_var[p]
    return out


def dispatch_call(fi) -> "ast.Call | None":
    """The call through a local that holds the selected per-type unpack callable (whatever the local is named)."""
    node = getattr(fi, "node", fi)
    stores = {x.id for x in ast.walk(node) if isinstance(x, ast.Name) and isinstance(x.ctx, ast.Store)}
    call = None
    for n in ast.walk(node):
        if isinstance(n, ast.Call) and isinstance(n.func, ast.Name) and n.func.id in stores and (n.args or n.keywords):
            call = n
    return call


def ctl_result(model: Model, ex, c: str):
    """Field mapping of the generic control reader for control class c: unpack_func(control_type=, critical=, value=) -> c.unpack -> constructor."""
    import copy
    g = copy.copy(ex.ctl_generic)
    g.field_of_var = {}
    gfi = model.functions[g.func]
    flat = getattr(ex.ctl_generic, "flat_body", None)
    call = dispatch_call(ast.Module(body=flat, type_ignores=[])) if flat else dispatch_call(gfi)
    if call is None:
        raise AnalysisError("unpack_ldap_control does not call unpack_func")
    for k in call.keywords:
        if isinstance(k.value, ast.Name) and k.arg in ("control_type", "critical", "value"):
            g.field_of_var[k.value.id] = k.arg
    return g


def default_choices(model: Model, base: str) -> List[str]:
    """class names listed by the default_factory of the `choices` field of the options class whose element type is `base`."""
    out: List[str] = []
    for cq, c in model.classes.items():
        if c.is_dataclass and "choices" in c.annos and short(base) in norm(c.annos["choices"].annotation):
            for f in model.dataclass_fields(cq):
                if f.name == "choices" and f.default_factory is not None:
                    for n in ast.walk(f.default_factory):
                        if isinstance(n, ast.Name):
                            out.append(n.id)
                            # a named factory function: the classes it mentions
                            q = model.resolve_name(c.module, n.id)
                            if q in model.functions and not isinstance(model.functions[q].node, ast.Lambda):
                                out += [x.id for x in ast.walk(model.functions[q].node) if isinstance(x, ast.Name) and model.resolve_name(c.module, x.id) in model.classes]
    return out


def written_as_held(model: Model, run: Run) -> None:
    """W16: what a writer iterates over, or hands to a write call, is the field as the object holds it - never a filtered,
    sliced, sorted or de-duplicated derivative of it.  Elements that are dropped or reordered on the way out cannot be
    recovered by any decoder."""
    LOSSY_CALLS = {"filter", "sorted", "set", "frozenset", "reversed"}
    n = 0
    for cq, c in model.classes.items():
        for mname in ("pack", "_pack_inner", "get_value"):
            fi = c.methods.get(mname)
            if fi is None:
                continue
            n += 1
            binds: Dict[str, List[ast.expr]] = {}
            for a in walk_no_nested(fi.node):
                if isinstance(a, (ast.Assign, ast.AnnAssign)) and a.value is not None:
                    for t_ in (a.targets if isinstance(a, ast.Assign) else [a.target]):
                        if isinstance(t_, ast.Name):
                            binds.setdefault(t_.id, []).append(a.value)

            def from_field(e: ast.expr) -> bool:
                return any(isinstance(x, ast.Attribute) and isinstance(x.value, ast.Name) and x.value.id == "self" for x in ast.walk(e))

            def lossy(e: ast.expr, depth: int = 0):
                """a sub-expression of e that drops / reorders elements of a field, or None"""
                if depth > 3:
                    return None
                for x in ast.walk(e):
                    if isinstance(x, (ast.ListComp, ast.GeneratorExp, ast.SetComp)) and any(g.ifs for g in x.generators) and any(from_field(g.iter) or
                            (isinstance(g.iter, ast.Name) and any(from_field(b) for b in binds.get(g.iter.id, []))) for g in x.generators):
                        return x
                    if isinstance(x, ast.Call) and isinstance(x.func, ast.Name) and x.func.id in LOSSY_CALLS and x.args and \
                            (from_field(x.args[-1]) or (isinstance(x.args[-1], ast.Name) and any(from_field(b) for b in binds.get(x.args[-1].id, [])))):
                        return x
                    # dict.fromkeys(xs) / collections.OrderedDict.fromkeys(xs) / Counter(xs): keeps the order and drops the repeats
                    if isinstance(x, ast.Call) and isinstance(x.func, ast.Attribute) and (x.func.attr == "fromkeys" or norm(x.func).split(".")[-1] in ("Counter", "unique_everseen")) and x.args and \
                            (from_field(x.args[0]) or (isinstance(x.args[0], ast.Name) and any(from_field(b) for b in binds.get(x.args[0].id, [])))):
                        return x
                    if isinstance(x, ast.Subscript) and isinstance(x.slice, ast.Slice) and (x.slice.lower is not None or x.slice.upper is not None or x.slice.step is not None) and \
                            (from_field(x.value) or (isinstance(x.value, ast.Name) and any(from_field(b) for b in binds.get(x.value.id, [])))):
                        return x
                if isinstance(e, ast.Name):
                    for b in binds.get(e.id, []):
                        r = lossy(b, depth + 1)
                        if r is not None:
                            return r
                return None
            bad = None
            for x in walk_no_nested(fi.node):
                if isinstance(x, ast.For):
                    bad = bad or lossy(x.iter)
                    # the element taken from the field is swapped for something else before it is written
                    if bad is None and (from_field(x.iter) or (isinstance(x.iter, ast.Name) and any(from_field(b) for b in binds.get(x.iter.id, [])))):
                        tnames = {t_.id for t_ in ast.walk(x.target) if isinstance(t_, ast.Name)}
                        for st in x.body:
                            for a in ast.walk(st):
                                if isinstance(a, (ast.Assign, ast.AugAssign, ast.AnnAssign)) and getattr(a, "value", None) is not None:
                                    tg = a.targets if isinstance(a, ast.Assign) else [a.target]
                                    if any(isinstance(t_, ast.Name) and t_.id in tnames for t_ in tg) and bad is None:
                                        bad = a.value
                elif isinstance(x, ast.Call) and isinstance(x.func, ast.Attribute) and x.func.attr.startswith("write_") and x.args:
                    bad = bad or lossy(x.args[0])
            run.ob("W16-fields-written-as-held", bad is None, {"method": fi.qualname.split("sansldap.")[-1]})
            if bad is not None:
                run.fail(Finding("W16-fields-written-as-held", fi.qualname, norm(bad)[:80],
                                 f"{fi.qualname.split('sansldap.')[-1]} writes `{norm(bad)[:70]}`, a filtered / cut / reordered copy of a field: what is left out or moved "
                                 "does not come back when the bytes are decoded", model.loc(fi.module, bad)))
    run.floor("writer methods checked for lossy sources", n, 25)


def purity(model: Model, run: Run, ex) -> None:
    """Writers are pure functions of the dataclass fields: no module state, no iteration over set/dict, no attribute writes."""
    n = 0
    targets = [c.methods[mname] for cq, c in model.classes.items() for mname in ("pack", "_pack_inner", "get_value") if mname in c.methods]
    # module-level functions that are handed a writer (pack helpers outside asn1.py) are writers too
    for fq, f_ in list(model.functions.items()):
        # ... and so is every other method that takes a writer (a pack variant a message hands its writer to)
        if not isinstance(f_.node, ast.Lambda) and f_.module != "sansldap.asn1" and f_ not in targets and \
                any(a.annotation is not None and norm(a.annotation).endswith("ASN1Writer") for a in f_.node.args.args + f_.node.args.kwonlyargs):
            targets.append(f_)
    for fi in targets:
        if True:
            n += 1
            bad = None
            for x in ast.walk(fi.node):
                if isinstance(x, ast.Name) and isinstance(x.ctx, ast.Load) and x.id not in fi.params():
                    # a module-level *object* (something constructed once at import time: a shared writer, a cache) used by a writer
                    gq = model.resolve_name(fi.module, x.id)
                    if gq and gq not in model.classes and gq not in model.functions and gq.rsplit(".", 1)[0] in model.modules:
                        gm, gn = gq.rsplit(".", 1)
                        sts = [s_ for s_ in model.modules[gm].globals_.get(gn, []) if isinstance(s_, (ast.Assign, ast.AnnAssign)) and s_.value is not None]
                        def immutable_value(v: ast.expr) -> bool:
                            """a value nobody can change after import: constants, compiled patterns, tuples / frozensets, partials of
                            package callables over such values, and instances of the package's NamedTuple classes built from them"""
                            if isinstance(v, ast.Constant) or (isinstance(v, (ast.Name, ast.Attribute)) and not isinstance(v, ast.Call)):
                                return True
                            if isinstance(v, ast.Tuple):
                                return all(immutable_value(e_) for e_ in v.elts)
                            if isinstance(v, ast.Call):
                                fn = norm(v.func)
                                if fn.split(".")[-1] in ("compile", "TypeVar", "frozenset", "tuple", "namedtuple", "Struct", "attrgetter", "itemgetter", "bytes"):
                                    return True
                                args_ok = all(immutable_value(a_) for a_ in v.args) and all(immutable_value(k_.value) for k_ in v.keywords)
                                if fn.split(".")[-1] == "partial":
                                    return args_ok
                                cq_ = model.resolve_name(gm, fn)
                                if cq_ in model.classes and any(b.endswith("NamedTuple") for b in model.classes[cq_].bases):
                                    return args_ok
                                if cq_ in model.functions and "classmethod" in model.functions[cq_].decorators and model.functions[cq_].cls and \
                                        any(b.endswith("NamedTuple") for b in model.classes[model.functions[cq_].cls].bases):
                                    return args_ok      # ASN1Tag.universal_tag(...)
                            return False
                        if sts and any(isinstance(s_.value, (ast.Call, ast.Dict, ast.List, ast.Set)) and not immutable_value(s_.value) for s_ in sts):
                            bad = f"module-level object `{x.id}` (shared between all messages and sessions)"
                if isinstance(x, ast.Attribute) and isinstance(x.ctx, (ast.Store, ast.Del)):
                    bad = f"attribute write `{norm(x)}`"
                elif isinstance(x, ast.Attribute) and x.attr == "__dict__":
                    bad = f"`{norm(x)}` (the instance dictionary: state that is not a field)"
                elif isinstance(x, ast.Call) and isinstance(x.func, ast.Name) and x.func.id == "vars":
                    bad = f"`{norm(x)[:40]}` (the instance dictionary: state that is not a field)"
                elif isinstance(x, (ast.Global, ast.Nonlocal)):
                    bad = "global/nonlocal state"
                elif isinstance(x, ast.Call) and norm(x.func) in ("object.__setattr__", "setattr"):
                    bad = f"`{norm(x)[:60]}`"
                elif isinstance(x, ast.Call) and isinstance(x.func, ast.Attribute) and x.func.attr not in ("encode",) and isinstance(x.func.value, ast.Name) and x.func.value.id not in [p for p in fi.params()] + [w.id for w in ast.walk(fi.node) if isinstance(w, ast.Name) and isinstance(w.ctx, ast.Store)]:
                    q = model.resolve_name(fi.module, x.func.value.id)
                    if q and q.startswith(fi.module + ".") and q not in model.classes:
                        bad = f"call on module-level object `{norm(x)[:50]}`"
            run.ob("W13-writers-are-pure", bad is None, {"method": fi.qualname.split("sansldap.")[-1]})
            if bad:
                run.fail(Finding("W13-writers-are-pure", fi.qualname, bad[:80], f"{fi.qualname.split('sansldap.')[-1]} is not a pure function of the message fields ({bad}): re-encoding need not reproduce the same bytes", model.loc(fi.module, fi.node)))
            # W23: whether a field's component is written depends on the field - not, in addition, on an argument of the writer that is
            # no part of the value (a flag the caller sets): the decoder sees the bytes only, and reads the omitted component as the
            # field's default.  A flag that no caller ever sets away from a true default changes nothing and is let through.
            a_ = fi.node.args
            pos_ = a_.posonlyargs + a_.args
            dfl_ = {p_.arg: d_ for p_, d_ in zip(pos_[len(pos_) - len(a_.defaults):], a_.defaults)}
            dfl_.update({p_.arg: d_ for p_, d_ in zip(a_.kwonlyargs, a_.kw_defaults) if d_ is not None})
            flags = [p_.arg for p_ in pos_ + a_.kwonlyargs if p_.arg not in ("self", "cls") and
                     (p_.annotation is None or norm(p_.annotation).split(".")[-1] in ("bool", "t.Optional[bool]", "Optional[bool]"))]
            for st_ in ast.walk(fi.node):
                if not isinstance(st_, (ast.If, ast.IfExp)):
                    continue
                t_ = st_.test
                if not (isinstance(t_, ast.BoolOp) and isinstance(t_.op, ast.And)):
                    continue
                on_field = any(isinstance(y, ast.Attribute) and isinstance(y.value, ast.Name) and y.value.id == "self" for v_ in t_.values for y in ast.walk(v_))
                used = [v_.id for v_ in t_.values if isinstance(v_, ast.Name) and v_.id in flags] + \
                       [v_.operand.id for v_ in t_.values if isinstance(v_, ast.UnaryOp) and isinstance(v_.op, ast.Not) and isinstance(v_.operand, ast.Name) and v_.operand.id in flags]
                if not on_field or not used:
                    continue
                for fl_ in used:
                    set_away = []
                    for gq, g in model.functions.items():
                        if isinstance(g.node, ast.Lambda):
                            continue
                        for c_ in ast.walk(g.node):
                            if isinstance(c_, ast.Call):
                                for k_ in c_.keywords:
                                    if k_.arg == fl_ and not (isinstance(k_.value, ast.Constant) and isinstance(dfl_.get(fl_), ast.Constant) and k_.value.value == dfl_[fl_].value) \
                                            and not (isinstance(k_.value, ast.Name) and k_.value.id == fl_):
                                        set_away.append((g, c_, k_))
                    ok_ = not set_away and isinstance(dfl_.get(fl_), ast.Constant)
                    run.ob("W23-presence-depends-on-the-field-alone", ok_, {"method": fi.qualname.split("sansldap.")[-1], "flag": fl_})
                    if not ok_:
                        where_ = set_away[0] if set_away else None
                        run.fail(Finding("W23-presence-depends-on-the-field-alone", fi.qualname, f"{norm(t_)[:60]}",
                                         f"{fi.qualname.split('sansldap.')[-1]} writes a component only when `{norm(t_)[:60]}`: `{fl_}` is an argument, not part of the value" +
                                         (f" ({where_[0].qualname.split('sansldap.')[-1]} passes `{fl_}={norm(where_[2].value)[:40]}`)" if where_ else "") +
                                         ": with it false the field is left out whatever it holds, and the decoder reads the field's default back", model.loc(fi.module, st_)))
    run.floor("writer methods checked for purity", n, 25)


SANCTIONED = {
    ("sansldap._controls", "value"): "a decoded control always exposes its raw value octets (the one asymmetry the property permits)",
    ("sansldap._messages", "name"): "MS-ADTS notice of disconnection carries responseName at envelope level; injected only when the ExtendedResponse has none",
}


def post_decode_mutation(model: Model, run: Run) -> None:
    """W14: decoded values are not modified after construction, except for the two reviewed injections."""
    from .c05 import may_raise
    mr = may_raise(model)
    mr.escapes(f"{MSG}.unpack_ldap_message", None)
    decode_side = {k[0] for k in mr.summ if k[0] in model.functions and not model.functions[k[0]].module.endswith("_session")}
    n = 0
    for fq in sorted(decode_side):
        fi = model.functions[fq]
        if isinstance(fi.node, ast.Lambda) or fi.module == "sansldap.asn1":
            continue
        for c in walk_no_nested(fi.node):
            if isinstance(c, ast.Call) and norm(c.func) in ("object.__setattr__", "setattr") and len(c.args) == 3:
                n += 1
                fld = c.args[1].value if isinstance(c.args[1], ast.Constant) else None
                ok = (fi.module, fld) in SANCTIONED
                if ok and fld == "name":
                    # only under `isinstance(msg, ExtendedResponse) ... and not msg.name` (as enclosing test or as negated guard clause)
                    from ..srcmodel import dominating_literals
                    tgt = norm(c.args[0])
                    lits = dominating_literals(fi.node, c)
                    ok = f"not {tgt}.name" in lits and any(l.startswith(f"isinstance({tgt}, ") and "ExtendedResponse" in l for l in lits)
                run.ob("W14-no-post-decode-mutation", ok, {"function": fi.name, "field": fld})
                if not ok:
                    run.fail(Finding("W14-no-post-decode-mutation", fq, f"{norm(c)[:80]}", f"{fi.name} overwrites `{fld}` of a decoded value after it was constructed: the decoded message no longer equals the one that was encoded", model.loc(fi.module, c)))
            if isinstance(c, (ast.Assign, ast.AugAssign)):
                for t in (c.targets if isinstance(c, ast.Assign) else [c.target]):
                    if isinstance(t, ast.Attribute) and not (isinstance(t.value, ast.Name) and t.value.id == "self"):
                        if isinstance(t.value, ast.Name):
                            # an object this function itself allocates with <type>.__new__(...) is still under construction
                            binds = [a.value for a in walk_no_nested(fi.node) if isinstance(a, ast.Assign) and any(isinstance(x, ast.Name) and x.id == t.value.id for x in a.targets)]
                            if binds and t.value.id not in fi.params() and all(isinstance(b, ast.Call) and isinstance(b.func, ast.Attribute) and b.func.attr == "__new__" for b in binds):
                                continue
                        n += 1
                        root = t
                        while isinstance(root, ast.Attribute):
                            root = root.value
                        if isinstance(root, ast.Name) and root.id in fi.params() and not any(isinstance(x, ast.Name) and x.id == root.id and isinstance(x.ctx, ast.Store)
                                                                                              for x in walk_no_nested(fi.node)):
                            # state of something the decoder was handed (its options): whatever a decode changes on the way in it puts back
                            # on the way out, on every way out - the write is in a `finally`, or is followed by a `try` whose `finally`
                            # writes the same attribute
                            tgt = norm(t)

                            def restored(stmts) -> bool:
                                for i, st in enumerate(stmts):
                                    if st is c:
                                        return any(isinstance(nx, ast.Try) and any(isinstance(w, (ast.Assign, ast.AugAssign)) and
                                                   any(norm(t2) == tgt for t2 in (w.targets if isinstance(w, ast.Assign) else [w.target]))
                                                   for fb in nx.finalbody for w in ast.walk(fb)) for nx in stmts[i + 1:])
                                    for fld in ("body", "orelse", "handlers"):
                                        sub = getattr(st, fld, None)
                                        if isinstance(sub, list):
                                            blocks = [h.body for h in sub] if fld == "handlers" else [sub]
                                            for b in blocks:
                                                if any(x is c for y in b for x in ast.walk(y)):
                                                    return restored(b)
                                    fin = getattr(st, "finalbody", None)
                                    if isinstance(fin, list) and any(x is c for y in fin for x in ast.walk(y)):
                                        return True
                                return False
                            ok = restored(fi.node.body)
                            run.ob("W22-decoding-leaves-its-options-as-found", ok, {"function": fi.name, "write": norm(c)[:60]})
                            if not ok:
                                run.fail(Finding("W22-decoding-leaves-its-options-as-found", fq, norm(c)[:80],
                                                 f"{fi.name} changes `{tgt}` of an object it was handed and does not put it back in a `finally`: a decode that fails part-way leaves "
                                                 "the options changed, and the next message - however ordinary - is decoded under different limits (or refused)", model.loc(fi.module, c)))
                            continue
                        run.ob("W14-no-post-decode-mutation", False)
                        run.fail(Finding("W14-no-post-decode-mutation", fq, norm(c)[:80], f"{fi.name} assigns an attribute of a decoded value", model.loc(fi.module, c)))
    run.floor("post-decode setattr sites", n, 2)
