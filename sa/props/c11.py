"""C11 - mirror agreement of send-side and receive-side bookkeeping (necessary condition)."""
from __future__ import annotations

from ..report import Finding, Run
from ..sessrules import (M, OUT, SEARCH, Extraction, common_coverage, ext_msg, extends, extraction, fact, is_notice_send,
                         msg_short, NOTICE_ATOM, SASL_ATOM)
from ..session import SESSION_MOD, desc
from ..srcmodel import AnalysisError, Model

CLIENT = f"{SESSION_MOD}.LDAPClient"
SERVER = f"{SESSION_MOD}.LDAPServer"


def nrm(s: str) -> str:
    return "OPENED" if s == "BEFORE_OPEN" else s


def delta(p, attr: str, idtext: str):
    add = any(e.kind == "set_add" and e.a == attr and desc(e.b) == idtext for e in p.effects)
    rm = any(e.kind in ("set_remove", "set_discard") and e.a == attr and desc(e.b) == idtext for e in p.effects)
    clr = any(e.kind == "set_assign" and e.a == attr for e in p.effects)
    return "add" if add else ("remove" if rm else ("clear" if clr else "none"))


def send_summaries(ex: Extraction, q: str, kind: str, variant):
    """(pre, post, out-delta, search-delta) for successful sends of `kind`."""
    out = set()
    for p in ex.paths[q]:
        if p.outcome.kind != "return" or p.pre_state == "CLOSED":
            continue
        for e in extends(p):
            o = ext_msg(e)
            if msg_short(o) != kind:
                continue
            if variant is not None and not variant(p, e, o):
                continue
            # the id the peer sees: stamped value or the message_id argument
            mid = o.fields.get("message_id")
            idt = desc(mid)
            out.add((nrm(p.pre_state), nrm(p.post_state), delta(p, OUT, idt), delta(p, SEARCH, idt), p.entry))
    return out


def recv_summaries(ex: Extraction, q: str, kind: str, variant, precond):
    out = set()
    for p in ex.paths[q]:
        if p.entry != "receive" or p.pre_state == "CLOSED" or not p.msg_in or not p.msg_in.endswith("." + kind):
            continue
        if p.outcome.kind == "raise" and not (p.outcome.exc.origin == "explicit" and p.outcome.exc.cls.endswith(".ProtocolError")):
            continue
        if variant is not None and not variant(p):
            continue
        if precond is not None and not precond(p):
            continue
        post = "CLOSED" if p.outcome.kind == "raise" else nrm(p.post_state)
        out.add((nrm(p.pre_state), post, delta(p, OUT, "msg.message_id"), delta(p, SEARCH, "msg.message_id")))
    return out


def check(model: Model, run: Run) -> None:
    ex = extraction(model)
    from ..commonrules import values_compare_by_their_fields
    values_compare_by_their_fields(model, run, "M3-values-compare-by-their-fields",
                                   [q for q, c in model.classes.items() if c.is_dataclass and c.module in ("sansldap._messages", "sansldap._controls", "sansldap._filter", "sansldap._authentication")],
                                   "what one side receives is not `==` to what the other sent although every field is")
    run.explanation = ("sibling cross-check (neither side is the oracle): for each message class the successor state and the change to "
                       "the outstanding/search id sets on the sending side (client or server API path that queues the message) must equal "
                       "those on the receiving side (receive path for that incoming class), for every pre-state the sender can be in, "
                       "treating BEFORE_OPEN and OPENED alike and under the property's precondition that responses match their request kind. "
                       "This is a necessary condition of interoperability only; joint histories and delivery schedules are not decided")
    common_coverage(ex, run)
    from .c07 import exit_does_not_swallow
    exit_does_not_swallow(model, run)
    from .c12 import drain_defaults_to_everything
    drain_defaults_to_everything(model, run, "M4-no-amount-means-everything")
    # every octet sent is received exactly once: the receive loops test the reader itself for "octets left"
    from ..readerrules import lemma_reader_truth
    lemma_reader_truth(model, run)
    # ... and what is not parsed yet is kept, whole and once, for the next delivery
    from .c02 import residue_discipline
    from ..sessrules import SESSION_CLASSES as _SC
    _rf = model.find_method("sansldap._session.LDAPSession", "receive")
    if _rf is None:
        raise AnalysisError("LDAPSession.receive not found")
    residue_discipline(model, run, ex, _rf)
    # "as an equal value": what the application hands to a request method is what goes on the wire, not a default that
    # replaced it because it happened to be falsy
    from .c05 import may_raise
    from .c06 import truth_of_package_values
    truth_of_package_values(model, run, may_raise(model), "A6-arguments-not-replaced-by-truth", "replaced by the default before it is sent")

    def sasl_send(flag):
        def f(p, e, o):
            rc = o.fields.get("result")
            rcv = rc.fields.get("result_code") if hasattr(rc, "fields") else None
            v = fact(p, ("eq(", SASL_ATOM, desc(rcv)))
            return v is flag
        return f

    def sasl_recv(flag):
        return lambda p: fact(p, ("eq(", SASL_ATOM, "msg.result.result_code")) is flag

    def notice_send(flag):
        return lambda p, e, o: (is_notice_send(p, e) is True) == flag and is_notice_send(p, e) is not None

    def notice_recv(flag):
        return lambda p: (fact(p, ("eq(", NOTICE_ATOM, "msg.name")) is True) == flag

    def in_search(flag):
        def f(p):
            g = [e for e in p.effects if e.kind == "guard" and f"in self.{SEARCH}" in str(e.a)]
            if not g:
                return False
            return g[0].b is flag
        return f

    def not_search_but_out(p):
        gs = [e for e in p.effects if e.kind == "guard" and f"in self.{SEARCH}" in str(e.a)]
        go = [e for e in p.effects if e.kind == "guard" and f"in self.{OUT}" in str(e.a)]
        if not gs or gs[0].b is not False or not go:
            return False
        t = go[0].b if " not in " not in str(go[0].a) else (not go[0].b)
        return t is True

    def out_empty(p):
        # the sender only binds with nothing outstanding, and the two sides agree on what is outstanding
        return not any(e.kind == "guard" and OUT in str(e.a) and "non-empty" in str(e.a) and e.b is True for e in p.effects)

    pairs = [
        # (label, sender class, kind, send variant, receiver class, recv variant, recv precondition)
        ("BindRequest c->s", CLIENT, "BindRequest", None, SERVER, None, out_empty),
        ("SearchRequest c->s", CLIENT, "SearchRequest", None, SERVER, None, None),
        ("ExtendedRequest c->s", CLIENT, "ExtendedRequest", None, SERVER, None, None),
        ("UnbindRequest c->s", CLIENT, "UnbindRequest", None, SERVER, None, None),
        ("UnbindRequest s->c", SERVER, "UnbindRequest", None, CLIENT, None, None),
        ("BindResponse(final) s->c", SERVER, "BindResponse", sasl_send(False), CLIENT, sasl_recv(False), not_search_but_out),
        ("BindResponse(sasl in progress) s->c", SERVER, "BindResponse", sasl_send(True), CLIENT, sasl_recv(True), not_search_but_out),
        ("SearchResultEntry s->c", SERVER, "SearchResultEntry", None, CLIENT, None, in_search(True)),
        ("SearchResultReference s->c", SERVER, "SearchResultReference", None, CLIENT, None, in_search(True)),
        ("SearchResultDone s->c", SERVER, "SearchResultDone", None, CLIENT, None, in_search(True)),
        ("ExtendedResponse s->c", SERVER, "ExtendedResponse", notice_send(False), CLIENT, notice_recv(False), not_search_but_out),
        ("ExtendedResponse(notice) s->c", SERVER, "ExtendedResponse", notice_send(True), CLIENT, notice_recv(True), None),
    ]
    npairs = 0
    for label, sq, kind, sv, rq, rv, pre in pairs:
        ss = send_summaries(ex, sq, kind, sv)
        rs = recv_summaries(ex, rq, kind, rv, pre)
        if not ss or not rs:
            run.ob("M1-mirror-agreement", False, {"pair": label, "send_paths": len(ss), "recv_paths": len(rs)})
            npairs += 1
            run.fail(Finding("M1-mirror-agreement", f"{sq}|{rq}", f"{label}|no-paths send={len(ss)} recv={len(rs)}",
                             f"{label}: no successful path found on the {'sending' if not ss else 'receiving'} side (one side can never handle this message)", ""))
            continue
        npairs += 1
        for pre_state in sorted({s[0] for s in ss}):
            s_set = {(s[1], s[2], s[3]) for s in ss if s[0] == pre_state}
            r_set = {(r[1], r[2], r[3]) for r in rs if r[0] == pre_state}
            # search-set removal on the server happens with discard whether or not present: compare as sets of outcomes
            closed = all(x[0] == "CLOSED" for x in s_set | r_set)
            if closed:
                # both ends are CLOSED: what remains to be agreed on is which operations are still in progress - the side that
                # terminates and the side that is told both forget theirs
                ob_s = {"remove" if b in ("remove", "clear") else b for _a, b, _c in s_set}
                ob_r = {"remove" if b in ("remove", "clear") else b for _a, b, _c in r_set}
                ok = ob_s == ob_r
            else:
                norm_s = {(a, "remove" if b in ("remove", "clear") else b, "remove" if c in ("remove", "clear") else c) for a, b, c in s_set}
                norm_r = {(a, "remove" if b in ("remove", "clear") else b, "remove" if c in ("remove", "clear") else c) for a, b, c in r_set}
                ok = norm_s == norm_r
            run.ob("M1-mirror-agreement", ok, {"pair": label, "pre": pre_state, "sender": sorted(s_set), "receiver": sorted(r_set)})
            if not ok:
                run.fail(Finding("M1-mirror-agreement", f"{sq}|{rq}", f"{label}|pre={pre_state}|send={sorted(s_set)}|recv={sorted(r_set)}",
                                 f"{label} from {pre_state}: sender ends (state, outstanding, search) = {sorted(s_set)} but receiver ends {sorted(r_set)}", ""))
    run.floor("mirror pairs", npairs, 12)
    parameters_reach_their_fields(model, run)


def parameters_reach_their_fields(model: Model, run: Run, rule: str = "M2-call-parameters-reach-their-own-fields") -> None:
    """M2: where a sending method builds its message, a method parameter that is named like a field of the message class is
    stored in *that* field.  `SearchRequest(size_limit=time_limit, time_limit=size_limit)` type-checks and round-trips through
    the codec, but the peer application receives something else than the caller asked to send."""
    import ast
    from ..srcmodel import norm, walk_no_nested
    n = 0
    for fq, fi in sorted(model.functions.items()):
        if fi.module != SESSION_MOD or isinstance(fi.node, ast.Lambda) or not fi.cls:
            continue
        params = set(fi.params()[1:])
        if not params:
            continue
        stores = {x.id for x in walk_no_nested(fi.node) if isinstance(x, ast.Name) and isinstance(x.ctx, ast.Store)}
        for c in walk_no_nested(fi.node):
            if not (isinstance(c, ast.Call) and isinstance(c.func, (ast.Name, ast.Attribute))):
                continue
            q = model.resolve_name(fi.module, norm(c.func))
            k = model.classes.get(q) if q else None
            if k is None or not k.is_dataclass:
                continue
            fields = [f.name for f in model.dataclass_fields(q) if f.init]
            bound = list(zip(fields, c.args)) + [(kw.arg, kw.value) for kw in c.keywords if kw.arg]
            for fname, v in bound:
                if isinstance(v, ast.Name) and v.id in params and v.id not in stores and v.id in fields:
                    n += 1
                    ok = v.id == fname
                    run.ob(rule, ok, {"method": fq.split("sansldap.")[-1], "field": fname, "argument": v.id})
                    if not ok:
                        run.fail(Finding(rule, fq, f"{q.split('.')[-1]}.{fname}={v.id}", f"{fi.name} stores its parameter `{v.id}` in {q.split('.')[-1]}.{fname} although the class has a field "
                                         f"`{v.id}` of its own: the peer receives the two values exchanged", model.loc(fi.module, c)))
    run.floor("parameters stored in same-named message fields", n, 8)
