"""C15 (3b): L(attribute pattern under .match) is included in RFC 4512's attributedescription / oid."""
from __future__ import annotations

import ast
from typing import List, Optional

from ..report import Finding, Run, load_known
from ..rx import rfc
from ..rx.lang import Lang, difference_witness
from ..rx.nfa import build
from ..rx.sites import find_sites
from ..srcmodel import AnalysisError, Model, norm, walk_no_nested

FILTER = "sansldap._filter"


def site_role(model: Model, site) -> str:
    """'rule' when the matched string ends up as a matching rule, else 'attribute'."""
    fi = model.functions.get(site.func)
    if fi is None:
        return "attribute"
    # the enclosing `if <match>:` whose body assigns a name: which component of the returned tuple is it?
    for n in walk_no_nested(fi.node):
        if isinstance(n, ast.If) and any(x is site.node for x in ast.walk(n.test)):
            for s in n.body:
                if isinstance(s, ast.Assign) and isinstance(s.targets[0], ast.Name):
                    v = s.targets[0].id
                    for r in walk_no_nested(fi.node):
                        if isinstance(r, ast.Return) and isinstance(r.value, ast.Tuple):
                            for i, e in enumerate(r.value.elts):
                                if isinstance(e, ast.Name) and e.id == v:
                                    # find the consumer of component i
                                    for cq, cfi in model.functions.items():
                                        if cfi.module != fi.module or isinstance(cfi.node, ast.Lambda):
                                            continue
                                        for a in walk_no_nested(cfi.node):
                                            if isinstance(a, ast.Assign) and isinstance(a.targets[0], ast.Tuple) and isinstance(a.value, ast.Call) and norm(a.value.func) == fi.name and i < len(a.targets[0].elts):
                                                tv = a.targets[0].elts[i]
                                                if isinstance(tv, ast.Name):
                                                    for c in walk_no_nested(cfi.node):
                                                        if isinstance(c, ast.Call):
                                                            q = model.resolve_name(cfi.module, norm(c.func)) if isinstance(c.func, (ast.Name, ast.Attribute)) else None
                                                            if q in model.classes and model.classes[q].is_dataclass:
                                                                fields = [f.name for f in model.dataclass_fields(q) if f.init]
                                                                for fn, arg in list(zip(fields, c.args)) + [(k.arg, k.value) for k in c.keywords]:
                                                                    if isinstance(arg, ast.Name) and arg.id == tv.id:
                                                                        return "rule" if fn == "rule" else "attribute"
    return "attribute"


def show(codes: List[int]) -> str:
    return "".join(chr(c) if 0x20 <= c < 0x7F else f"\\x{c:02x}" if c < 256 else f"\\u{c:04x}" for c in codes)


def through_predicates(model: Model, sites):
    """a match that sits in a one-expression predicate helper on the helper's own parameter is used wherever the helper is
    called: those calls are the use sites (the helper's other disjuncts are F3's business, not the language's)"""
    import dataclasses
    out = []
    for s in sites:
        fi = model.functions.get(s.func)
        body = [x for x in fi.node.body if not (isinstance(x, ast.Expr) and isinstance(x.value, ast.Constant))] if fi is not None and not isinstance(fi.node, ast.Lambda) else []
        is_pred = fi is not None and fi.cls is None and len(body) == 1 and isinstance(body[0], ast.Return) and isinstance(s.subject, ast.Name) and s.subject.id in fi.params()
        if not is_pred:
            out.append(s)
            continue
        calls = []
        for cq, cfi in model.functions.items():
            if cfi.module != fi.module or isinstance(cfi.node, ast.Lambda) or cfi is fi:
                continue
            for c in walk_no_nested(cfi.node):
                if isinstance(c, ast.Call) and isinstance(c.func, ast.Name) and model.resolve_name(cfi.module, c.func.id) == fi.qualname:
                    calls.append(dataclasses.replace(s, func=cq, node=c))
        out.extend(calls or [s])
    return out


def check_language(model: Model, run: Run) -> None:
    from .c15 import attribute_pattern_name
    pname = attribute_pattern_name(model)
    sites = through_predicates(model, [s for s in find_sites(model, (FILTER,)) if s.module == FILTER and s.name == pname])
    run.floor("attribute pattern use sites", len(sites), 3)
    known = [k for k in load_known("C15") if k["rule"] == "F4-attribute-language"]
    roles = {}
    for s in sites:
        roles.setdefault(site_role(model, s), []).append(s)
    run.coverage["attribute_pattern_roles"] = {r: [f"{s.func.split('.')[-1]}:{s.line}" for s in ss] for r, ss in roles.items()}
    if "rule" not in roles:
        run.note("no use site of the attribute pattern was classified as validating a matching rule")
    for role, ss in roles.items():
        s0 = ss[0]
        code = Lang(build(s0.pattern, s0.flags, "match" if s0.api == "match" else "fullmatch"))
        ref_pat = rfc.ATTRIBUTEDESCRIPTION if role == "attribute" else rfc.OID
        ref = Lang(build(ref_pat, 0, "fullmatch"))
        construct = f"{FILTER}._ATTRIBUTE_PATTERN@{role}-site"
        # 1. any difference at all?
        w_all = difference_witness(code, ref)
        run.ob("F4-attribute-language", w_all is None, {"role": role, "sites": [f"{s.func.split('.')[-1]}:{s.line}" for s in ss],
                                                        "reference": "RFC 4512 attributedescription" if role == "attribute" else "RFC 4512 oid (RFC 4515 matchingrule)",
                                                        "witness_accepted_but_invalid": show(w_all) if w_all is not None else None})
        if w_all is None:
            # informational: the other direction (valid descriptions the pattern rejects)
            w_rev = difference_witness(ref, code)
            if w_rev is not None:
                run.note(f"{role}: RFC-valid {show(w_rev)!r} is rejected by the pattern (C14 territory, informational)")
            continue
        # 2. differences outside the known languages
        mine = [k for k in known if k["construct"] == construct and k["key"].startswith("lang:")]
        remaining = w_all
        if mine:
            union = "|".join(f"(?:{k['key'][5:]})" for k in mine)
            excl = Lang(build(union, 0, "fullmatch"))
            remaining = difference_witness(code, ref, exclude=excl)
            for k in mine:
                # is there a difference inside this known language? then it is a live known finding
                inside = difference_witness(Lang(build(k["key"][5:], 0, "fullmatch")), ref)
                still = inside is not None and difference_witness(Lang(build(k["key"][5:], 0, "fullmatch")), code) is None
                if still:
                    run.fail(Finding("F4-attribute-language", construct, k["key"],
                                     f"{role} site accepts strings outside RFC 4512 (e.g. {show(inside)!r}); tolerated language {k['key'][5:]}", model.loc(FILTER, s0.node)))
        if remaining is not None:
            wtxt = show(remaining)
            run.fail(Finding("F4-attribute-language", construct, f"witness:{wtxt}",
                             f"the attribute pattern, as used to validate a{'n attribute description' if role == 'attribute' else ' matching rule'} "
                             f"({', '.join(f'{s.func.split(chr(46))[-1]}:{s.line}' for s in ss)}), accepts {wtxt!r}, which is not a valid RFC 4512 "
                             f"{'attributedescription' if role == 'attribute' else 'oid'}", model.loc(FILTER, s0.node),
                             [f"pattern (folded): {s0.pattern!r}"[:300], f"shortest accepted-but-invalid string: {wtxt!r}"]))


def valid_names_are_accepted(model: Model, run: Run, rule: str) -> None:
    """The other direction of F4, as C13 needs it: every RFC 4512 attribute description (and every oid, where the pattern validates
    a matching rule) is matched by the pattern the parser validates names with.  `str()` writes the names of a filter as they
    are; a valid name the parser refuses is a filter whose text form does not parse back."""
    from .c15 import attribute_pattern_name
    pname = attribute_pattern_name(model)
    sites = through_predicates(model, [s for s in find_sites(model, (FILTER,)) if s.module == FILTER and s.name == pname])
    roles = {}
    for s in sites:
        roles.setdefault(site_role(model, s), []).append(s)
    n = 0
    for role, ss in roles.items():
        s0 = ss[0]
        code = Lang(build(s0.pattern, s0.flags, "match" if s0.api == "match" else "fullmatch"))
        ref = Lang(build(rfc.ATTRIBUTEDESCRIPTION if role == "attribute" else rfc.OID, 0, "fullmatch"))
        w = difference_witness(ref, code)
        n += 1
        run.ob(rule, w is None, {"role": role, "valid_but_refused": show(w) if w is not None else None})
        if w is not None:
            run.fail(Finding(rule, f"{FILTER}.{pname}@{role}-site", f"witness:{show(w)}",
                             f"the pattern the parser validates a{'n attribute description' if role == 'attribute' else ' matching rule'} with does not match {show(w)!r}, "
                             f"a valid RFC 4512 {'attributedescription' if role == 'attribute' else 'oid'}: a filter naming it is written by str() and refused by from_string",
                             model.loc(FILTER, s0.node), [f"pattern (folded): {s0.pattern!r}"[:300]]))
    if n == 0:
        raise AnalysisError("no use site of the attribute pattern found")
