"""C03 - encoded messages are RFC 4511 BER (TLV structure of everything the writers can emit vs an RFC table)."""
from __future__ import annotations

import ast

from ..report import Finding, Run
from ..srcmodel import AnalysisError, Model, norm
from ..tlv import flatten
from ..tlvcheck import (RFC_CONTROL, RFC_CREDS, RFC_FILTERS, RFC_MESSAGES, RFC_PAGED_VALUE, RfcComparer, extracted, short)


def check(model: Model, run: Run) -> None:
    ex = extracted(model)
    run.explanation = ("the TLV grammar each writer (pack/_pack_inner/get_value) can emit is extracted by abstract interpretation of the writer idiom "
                       "(tags constant-folded, asn1.py's own defaults read from asn1.py) and compared component by component with an independent transcription "
                       "of RFC 4511 section 4 / RFC 2696: tag class, number, primitive/constructed form, universal kind, order, OPTIONAL/DEFAULT handling and "
                       "the dataclass field each component is written from. Primitive constants (TRUE=FF, definite lengths) are checked under C07. "
                       "NOT decided: minimal integer/length octets (arithmetic), SIZE constraints")
    cmp_ = RfcComparer(run)
    n = 0
    for c in ex.msg_classes:
        name = short(c)
        if name not in RFC_MESSAGES:
            raise AnalysisError(f"no RFC table entry for message class {name}")
        cmp_.compare(c, ex.wgram[c], RFC_MESSAGES[name])
        n += 1
    for c in ex.filter_classes:
        name = short(c)
        if name not in RFC_FILTERS:
            raise AnalysisError(f"no RFC table entry for filter class {name}")
        spec = RFC_FILTERS[name]
        if name == "FilterNot":
            # explicit context tag around a CHOICE: constructed, either sequence or set writer is byte-identical
            spec = [("cons", ex.wgram[c][0].ukind if ex.wgram[c] else "sequence", spec[0][2], spec[0][3])]
        cmp_.compare(c, ex.wgram[c], spec)
        n += 1
    for c in ex.cred_classes:
        name = short(c)
        if name not in RFC_CREDS:
            raise AnalysisError(f"no RFC table entry for credential class {name}")
        cmp_.compare(c, ex.wgram[c], RFC_CREDS[name])
        n += 1
    for c in ex.ctl_classes:
        cmp_.compare(c, ex.wgram[c], RFC_CONTROL)
        n += 1
        if short(c) == "PagedResultControl":
            enc = [x for w in ex.wgram[c] for x in walk(w) if x.kind == "encaps"]
            if len(enc) != 1:
                run.ob("B10-paged-value-encapsulated", False)
                cmp_.fail("B10-paged-value-encapsulated", c, "no encapsulated value", "PagedResultControl value is not an encapsulated BER SEQUENCE", ex.wgram[c][0])
            else:
                cmp_.compare(c, enc[0].children, RFC_PAGED_VALUE, " (controlValue)")
    run.floor("writer grammars compared with the RFC table", n, 25)
    leaves = sum(len(flatten(ex.wgram[c])) for c in ex.wgram)
    run.coverage["writer_components"] = leaves
    run.floor("writer components", leaves, 120)
    for c in list(ex.wgram)[:6]:
        run.samples.append({"class": short(c), "writer_grammar": "; ".join(w.brief() for w in ex.wgram[c])[:400]})
    seen = set()
    for rule, cls, key, line, msg, func in cmp_.findings:
        ident = (rule, cls if not cls.endswith("Control") or rule.startswith("B10") else "sansldap._controls.LDAPControl", key)
        if ident in seen:
            continue
        seen.add(ident)
        fi = model.functions.get(func)
        run.fail(Finding(rule, ident[1], key, msg, f"{model.relpath(fi.module)}:{line}" if fi else ""))
    from ..tlvcheck import nonconstant_tags
    nonconstant_tags(ex, run, "B11-writer-tags-are-constants")


def walk(w):
    yield w
    for c in w.children:
        yield from walk(c)
