"""C03 - encoded messages are RFC 4511 BER (TLV structure of everything the writers can emit vs an RFC table)."""
from __future__ import annotations

import ast

from ..report import Finding, Run
from ..srcmodel import AnalysisError, Model, norm
from ..tlv import flatten
from ..tlvcheck import (RFC_CONTROL, RFC_CREDS, RFC_FILTERS, RFC_MESSAGES, RFC_PAGED_VALUE, RfcComparer, extracted, short)


def check(model: Model, run: Run) -> None:
    from .c01 import purity, written_as_held
    purity(model, run, None)             # the bytes are a function of the message alone (no cache keyed on something coarser)
    written_as_held(model, run)
    from ..tlvcheck import string_encoding_defaults
    string_encoding_defaults(model, run, "B13-ldapstring-is-utf8-by-default")
    from ..commonrules import memoised_results_are_immutable, no_memoised_views_of_fields
    memoised_results_are_immutable(model, run, "B14-no-memoised-mutable-results", ("sansldap._messages", "sansldap._controls", "sansldap._filter", "sansldap._authentication", "sansldap.asn1"),
                                   "octets one message appended are part of the next message's encoding")
    no_memoised_views_of_fields(model, run, "B15-nothing-derived-from-the-fields-is-memoised",
                                [q for q, c in model.classes.items() if c.is_dataclass and c.module in ("sansldap._messages", "sansldap._controls", "sansldap._filter", "sansldap._authentication")],
                                "the bytes are those of the object as it was when first encoded")
    ex = extracted(model)
    run.explanation = ("the TLV grammar each writer (pack/_pack_inner/get_value) can emit is extracted by abstract interpretation of the writer idiom "
                       "(tags constant-folded, asn1.py's own defaults read from asn1.py) and compared component by component with an independent transcription "
                       "of RFC 4511 section 4 / RFC 2696: tag class, number, primitive/constructed form, universal kind, order, OPTIONAL/DEFAULT handling and "
                       "the dataclass field each component is written from. Primitive constants (TRUE=FF, definite lengths) are checked under C07. "
                       "NOT decided: minimal integer/length octets (arithmetic), SIZE constraints")
    cmp_ = RfcComparer(run)
    n = 0
    for c in ex.msg_classes:
        name = short(c)
        if name not in RFC_MESSAGES:
            raise AnalysisError(f"no RFC table entry for message class {name}")
        cmp_.compare(c, ex.wgram[c], RFC_MESSAGES[name])
        n += 1
    for c in ex.filter_classes:
        name = short(c)
        if name not in RFC_FILTERS:
            raise AnalysisError(f"no RFC table entry for filter class {name}")
        spec = RFC_FILTERS[name]
        if name == "FilterNot":
            # explicit context tag around a CHOICE: constructed, either sequence or set writer is byte-identical
            spec = [("cons", ex.wgram[c][0].ukind if ex.wgram[c] else "sequence", spec[0][2], spec[0][3])]
        cmp_.compare(c, ex.wgram[c], spec)
        n += 1
    for c in ex.cred_classes:
        name = short(c)
        if name not in RFC_CREDS:
            raise AnalysisError(f"no RFC table entry for credential class {name}")
        cmp_.compare(c, ex.wgram[c], RFC_CREDS[name])
        n += 1
    for c in ex.ctl_classes:
        cmp_.compare(c, ex.wgram[c], RFC_CONTROL)
        n += 1
        if short(c) == "PagedResultControl":
            enc = [x for w in ex.wgram[c] for x in walk(w) if x.kind == "encaps"]
            if len(enc) != 1:
                from ..tlvcheck import value_codec_is_delegated
                dl = value_codec_is_delegated(model, c)
                if dl:
                    raise AnalysisError(f"the value of {short(c)} is encoded / decoded by a separate codec object ({dl}): its grammar is not extracted")
                run.ob("B10-paged-value-encapsulated", False)
                cmp_.fail("B10-paged-value-encapsulated", c, "no encapsulated value", "PagedResultControl value is not an encapsulated BER SEQUENCE", ex.wgram[c][0])
            else:
                cmp_.compare(c, enc[0].children, RFC_PAGED_VALUE, " (controlValue)")
    run.floor("writer grammars compared with the RFC table", n, 25)
    leaves = sum(len(flatten(ex.wgram[c])) for c in ex.wgram)
    run.coverage["writer_components"] = leaves
    run.floor("writer components", leaves, 120)
    for c in list(ex.wgram)[:6]:
        run.samples.append({"class": short(c), "writer_grammar": "; ".join(w.brief() for w in ex.wgram[c])[:400]})
    seen = set()
    for rule, cls, key, line, msg, func in cmp_.findings:
        ident = (rule, cls if not cls.endswith("Control") or rule.startswith("B10") else "sansldap._controls.LDAPControl", key)
        if ident in seen:
            continue
        seen.add(ident)
        fi = model.functions.get(func)
        run.fail(Finding(rule, ident[1], key, msg, f"{model.relpath(fi.module)}:{line}" if fi else ""))
    from ..tlvcheck import nonconstant_tags
    nonconstant_tags(ex, run, "B11-writer-tags-are-constants")
    enumerated_values(model, ex, run)
    from .c07 import constructed_flush, hand_built_integer_content
    constructed_flush(model, run)
    from .c05 import may_raise
    hand_built_integer_content(model, run, may_raise(model))


# RFC 4511 section 4.1.9 (resultCode), 4.5.1 (scope, derefAliases): the named numbers of each ENUMERATED type, under the
# library's public member names.  A member the table does not know gets no verdict (it is counted), a known member with
# another number is what a peer would read as a different named value.
RFC_ENUMERATED = {
    "resultCode": {"SUCCESS": 0, "OPERATIONS_ERROR": 1, "PROTOCOL_ERROR": 2, "TIME_LIMIT_EXCEEDED": 3, "SIZE_LIMIT_EXCEEDED": 4, "COMPARE_FALSE": 5,
                   "COMPARE_TRUE": 6, "AUTH_METHOD_NOT_SUPPORTED": 7, "STRONG_AUTH_REQUIRED": 8, "STRONGER_AUTH_REQUIRED": 8, "REFERRAL": 10,
                   "ADMIN_LIMIT_EXCEEDED": 11, "UNAVAILABLE_CRITICAL_EXTENSION": 12, "CONFIDENTIALITY_REQUIRED": 13, "SASL_BIND_IN_PROGRESS": 14,
                   "NO_SUCH_ATTRIBUTE": 16, "UNDEFINED_ATTRIBUTE_TYPE": 17, "INAPPROPRIATE_MATCHING": 18, "CONSTRAINT_VIOLATION": 19,
                   "ATTRIBUTE_OR_VALUE_EXISTS": 20, "INVALID_ATTRIBUTE_SYNTAX": 21, "NO_SUCH_OBJECT": 32, "ALIAS_PROBLEM": 33, "INVALID_DN_SYNTAX": 34,
                   "ALIAS_DEREFERENCING_PROBLEM": 36, "INAPPROPRIATE_AUTHENTICATION": 48, "INVALID_CREDENTIALS": 49, "INSUFFICIENT_ACCESS_RIGHTS": 50,
                   "BUSY": 51, "UNAVAILABLE": 52, "UNWILLING_TO_PERFORM": 53, "LOOP_DETECT": 54, "NAMING_VIOLATION": 64, "OBJECT_CLASS_VIOLATION": 65,
                   "NOT_ALLOWED_ON_NON_LEAF": 66, "NOT_ALLOWED_ON_RDN": 67, "ENTRY_ALREADY_EXISTS": 68, "OBJECT_CLASS_MODS_PROHIBITED": 69,
                   "AFFECTS_MULTIPLE_DSAS": 71, "OTHER": 80},
    "scope": {"BASE": 0, "BASE_OBJECT": 0, "ONE_LEVEL": 1, "SINGLE_LEVEL": 1, "SUBTREE": 2, "WHOLE_SUBTREE": 2},
    "derefAliases": {"NEVER": 0, "NEVER_DEREF_ALIASES": 0, "IN_SEARCHING": 1, "DEREF_IN_SEARCHING": 1, "FINDING_BASE_OBJ": 2,
                     "DEREF_FINDING_BASE_OBJ": 2, "ALWAYS": 3, "DEREF_ALWAYS": 3},
}


def enumerated_values(model: Model, ex, run: Run) -> None:
    """B12: the IntEnum classes that message fields are declared with carry the RFC's numbers"""
    from ..fold import Folder
    enums = set()
    seen = set()
    todo = list(ex.msg_classes)
    while todo:
        c = todo.pop()
        if c in seen or c not in model.classes:
            continue
        seen.add(c)
        for f in model.dataclass_fields(c):
            for n in ast.walk(f.annotation) if f.annotation is not None else []:
                if isinstance(n, (ast.Name, ast.Attribute)):
                    q = model.resolve_name(model.classes[c].module, norm(n))
                    if q in model.classes:
                        k = model.classes[q]
                        if k.is_enum:
                            enums.add(q)
                        elif k.is_dataclass:
                            todo.append(q)
    matched = 0
    tables = 0
    for q in sorted(enums):
        k = model.classes[q]
        vals = {}
        fo_ = Folder(model)
        for name, e in k.consts.items():
            try:
                if isinstance(e, ast.Call) and norm(e.func).endswith("auto"):
                    v = fo_.enum_member(q, name).value        # enum.auto(): numbered from the member before it
                else:
                    v = fo_.fold(e, k.module)
            except Exception:
                continue
            if isinstance(v, int) and not isinstance(v, bool):
                vals[name] = v
        best = max(RFC_ENUMERATED, key=lambda t_: len(set(RFC_ENUMERATED[t_]) & set(vals)))
        table = RFC_ENUMERATED[best]
        common = sorted(set(table) & set(vals))
        if len(common) < 2:
            continue
        tables += 1
        for name in common:
            matched += 1
            ok = vals[name] == table[name]
            run.ob("B12-enumerated-numbers", ok)
            if not ok:
                run.fail(Finding("B12-enumerated-numbers", q, f"{name}={vals[name]}",
                                 f"{short(q)}.{name} is {vals[name]}; RFC 4511 {best} gives that named value the number {table[name]}",
                                 f"{model.relpath(k.module)}:{k.consts[name].lineno}"))
    run.floor("ENUMERATED types compared with the RFC's named numbers", tables, 3)
    run.floor("ENUMERATED members compared", matched, 40)
    run.coverage["enumerated_members"] = matched


def walk(w):
    yield w
    for c in w.children:
        yield from walk(c)
