"""C02 - message reassembly is independent of how the byte stream is chunked (lemmas L1-L5)."""
from __future__ import annotations

import ast

from ..anchors import is_incomplete
from ..readerrules import READER, lemma_no_consume_on_failure, lemma_no_silent_clamp, lemma_reader_truth, stream_reader_uses
from ..report import Finding, Run
from ..sessrules import SESSION_CLASSES, common_coverage, exc_short, extraction, path_key, where
from ..session import SESSION_MOD, AttrRef, Sym, Unknown, desc
from ..srcmodel import AnalysisError, Model, norm, walk_no_nested
from .c05 import may_raise
from .c06 import enclosing_tests

BASE = f"{SESSION_MOD}.LDAPSession"
IBUF = "_incoming_buffer"


def residue_discipline(model: Model, run: Run, ex, fi) -> None:
    """L3: on every path of receive the reader is built over residue++data (or over data when nothing is pending) and the
    residue becomes a copy of what the reader did not consume; nothing else writes, resizes or looks at the pending bytes"""
    # ---- L3 residue discipline (Engine D paths of the base receive) ---------------
    n_paths = 0
    for p in ex.paths[BASE]:
        if p.entry != "receive" or p.pre_state == "CLOSED":
            continue
        readers = [e for e in p.effects if e.kind == "reader"]
        ext = [e for e in p.effects if e.kind == "extend" and e.a == IBUF]
        assigns = [e for e in p.effects if e.kind == "attr_assign" and e.a == IBUF]
        others = [e for e in p.effects if e.kind == "attr_call" and e.a == IBUF]
        n_paths += 1
        label = {"pre": p.pre_state, "readers": [desc(r.b) for r in readers], "extended": bool(ext), "residue_set": [desc(a.b) for a in assigns], "outcome": p.outcome.kind}
        # buffer emptiness guard value on this path
        g = [e for e in p.effects if e.kind == "guard" and IBUF in str(e.a)]
        buffered = g[0].b if g else None
        if others:
            run.ob("L3-residue-discipline", False, label)
            run.fail(Finding("L3-residue-discipline", others[0].func, others[0].text, f"incoming buffer mutated with .{others[0].b}()", where(ex, others[0]), p.trace()))
            continue
        if not readers:
            # no decode phase on this path: only legal when nothing was pending (handled by Q4 in C06) or an error path
            continue
        ok, why = True, ""
        r0 = readers[-1]          # the decoding reader (helper readers used only to peek come earlier)
        src = r0.b
        if buffered is True:
            # residue pending: data must be appended first and the reader must cover the buffer
            pos_ext = p.effects.index(ext[0]) if ext else -1
            src_is_buf = isinstance(src, AttrRef) and src.attr == IBUF
            if not ext or not (isinstance(ext[0].b, Sym) and ext[0].b.name == "data") or pos_ext > p.effects.index(r0):
                ok, why = False, "residue is pending but the new data is not appended to it before decoding"
            elif not src_is_buf:
                ok, why = False, f"residue is pending but the reader is built over {desc(src)}, not over the residue buffer"
            elif p.outcome.kind == "return":
                # the residue must be replaced by a copy of what the reader did not consume
                after = [a for a in assigns if p.effects.index(a) > p.effects.index(r0)]
                good = [a for a in after if desc(a.b) in (f"?bytearray(?remaining(?{r0.a}))", f"?bytes(?remaining(?{r0.a}))")]
                if not good:
                    ok, why = False, "the buffered bytes are not replaced by the reader's remainder on this path: already delivered messages stay in the buffer"
        elif buffered is False:
            if not (isinstance(src, Sym) and src.name == "data"):
                ok, why = False, f"no residue pending but the reader is built over {desc(src)}, not over the new data"
            elif p.outcome.kind == "return":
                ne = [e for e in p.effects if e.kind == "mayraise" and is_incomplete(model, str(e.b))]
                good = [a for a in assigns if desc(a.b) in (f"?bytearray(?remaining(?{r0.a}))", f"?bytes(?remaining(?{r0.a}))")]
                if ne and not good:
                    ok, why = False, "an incomplete trailing message is not kept as residue (copy of the reader's remainder)"
                if assigns and not good:
                    ok, why = False, f"residue set to {desc(assigns[0].b)}, not to a copy of the reader's remainder"
        else:
            ok, why = False, "decode phase reached without testing whether residue is pending"
        run.ob("L3-residue-discipline", ok, label)
        if not ok:
            run.fail(Finding("L3-residue-discipline", fi.qualname, f"buffered={buffered}|{why[:80]}", why, where(ex, r0), p.trace()))
    run.floor("receive paths examined for residue discipline", n_paths, 40)
    # who may write the incoming buffer
    writers = []
    for fq, f2 in model.functions.items():
        if isinstance(f2.node, ast.Lambda):
            continue
        for n in ast.walk(f2.node):
            if isinstance(n, ast.Attribute) and n.attr == IBUF and isinstance(n.ctx, (ast.Store, ast.Del)):
                writers.append((fq, f2, n))
    from ..regions import decode_region as _dr
    _region_q = {r.fi.qualname for r in _dr(model)}
    for fq, f2, n in writers:
        ok = f2.cls in SESSION_CLASSES and (f2.name in ("__init__", "receive") or fq in _region_q)
        run.ob("L3-residue-writers", ok, {"function": fq})
        if not ok:
            run.fail(Finding("L3-residue-writers", fq, norm(n), "the incoming buffer is written outside __init__/receive and its decode helpers", model.loc(f2.module, n)))
    run.floor("incoming buffer writers", len(writers), 2)
    # who may look at the residue: only receive (and the decode helpers it hands the reader to).  Anything else that branches on
    # the residue makes the outcome depend on where the stream happened to be cut.
    from ..regions import decode_region
    region_q = {r.fi.qualname for r in decode_region(model)}
    n_readers = 0
    for fq, f2 in model.functions.items():
        if isinstance(f2.node, ast.Lambda):
            continue
        for n in ast.walk(f2.node):
            if isinstance(n, ast.Attribute) and n.attr == IBUF and isinstance(n.ctx, ast.Load):
                n_readers += 1
                ok = fq in region_q or (f2.cls in SESSION_CLASSES and f2.name == "__init__")
                run.ob("L3-residue-readers", ok, {"function": fq})
                if not ok:
                    run.fail(Finding("L3-residue-readers", fq, norm(n), f"{fq.split('sansldap.')[-1]} reads the pending-bytes buffer: its behaviour then depends on how the stream was chunked, "
                                     "not on what the peer sent", model.loc(f2.module, n)))
    run.floor("incoming buffer reads", n_readers, 2)


def chunk_size_is_not_judged(model: Model, run: Run, fi, rule: str = "L13-no-chunk-is-refused-for-its-size") -> None:
    """L13: how the stream is cut into chunks - including empty chunks - is the transport's business: in receive (and the methods of
    the session it hands the chunk to) no `raise` is guarded by the emptiness or the length of the chunk parameter itself.  (What
    the *accumulated* bytes contain is judged by the decoder; a limit on the chunk is a dependence on the cutting.)"""
    from ..anchors import reachable
    fns = [f for f in reachable(model, fi, fi.module) if not isinstance(f.node, ast.Lambda) and f.cls is not None]
    n = 0
    for f in [fi] + [g for g in fns if g is not fi]:
        ps = [p_ for p_ in f.params() if p_ not in ("self", "cls")]
        if not ps:
            continue
        # the chunk: the first parameter of receive; in a callee, a parameter that receive's chunk is passed for
        chunk = ps[0] if f is fi else None
        if f is not fi:
            for c in ast.walk(fi.node):
                if isinstance(c, ast.Call) and isinstance(c.func, ast.Attribute) and isinstance(c.func.value, ast.Name) and c.func.value.id == "self" and c.func.attr == f.name:
                    for i, a in enumerate(c.args):
                        if isinstance(a, ast.Name) and a.id == fi.params()[1 if fi.params()[0] == "self" else 0] and i < len(ps):
                            chunk = ps[i]
        if chunk is None:
            continue
        if any(isinstance(x, ast.Name) and x.id == chunk and isinstance(x.ctx, ast.Store) for x in walk_no_nested(f.node)):
            continue        # re-bound (e.g. to the joined buffer): tests on it are tests on the accumulated bytes
        for st in walk_no_nested(f.node):
            if not (isinstance(st, ast.If) and any(isinstance(b, ast.Raise) for b in st.body)):
                continue
            n += 1
            t = st.test
            sized = None
            for x in ast.walk(t):
                if isinstance(x, ast.UnaryOp) and isinstance(x.op, ast.Not) and isinstance(x.operand, ast.Name) and x.operand.id == chunk:
                    sized = x
                elif isinstance(x, ast.Call) and isinstance(x.func, ast.Name) and x.func.id == "len" and x.args and isinstance(x.args[0], ast.Name) and x.args[0].id == chunk:
                    sized = x
                elif isinstance(x, ast.Compare) and isinstance(x.left, ast.Name) and x.left.id == chunk and isinstance(x.comparators[0], ast.Constant) and x.comparators[0].value in (b"", ""):
                    sized = x
            if isinstance(t, ast.Name) and t.id == chunk:
                sized = t
            run.ob(rule, sized is None, {"function": f.name, "test": norm(t)[:60]})
            if sized is not None:
                run.fail(Finding(rule, f.qualname, norm(t)[:80], f"{f.name} raises when `{norm(t)[:60]}`: the chunk `{chunk}` is judged by its size, so the same stream is accepted "
                                 "under one way of cutting it into chunks and refused under another (an empty chunk in the middle of a message)", model.loc(f.module, st)))
    run.ob(rule, True, {"guarded_raises_examined": n})


def check(model: Model, run: Run) -> None:
    ex = extraction(model)
    mr = may_raise(model)
    run.explanation = ("the property follows by induction over chunks from lemmas that are statements about code shape, each decided here: "
                       "L1 a reader advances only after its validating helper returned, L2 by exactly header+content with no silent clamping, "
                       "L3 residue discipline of receive on every path (reader built over residue++data or data; residue := copy of the remainder), "
                       "L4 messages appended in decode order and processed by a loop that does not touch the list, L5 values handed out are copies. "
                       "The induction itself and equality of the resulting state when a batch contains an error are on paper, not decided")
    common_coverage(ex, run)
    from ..commonrules import memoised_results_are_immutable
    memoised_results_are_immutable(model, run, "L12-nothing-on-the-decode-path-is-keyed-on-a-buffer", ("sansldap.asn1", "sansldap._messages", "sansldap._controls", "sansldap._filter",
                                                                                                         "sansldap._authentication", "sansldap._session"),
                                   "a message decoded from the session's own buffer differs from the same message decoded from the caller's bytes")
    from ..readerrules import receive_anchor
    fi = receive_anchor(model)
    lemma_no_consume_on_failure(model, run, "C02")
    chunk_size_is_not_judged(model, run, fi)
    from ..readerrules import lemma_consuming_methods_advance
    lemma_consuming_methods_advance(model, run)
    lemma_no_silent_clamp(model, run, mr)
    lemma_reader_truth(model, run)
    incomplete_is_only_waited_for(model, run, mr)
    residue_discipline(model, run, ex, fi)
    # ---- early returns (shared with C06 Q4)
    body = fi.node.body
    final = body[-1] if body and isinstance(body[-1], ast.Return) else None
    for r in [n for n in walk_no_nested(fi.node) if isinstance(n, ast.Return)]:
        if r is final:
            continue
        conds = enclosing_tests(fi.node, r)
        names = set()
        for c in conds:
            names |= {x.id for x in ast.walk(c) if isinstance(x, ast.Name)} | {"self." + x.attr for x in ast.walk(c) if isinstance(x, ast.Attribute)}
        data_param = fi.params()[1] if len(fi.params()) > 1 else "data"
        ok = bool(conds) and names <= {data_param, "len"}
        run.ob("L3-no-early-return", ok)
        if not ok:
            run.fail(Finding("L3-no-early-return", fi.qualname, f"{norm(r)} under {[norm(c)[:60] for c in conds]}",
                             "receive returns before decoding under a condition other than 'no new data': complete messages can be held back, so the result depends on the chunking", model.loc(fi.module, r)))
    run.ob("L3-no-early-return", final is not None)
    # ---- L4 order and batch independence ------------------------------------------
    ret_name = final.value.id if final is not None and isinstance(final.value, ast.Name) else None
    ok = ret_name is not None
    run.ob("L4-returns-the-decode-list", ok)
    if not ok:
        run.fail(Finding("L4-returns-the-decode-list", fi.qualname, norm(final) if final else "no final return", "receive does not end by returning the list the decode loop fills", model.loc(fi.module, final or fi.node)))
    from ..regions import decode_region, region_call_returning_list
    region = decode_region(model)
    run.coverage["decode_region"] = [r.fi.qualname for r in region]
    n_apps = 0
    for rf in region:
        f2 = rf.fi
        names = set(rf.lists) | ({ret_name} if (ret_name and f2 is fi) else set())
        if not names:
            continue
        for n in walk_no_nested(f2.node):
            if isinstance(n, ast.Call) and isinstance(n.func, ast.Attribute) and isinstance(n.func.value, ast.Name) and n.func.value.id in names:
                ok = n.func.attr == "append" and len(n.args) == 1
                n_apps += ok
                run.ob("L4-append-only", ok, {"call": norm(n), "function": f2.name})
                if not ok:
                    run.fail(Finding("L4-append-only", f2.qualname, norm(n), "the list of decoded messages is modified other than by appending in decode order", model.loc(f2.module, n)))
            if isinstance(n, ast.For) and isinstance(n.iter, ast.Name) and n.iter.id in names:
                uses = [x for s_ in n.body for x in ast.walk(s_) if isinstance(x, ast.Name) and x.id in names]
                ok = not uses
                run.ob("L4-processing-loop-independent", ok)
                if not ok:
                    run.fail(Finding("L4-processing-loop-independent", f2.qualname, f"for over {n.iter.id} uses it in its body", "the processing loop reads or changes the list it iterates", model.loc(f2.module, n)))
            if isinstance(n, (ast.Assign, ast.AugAssign, ast.AnnAssign)) and any(isinstance(t, ast.Name) and t.id in names for t in (n.targets if isinstance(n, ast.Assign) else [n.target])):
                v = n.value
                ok = v is None or (not isinstance(n, ast.AugAssign) and ((isinstance(v, ast.List) and not v.elts) or
                                   (isinstance(v, ast.Call) and region_call_returning_list(model, region, f2, v))))
                run.ob("L4-append-only", ok)
                if not ok:
                    run.fail(Finding("L4-append-only", f2.qualname, norm(n), "the list of decoded messages is rebound", model.loc(f2.module, n)))
    # appended value is the result of unpack_ldap_message in the same iteration
    run.floor("decode-order appends", n_apps, 1)
    # ---- L5 copy-out ------------------------------------------------------------
    rc = model.cls(READER)
    n5 = 0
    for name, m in rc.methods.items():
        ra = norm(m.node.returns) if m.node.returns is not None else ""
        if ra in ("bytes",):
            n5 += 1
            for r in [x for x in walk_no_nested(m.node) if isinstance(x, ast.Return) and x.value is not None]:
                v = r.value
                if isinstance(v, ast.Name):
                    binds = [a for a in walk_no_nested(m.node) if isinstance(a, ast.Assign) and any(isinstance(t, ast.Name) and t.id == v.id for t in a.targets)]
                    v = binds[-1].value if len(binds) == 1 else v
                ok = (isinstance(v, ast.Call) and isinstance(v.func, ast.Attribute) and v.func.attr == "tobytes") or \
                     (isinstance(v, ast.Call) and isinstance(v.func, ast.Name) and v.func.id in ("bytes", "bytearray"))
                run.ob("L5-copy-out", ok, {"method": name, "returns": norm(r.value)})
                if not ok:
                    run.fail(Finding("L5-copy-out", m.qualname, norm(r), f"{name} promises bytes but returns `{norm(r.value)}`, which is not a copy of the view: the value would alias the caller's buffer", model.loc(m.module, r)))
    run.floor("bytes-returning reader methods", n5, 2)
    # no dataclass field can hold a view or a reader
    for cq, c in model.classes.items():
        if c.is_dataclass:
            for f in model.dataclass_fields(cq):
                a = norm(f.annotation) if f.annotation is not None else ""
                ok = "memoryview" not in a and "ASN1Reader" not in a and "bytearray" not in a
                run.ob("L5-fields-hold-values", ok)
                if not ok:
                    run.fail(Finding("L5-fields-hold-values", cq, f"{f.name}: {a}", "a message field is typed as a view/reader/bytearray (shared mutable storage)", model.loc(c.module, c.node)))


def incomplete_is_only_waited_for(model: Model, run: Run, mr) -> None:
    """L10: "the outermost unit is not complete yet" (NotEnougData raised by a read on the stream-level reader) has exactly one
    consequence - wait.  A handler that catches it and raises something else for some contents (a size limit looked up in the
    partial header, a sanity check) makes the outcome depend on where the stream happened to be cut: the same message delivered
    whole is returned."""
    from ..regions import decode_region
    from .c06 import wait_handlers
    region = list(decode_region(model))
    # the message decoder itself: its reader parameter is the stream-level reader
    entry = model.functions.get("sansldap._messages.unpack_ldap_message")
    if entry is not None and not any(r_.fi is entry for r_ in region):
        from ..regions import RegionFn
        ps0 = entry.params()
        rd = [p_ for p_ in ps0 if mr.r.env(entry).get(p_) == ("inst", "sansldap.asn1.ASN1Reader")]
        region.append(RegionFn(entry, set(rd), set(), False))
    n = 0
    for rf in region:
        f2 = rf.fi
        mr.escapes(f2.qualname, None)
        mr.fixpoint()
        ctx = {"fi": f2, "self_cls": None, "key": (f2.qualname, None), "caught": frozenset(), "handler_var": None}
        ps = f2.params()
        off = 1 if f2.cls and not f2.is_staticmethod else 0
        good = {f"local:{x}" for x in rf.readers} | {f"param:{ps.index(x) - off}" for x in rf.readers if x in ps}
        handlers = []
        for t in walk_no_nested(f2.node):
            if isinstance(t, ast.Try):
                for h in t.handlers:
                    names = [] if h.type is None else (h.type.elts if isinstance(h.type, ast.Tuple) else [h.type])
                    if any(is_incomplete(model, model.resolve_name(f2.module, norm(n_)) or norm(n_)) for n_ in names):
                        handlers.append((t, h))
        for t, h in handlers:
            escs = mr.block(t.body, ctx)
            stream_level = [e for e in escs if is_incomplete(model, e.exc) and e.prov in good]
            if not stream_level:
                continue
            n += 1
            others = [r for r in ast.walk(ast.Module(body=h.body, type_ignores=[])) if isinstance(r, ast.Raise) and r.exc is not None and
                      not (isinstance(r.exc, ast.Name) and r.exc.id == h.name) and
                      not is_incomplete(model, model.resolve_name(f2.module, norm(r.exc.func if isinstance(r.exc, ast.Call) else r.exc)))]
            run.ob("L10-incomplete-unit-is-only-waited-for", not others, {"function": f2.qualname.split("sansldap.")[-1], "handler_line": h.lineno})
            for r in others[:1]:
                run.fail(Finding("L10-incomplete-unit-is-only-waited-for", f2.qualname, norm(r)[:80],
                                 f"{f2.name} catches the stream-level 'not enough data yet' and raises `{norm(r.exc)[:50]}` instead for some inputs: whether a message is "
                                 "returned or refused then depends on how the byte stream was chunked", model.loc(f2.module, r)))
    run.floor("handlers of the stream-level incomplete signal", n, 1)
